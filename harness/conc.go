package main

import (
	"bytes"
	"fmt"
	"github.com/ldclabs/cose/key/ecdsa"
	"github.com/ldclabs/cose/key/ed25519"
	"sync"
	"time"

	"github.com/ldclabs/cose/cose"
	"github.com/ldclabs/cose/cwt"
	"github.com/ldclabs/cose/iana"
	"github.com/ldclabs/cose/key"
	"github.com/ldclabs/cose/key/ecdh"
)

func init() { streams["conc"] = streamConc }

// C19: one shared instance of every implementation, of an ECDH object per curve, of the key factories on a shared key and
// of a validator, used by 16 goroutines at once. Every call must return what it returns when run alone; the binary is
// built with the race detector, which reports unsynchronised accesses (the driver reads its report).
func streamConc(c *ctx) {
	const G = 16
	iters := c.n(120, 2500)
	var mu sync.Mutex
	fail := func(op, what, in string, obs, exp any) {
		mu.Lock()
		defer mu.Unlock()
		c.fail(failure{Op: op, What: what, Input: short(in), Observed: short(fmt.Sprint(obs)), Expected: short(fmt.Sprint(exp)), Case: short(in)})
	}
	par := func(name string, body func(g, i int)) {
		var wg sync.WaitGroup
		for g := 0; g < G; g++ {
			wg.Add(1)
			go func(g int) {
				defer wg.Done()
				defer func() {
					if r := recover(); r != nil {
						fail("conc-panic", "a concurrent call panicked", name, r, "a result")
					}
				}()
				for i := 0; i < iters; i++ {
					body(g, i)
				}
			}(g)
		}
		wg.Wait()
		mu.Lock()
		c.evals += G * iters
		c.distinct["conc|"+name] = true
		mu.Unlock()
	}
	inputs := make([][]byte, 32)
	for i := range inputs {
		inputs[i] = c.r.bytes(pick(c.r, []int{0, 1, 16, 33, 200, 1000}))
	}
	for _, a := range allAlgs {
		k, err := genKeyFor(a.alg)
		if err != nil {
			continue
		}
		name := fmt.Sprintf("alg=%d", a.alg)
		switch {
		case a.alg < 0:
			s, e1 := k.Signer()
			v, e2 := k.Verifier()
			if e1 != nil || e2 != nil {
				fail("conc", "factory failed", name, fmt.Sprint(e1, e2), "implementations")
				continue
			}
			want := make([][]byte, len(inputs))
			for i, in := range inputs {
				want[i], _ = s.Sign(in)
			}
			par(name+" sign/verify", func(g, i int) {
				in := inputs[(g*7+i)%len(inputs)]
				sig, err := s.Sign(in)
				if err != nil || v.Verify(in, sig) != nil {
					fail("conc", "a signature made concurrently does not verify", name, err, "valid")
				}
				if a.alg == -8 && !bytes.Equal(sig, want[(g*7+i)%len(inputs)]) {
					fail("conc", "a deterministic signature differs from the one made alone", name, fmt.Sprintf("%x", sig), fmt.Sprintf("%x", want[(g*7+i)%len(inputs)]))
				}
				if v.Verify(in, want[(g*7+i+1)%len(inputs)]) == nil && !bytes.Equal(in, inputs[(g*7+i+1)%len(inputs)]) {
					fail("conc", "a signature over other data verified", name, "accepted", "an error")
				}
			})
		case (a.alg >= 4 && a.alg <= 7) || a.alg == 14 || a.alg == 15 || a.alg == 25 || a.alg == 26:
			m, err := k.MACer()
			if err != nil {
				fail("conc", "factory failed", name, err, "a MACer")
				continue
			}
			want := make([][]byte, len(inputs))
			for i, in := range inputs {
				want[i], _ = m.MACCreate(in)
			}
			par(name+" mac", func(g, i int) {
				j := (g*5 + i) % len(inputs)
				tag, err := m.MACCreate(inputs[j])
				if (err != nil) != (want[j] == nil) || !bytes.Equal(tag, want[j]) {
					fail("conc", "a tag computed concurrently differs from the one computed alone", name, fmt.Sprintf("%x %v", tag, err), fmt.Sprintf("%x", want[j]))
				}
				if want[j] != nil && m.MACVerify(inputs[j], want[j]) != nil {
					fail("conc", "a valid tag is refused under concurrency", name, "error", "nil")
				}
			})
			// bursts of refused tags from every goroutine (other data, a flipped bit, a truncated tag) between the genuine ones:
			// what one caller's failures are must not change what another caller's genuine tag is worth, then or afterwards
			par(name+" mac with refused tags in between", func(g, i int) {
				j := (g*5 + i) % len(inputs)
				if want[j] == nil {
					return
				}
				bad := append([]byte{}, want[j]...)
				bad[(g+i)%len(bad)] ^= 1 << uint(i%8)
				if m.MACVerify(inputs[j], bad) == nil || m.MACVerify(append([]byte("x"), inputs[j]...), want[j]) == nil || m.MACVerify(inputs[j], want[j][:len(want[j])-1]) == nil {
					fail("conc", "a tampered tag verified on a shared MACer", name, "nil", "an error")
				}
				if i%4 == 3 && m.MACVerify(inputs[j], want[j]) != nil {
					fail("conc", "a valid tag is refused on a shared MACer after other callers' tags were refused", name, "error", "nil")
				}
			})
			for j, in := range inputs {
				if want[j] != nil && m.MACVerify(in, want[j]) != nil {
					fail("conc", "a valid tag is refused by a MACer that had been shared (refused tags from 16 goroutines before)", name, "error", "nil")
					break
				}
			}
		default:
			e, err := k.Encryptor()
			if err != nil {
				fail("conc", "factory failed", name, err, "an Encryptor")
				continue
			}
			nonces := make([][]byte, len(inputs))
			want := make([][]byte, len(inputs))
			for i, in := range inputs {
				nonces[i] = c.r.bytes(e.NonceSize())
				want[i], _ = e.Encrypt(nonces[i], in, inputs[(i+1)%len(inputs)])
			}
			par(name+" aead", func(g, i int) {
				j := (g*3 + i) % len(inputs)
				aad := inputs[(j+1)%len(inputs)]
				ct, err := e.Encrypt(nonces[j], inputs[j], aad)
				if err != nil || !bytes.Equal(ct, want[j]) {
					fail("conc", "a ciphertext computed concurrently differs from the one computed alone", name, fmt.Sprintf("%x %v", ct, err), fmt.Sprintf("%x", want[j]))
				}
				pt, err := e.Decrypt(nonces[j], want[j], aad)
				if err != nil || !bytes.Equal(pt, inputs[j]) {
					fail("conc", "decryption under concurrency does not return the plaintext", name, fmt.Sprintf("%x %v", pt, err), fmt.Sprintf("%x", inputs[j]))
				}
			})
		}
		// the factories on a shared key, and accessors the implementations call
		par(name+" factories", func(g, i int) {
			if i%40 != 0 {
				return
			}
			switch {
			case a.alg < 0:
				if _, err := k.Signer(); err != nil {
					fail("conc", "Key.Signer failed under concurrency", name, err, "nil")
				}
				if _, err := k.Verifier(); err != nil {
					fail("conc", "Key.Verifier failed under concurrency", name, err, "nil")
				}
			case (a.alg >= 4 && a.alg <= 7) || a.alg == 14 || a.alg == 15 || a.alg == 25 || a.alg == 26:
				if _, err := k.MACer(); err != nil {
					fail("conc", "Key.MACer failed under concurrency", name, err, "nil")
				}
			default:
				if _, err := k.Encryptor(); err != nil {
					fail("conc", "Key.Encryptor failed under concurrency", name, err, "nil")
				}
			}
			k.Alg()
			k.Ops()
			k.Kid()
		})
	}
	// ---- keys as they arrive: decoded from CBOR / JSON / text (key_ops, kid, alg in the decoders' own value forms),
	// handed to the goroutines before anything has looked at them; all start at a barrier and obtain + use an implementation
	rounds := c.n(12, 120)
	for _, a := range allAlgs {
		k0, err := genKeyFor(a.alg)
		if err != nil {
			continue
		}
		switch {
		case a.alg < 0:
			k0.SetOps(iana.KeyOperationSign, iana.KeyOperationVerify)
		case (a.alg >= 4 && a.alg <= 7) || a.alg == 14 || a.alg == 15 || a.alg == 25 || a.alg == 26:
			k0.SetOps(iana.KeyOperationMacCreate, iana.KeyOperationMacVerify)
		default:
			k0.SetOps(iana.KeyOperationEncrypt, iana.KeyOperationDecrypt)
		}
		name := fmt.Sprintf("fresh decoded key alg=%d", a.alg)
		for round := 0; round < rounds; round++ {
			k, err := roundTrip(k0, 1+round%3)
			if err != nil {
				fail("conc", "key does not survive serialisation", name, err, "a key")
				break
			}
			start := make(chan struct{})
			var wg sync.WaitGroup
			for g := 0; g < G; g++ {
				wg.Add(1)
				go func(g int) {
					defer wg.Done()
					defer func() {
						if r := recover(); r != nil {
							fail("conc-panic", "a concurrent call panicked", name, r, "a result")
						}
					}()
					<-start
					in := inputs[g%len(inputs)]
					switch {
					case a.alg < 0:
						s, e1 := k.Signer()
						v, e2 := k.Verifier()
						if e1 != nil || e2 != nil {
							fail("conc", "factory on a shared, freshly decoded key failed", name, fmt.Sprint(e1, e2), "implementations")
							return
						}
						if sig, err := s.Sign(in); err != nil || v.Verify(in, sig) != nil {
							fail("conc", "a signature made concurrently does not verify", name, err, "valid")
						}
					case (a.alg >= 4 && a.alg <= 7) || a.alg == 14 || a.alg == 15 || a.alg == 25 || a.alg == 26:
						m, err := k.MACer()
						if err != nil {
							fail("conc", "factory on a shared, freshly decoded key failed", name, err, "a MACer")
							return
						}
						if tag, err := m.MACCreate(in); err == nil && m.MACVerify(in, tag) != nil {
							fail("conc", "a valid tag is refused under concurrency", name, "error", "nil")
						}
					default:
						e, err := k.Encryptor()
						if err != nil {
							fail("conc", "factory on a shared, freshly decoded key failed", name, err, "an Encryptor")
							return
						}
						iv := make([]byte, e.NonceSize())
						if ct, err := e.Encrypt(iv, in, nil); err == nil {
							if pt, err := e.Decrypt(iv, ct, nil); err != nil || !bytes.Equal(pt, in) {
								fail("conc", "decryption under concurrency does not return the plaintext", name, err, "plaintext")
							}
						}
					}
					k.Ops()
					k.Alg()
					k.Kid()
				}(g)
			}
			close(start)
			wg.Wait()
			mu.Lock()
			c.evals += G
			c.distinct["conc|"+name] = true
			mu.Unlock()
		}
	}
	// ---- a fresh implementation object, shared before its first use: all goroutines start at a barrier and make the
	// object's first calls together; the reference values come from another object of the same key
	for _, a := range allAlgs {
		name := fmt.Sprintf("fresh shared implementation alg=%d", a.alg)
		for round := 0; round < c.n(8, 80); round++ {
			k, err := genKeyFor(a.alg)
			if err != nil {
				break
			}
			in := inputs[round%len(inputs)]
			var body func(g int)
			switch {
			case a.alg < 0:
				s, e1 := k.Signer()
				v, e2 := k.Verifier()
				if e1 != nil || e2 != nil {
					break
				}
				body = func(g int) {
					if sig, err := s.Sign(in); err != nil || v.Verify(in, sig) != nil {
						fail("conc", "a signature made by a fresh shared signer does not verify", name, err, "valid")
					}
				}
			case (a.alg >= 4 && a.alg <= 7) || a.alg == 14 || a.alg == 15 || a.alg == 25 || a.alg == 26:
				m, e1 := k.MACer()
				ref, e2 := k.MACer()
				if e1 != nil || e2 != nil {
					break
				}
				want, werr := ref.MACCreate(in)
				if werr != nil {
					continue // (AES-CBC-MAC refuses empty data)
				}
				body = func(g int) {
					if g%2 == 0 {
						if tag, err := m.MACCreate(in); err != nil || !bytes.Equal(tag, want) {
							fail("conc", "a tag computed by a fresh shared MACer differs from the one computed alone", name, fmt.Sprintf("%x %v", tag, err), fmt.Sprintf("%x", want))
						}
					} else if m.MACVerify(in, want) != nil {
						fail("conc", "a valid tag is refused by a fresh shared MACer", name, "error", "nil")
					}
				}
			default:
				e, e1 := k.Encryptor()
				ref, e2 := k.Encryptor()
				if e1 != nil || e2 != nil {
					break
				}
				nonce := c.r.bytes(ref.NonceSize())
				want, werr := ref.Encrypt(nonce, in, []byte("aad"))
				if werr != nil {
					continue
				}
				body = func(g int) {
					if g%2 == 0 {
						if ct, err := e.Encrypt(nonce, in, []byte("aad")); err != nil || !bytes.Equal(ct, want) {
							fail("conc", "a ciphertext computed by a fresh shared encryptor differs from the one computed alone", name, fmt.Sprintf("%x %v", ct, err), fmt.Sprintf("%x", want))
						}
					} else if pt, err := e.Decrypt(nonce, want, []byte("aad")); err != nil || !bytes.Equal(pt, in) {
						fail("conc", "a fresh shared encryptor does not return the plaintext", name, fmt.Sprintf("%x %v", pt, err), fmt.Sprintf("%x", in))
					}
				}
			}
			if body == nil {
				break
			}
			start := make(chan struct{})
			var wg sync.WaitGroup
			for g := 0; g < G; g++ {
				wg.Add(1)
				go func(g int) {
					defer wg.Done()
					defer func() {
						if r := recover(); r != nil {
							fail("conc-panic", "a concurrent call panicked", name, r, "a result")
						}
					}()
					<-start
					body(g)
				}(g)
			}
			close(start)
			wg.Wait()
			mu.Lock()
			c.evals += G
			c.distinct["conc|"+name] = true
			mu.Unlock()
		}
	}
	// ---- a shared PUBLIC key without a key id (a compressed key, a peer's key): the factories only read it
	for _, alg := range []int{-7, -35, -36, -8} {
		name := fmt.Sprintf("shared public key without kid alg=%d", alg)
		for round := 0; round < c.n(10, 100); round++ {
			k, err := genKeyFor(alg)
			if err != nil {
				break
			}
			var pub key.Key
			if alg == -8 {
				pub, err = ed25519.ToPublicKey(k)
			} else if round%2 == 0 {
				pub, err = ecdsa.ToPublicKey(k)
			} else {
				pub, err = ecdsa.ToCompressedKey(k)
			}
			if err != nil {
				break
			}
			pub = cloneKey(pub)
			delete(pub, iana.KeyParameterKid)
			before := qMap(pub)
			s, serr := k.Signer()
			if serr != nil {
				break
			}
			sig, _ := s.Sign([]byte("m"))
			start := make(chan struct{})
			var wg sync.WaitGroup
			for g := 0; g < G; g++ {
				wg.Add(1)
				go func(g int) {
					defer wg.Done()
					defer func() {
						if r := recover(); r != nil {
							fail("conc-panic", "a concurrent call panicked", name, r, "a result")
						}
					}()
					<-start
					v, err := pub.Verifier()
					if err != nil || v.Verify([]byte("m"), sig) != nil {
						fail("conc", "a verifier obtained from a shared public key does not verify", name, err, "valid")
					}
					pub.Kid()
					pub.Alg()
				}(g)
			}
			close(start)
			wg.Wait()
			mu.Lock()
			c.evals += G
			c.distinct["conc|"+name] = true
			mu.Unlock()
			if qMap(pub) != before {
				fail("conc", "obtaining verifiers from a shared public key changed the key", name+" "+before, qMap(pub), "unchanged")
			}
		}
	}
	// ---- ECDH: one shared object per curve
	for _, crv := range []int{1, 2, 3, 4} {
		ka, e1 := ecdh.GenerateKey(crv)
		kb, e2 := ecdh.GenerateKey(crv)
		if e1 != nil || e2 != nil {
			continue
		}
		ea, e3 := ecdh.NewECDHer(ka)
		pb, e4 := ecdh.ToPublicKey(kb)
		if e3 != nil || e4 != nil {
			fail("conc", "ECDH setup failed", fmt.Sprint(crv), fmt.Sprint(e3, e4), "objects")
			continue
		}
		// several remote keys, so that calls for different peers interleave on the one object
		remotes := []key.Key{pb}
		for j := 0; j < 3; j++ {
			if kc, err := ecdh.GenerateKey(crv); err == nil {
				if pc, err := ecdh.ToPublicKey(kc); err == nil {
					remotes = append(remotes, pc)
				}
			}
		}
		// the same peers in compressed form (EC2 curves): calls for different peers and forms interleave on the one object
		if crv != 4 {
			for _, r := range append([]key.Key{}, remotes...) {
				if ck, err := ecdh.ToCompressedKey(r); err == nil {
					remotes = append(remotes, ck)
				}
			}
		}
		// the reference secrets come from another object and from copies of the peers' keys: the shared object and the
		// shared peer keys are untouched when the goroutines start
		wants := make([][]byte, len(remotes))
		befores := make([]string, len(remotes))
		if eref, err := ecdh.NewECDHer(cloneKey(ka)); err == nil {
			for j, r := range remotes {
				wants[j], _ = eref.ECDH(cloneKey(r))
				befores[j] = qMap(r)
			}
		}
		par(fmt.Sprintf("ecdh crv=%d", crv), func(g, i int) {
			j := (g + i) % len(remotes)
			s, err := ea.ECDH(remotes[j])
			if err != nil || !bytes.Equal(s, wants[j]) {
				fail("conc", "a shared secret computed concurrently differs from the one computed alone", fmt.Sprintf("crv=%d remote %d of %d", crv, j, len(remotes)), fmt.Sprintf("%x %v", s, err), fmt.Sprintf("%x", wants[j]))
			}
		})
		for j, r := range remotes {
			if qMap(r) != befores[j] {
				fail("conc", "ECDH changed the remote key it was given (a key shared between goroutines)", fmt.Sprintf("crv=%d remote %s", crv, befores[j]), qMap(r), "unchanged")
			}
		}
	}
	// ---- one validator
	now := time.Now()
	v, err := cwt.NewValidator(&cwt.ValidatorOpts{ExpectedIssuer: "iss", FixedNow: now, ClockSkew: time.Minute})
	if err == nil {
		ok := &cwt.Claims{Issuer: "iss", Expiration: uint64(now.Unix()) + 1000, NotBefore: uint64(now.Unix()) - 1000}
		expired := &cwt.Claims{Issuer: "iss", Expiration: uint64(now.Unix()) - 1000}
		okm := cwt.ClaimsMap{iana.CWTClaimIss: "iss", iana.CWTClaimExp: uint64(now.Unix()) + 1000}
		par("validator", func(g, i int) {
			if v.Validate(ok) != nil || v.Validate(expired) == nil || v.ValidateMap(okm) != nil {
				fail("conc", "the validator decides differently under concurrency", "validator", "changed", "same decisions")
			}
		})
	} else {
		fail("conc", "NewValidator failed", "validator", err, "a validator")
	}
	// ---- one validator that follows the system clock (FixedNow unset), every kind of decision: accepted, expired, not
	// yet valid, wrong issuer, wrong audience, issued in the future, no expiration; struct and map forms
	if vs, err := cwt.NewValidator(&cwt.ValidatorOpts{ExpectedIssuer: "iss", ExpectedAudience: "aud", ClockSkew: time.Minute, ExpectIssuedInThePast: true}); err == nil {
		u := uint64(now.Unix())
		type tok struct {
			c    *cwt.Claims
			m    cwt.ClaimsMap
			want bool
		}
		toks := []tok{
			{&cwt.Claims{Issuer: "iss", Audience: "aud", Expiration: u + 100000}, cwt.ClaimsMap{iana.CWTClaimIss: "iss", iana.CWTClaimAud: "aud", iana.CWTClaimExp: u + 100000}, true},
			{&cwt.Claims{Issuer: "iss", Audience: "aud", Expiration: u - 100000}, cwt.ClaimsMap{iana.CWTClaimIss: "iss", iana.CWTClaimAud: "aud", iana.CWTClaimExp: u - 100000}, false},
			{&cwt.Claims{Issuer: "iss", Audience: "aud", Expiration: u + 100000, NotBefore: u + 50000}, cwt.ClaimsMap{iana.CWTClaimIss: "iss", iana.CWTClaimAud: "aud", iana.CWTClaimExp: u + 100000, iana.CWTClaimNbf: u + 50000}, false},
			{&cwt.Claims{Issuer: "other", Audience: "aud", Expiration: u + 100000}, cwt.ClaimsMap{iana.CWTClaimIss: "other", iana.CWTClaimAud: "aud", iana.CWTClaimExp: u + 100000}, false},
			{&cwt.Claims{Issuer: "iss", Audience: "else", Expiration: u + 100000}, cwt.ClaimsMap{iana.CWTClaimIss: "iss", iana.CWTClaimAud: "else", iana.CWTClaimExp: u + 100000}, false},
			{&cwt.Claims{Issuer: "iss", Audience: "aud", Expiration: u + 100000, IssuedAt: u + 50000}, cwt.ClaimsMap{iana.CWTClaimIss: "iss", iana.CWTClaimAud: "aud", iana.CWTClaimExp: u + 100000, iana.CWTClaimIat: u + 50000}, false},
			{&cwt.Claims{Issuer: "iss", Audience: "aud"}, cwt.ClaimsMap{iana.CWTClaimIss: "iss", iana.CWTClaimAud: "aud"}, false},
			{&cwt.Claims{Issuer: "iss", Audience: "aud", Expiration: u + 100000, NotBefore: u - 50000, IssuedAt: u - 50000}, cwt.ClaimsMap{iana.CWTClaimIss: "iss", iana.CWTClaimAud: "aud", iana.CWTClaimExp: u + 100000, iana.CWTClaimNbf: u - 50000, iana.CWTClaimIat: u - 50000}, true},
		}
		par("validator on the system clock, mixed tokens", func(g, i int) {
			t := toks[(g+i)%len(toks)]
			e1, e2 := vs.Validate(t.c), vs.ValidateMap(t.m)
			if (e1 == nil) != t.want || (e2 == nil) != t.want {
				fail("conc", "a shared validator following the system clock decides differently under concurrency", fmt.Sprintf("token %d of %d", (g+i)%len(toks), len(toks)), fmt.Sprint(e1, e2), fmt.Sprintf("accepted=%v", t.want))
			}
		})
	}
	// ---- a validator is independent of the options variable it was built from: the caller goes on to reuse that
	// variable for another validator while the first one is shared
	{
		opts := cwt.ValidatorOpts{ExpectedIssuer: "iss", ExpectedAudience: "aud", FixedNow: now, ClockSkew: time.Second}
		v1, err := cwt.NewValidator(&opts)
		if err == nil {
			ok := &cwt.Claims{Issuer: "iss", Audience: "aud", Expiration: uint64(now.Unix()) + 1000}
			okm := cwt.ClaimsMap{iana.CWTClaimIss: "iss", iana.CWTClaimAud: "aud", iana.CWTClaimExp: uint64(now.Unix()) + 1000}
			var once sync.Once
			par("validator vs. its options variable", func(g, i int) {
				if g == 0 && i == 3 {
					once.Do(func() {
						// (only goroutine 0 writes, once: the caller's own variable, not the validator)
						opts.ExpectedIssuer, opts.ExpectedAudience = "other", "else"
						opts.FixedNow = now.Add(48 * time.Hour)
						cwt.NewValidator(&opts)
					})
				}
				if e1, e2 := v1.Validate(ok), v1.ValidateMap(okm); e1 != nil || e2 != nil {
					fail("conc", "a shared validator decides differently after the caller reused the options variable it was built from", "validator built from &opts; opts edited afterwards", fmt.Sprint(e1, e2), "accepted, as when run alone")
				}
			})
		}
	}
	// ---- a private key whose key_ops is held as the typed key.Ops value, shared: signers keep working while other
	// goroutines obtain verifiers / public keys from the same key
	for _, alg := range []int{-7, -35, -8} {
		k, err := genKeyFor(alg)
		if err != nil {
			continue
		}
		k[iana.KeyParameterKeyOps] = key.Ops{iana.KeyOperationSign, iana.KeyOperationVerify}
		before := qMap(k)
		s, err := k.Signer()
		if err != nil {
			fail("conc", "factory failed", fmt.Sprintf("typed key_ops alg=%d", alg), err, "a signer")
			continue
		}
		name := fmt.Sprintf("typed key_ops [sign verify] alg=%d", alg)
		par(name, func(g, i int) {
			if i%10 != 0 {
				return
			}
			in := inputs[(g+i)%len(inputs)]
			if g%2 == 0 {
				if _, err := s.Sign(in); err != nil {
					fail("conc", "a shared signer fails while other goroutines derive verifiers from its key", name, err, "a signature")
				}
				return
			}
			if _, err := k.Verifier(); err != nil {
				fail("conc", "Key.Verifier failed on a shared key", name, err, "a verifier")
			}
			if _, err := k.Signer(); err != nil {
				fail("conc", "Key.Signer failed on a shared key after verifiers were derived from it", name, err, "a signer")
			}
		})
		if qMap(k) != before {
			fail("conc", "using a shared key changed it", name, qMap(k), before)
		}
	}
	// ---- message level: one verifier / MACer shared by concurrent VerifySign1Message / VerifyMac0Message calls
	if k, err := genKeyFor(-8); err == nil {
		s, _ := k.Signer()
		vr, _ := k.Verifier()
		data, err := (&cose.Sign1Message[[]byte]{Payload: []byte("p")}).SignAndEncode(s, nil)
		if err == nil {
			par("VerifySign1Message", func(g, i int) {
				if m, err := cose.VerifySign1Message[[]byte](vr, data, nil); err != nil || !bytes.Equal(m.Payload, []byte("p")) {
					fail("conc", "a message does not verify under concurrency", "Sign1", err, "valid")
				}
				if i%10 == 0 {
					if out, err := (&cose.Sign1Message[[]byte]{Payload: []byte("p")}).SignAndEncode(s, nil); err != nil || !bytes.Equal(out, data) {
						fail("conc", "a deterministic message produced concurrently differs", "Sign1", err, "identical bytes")
					}
				}
			})
			// lists of six and of twelve entries shared by all goroutines (and a key set of the same keys): lookups of every kid, whole COSE_Sign messages verified and
			// produced with them; the lists are the same afterwards (order and entries)
			for _, nL := range []int{6, 12} {
				var ks6 []key.Key
				var vl key.Verifiers
				var sl key.Signers
				for j := 0; j < nL; j++ {
					kk, err := genKeyFor(-8)
					if err != nil {
						continue
					}
					kk[iana.KeyParameterKid] = []byte{byte('a' + j)}
					sj, e1 := kk.Signer()
					vj, e2 := kk.Verifier()
					if e1 != nil || e2 != nil {
						continue
					}
					ks6, vl, sl = append(ks6, kk), append(vl, vj), append(sl, sj)
				}
				if len(vl) == nL {
					order := func() string {
						o := ""
						for j := range vl {
							o += string(vl[j].Key().Kid()) + string(sl[j].Key().Kid())
						}
						return o
					}
					kset := key.KeySet(append([]key.Key{}, ks6...))
					before := order()
					ref, rerr := (&cose.SignMessage[[]byte]{Payload: []byte("p")}).SignAndEncode(sl, nil)
					par(fmt.Sprintf("%d shared verifiers / signers", nL), func(g, i int) {
						j := (g + i) % nL
						if v := vl.Lookup(ks6[j].Kid()); v == nil || !bytes.Equal(v.Key().Kid(), ks6[j].Kid()) {
							fail("conc", "lookup in a shared list of verifiers returned another entry or none", fmt.Sprintf("%d verifiers, kid %q", nL, ks6[j].Kid()), "wrong entry", "the entry with that kid")
						}
						if kf := kset.Lookup(ks6[j].Kid()); kf == nil || !bytes.Equal(kf.Kid(), ks6[j].Kid()) {
							fail("conc", "lookup in a shared key set returned another key or none", fmt.Sprintf("%d keys, kid %q", nL, ks6[j].Kid()), "wrong key", "the key with that kid")
						}
						if sg := sl.Lookup(ks6[j].Kid()); sg == nil || !bytes.Equal(sg.Key().Kid(), ks6[j].Kid()) {
							fail("conc", "lookup in a shared list of signers returned another entry or none", fmt.Sprintf("%d signers, kid %q", nL, ks6[j].Kid()), "wrong entry", "the entry with that kid")
						}
						if i%10 == 0 && rerr == nil {
							if _, err := cose.VerifySignMessage[[]byte](vl, ref, nil); err != nil {
								fail("conc", "a COSE_Sign message does not verify with a shared list of verifiers", "six signers", err, "valid")
							}
							if out, err := (&cose.SignMessage[[]byte]{Payload: []byte("p")}).SignAndEncode(sl, nil); err != nil || !bytes.Equal(out, ref) {
								fail("conc", "a deterministic COSE_Sign message produced with a shared list of signers differs from the one produced alone", "six signers", err, "identical bytes")
							}
						}
					})
					if order() != before {
						fail("conc", "using shared lists of verifiers / signers changed the lists", before, order(), "unchanged")
					}
				}
			}
			vs := key.Verifiers{vr}
			par("Verifiers.Lookup", func(g, i int) {
				if vs.Lookup(k.Kid()) == nil || len(vs.KeySet()) != 1 {
					fail("conc", "lookup on shared verifiers failed under concurrency", "lookup", "nil", "the verifier")
				}
			})
		}
	}
}
