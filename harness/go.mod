module verif/harness

go 1.20

require (
	github.com/fxamacker/cbor/v2 v2.7.0
	github.com/ldclabs/cose v0.0.0
	golang.org/x/crypto v0.26.0
)

replace github.com/ldclabs/cose => /repo
