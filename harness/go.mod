module verif/harness

go 1.20

require (
	github.com/fxamacker/cbor/v2 v2.7.0
	github.com/ldclabs/cose v0.0.0
	golang.org/x/crypto v0.26.0
)

require (
	github.com/x448/float16 v0.8.4 // indirect
	golang.org/x/sys v0.23.0 // indirect
)

replace github.com/ldclabs/cose => /repo
