package main

import (
	"bytes"
	"crypto/aes"
	"fmt"
	"io"

	"github.com/ldclabs/cose/iana"
	"github.com/ldclabs/cose/key"
	"github.com/ldclabs/cose/key/aesmac"
	"github.com/ldclabs/cose/key/hkdf"
)

func init() { streams["hkdf"] = streamHkdf }

// refHkdfAes: RFC 5869 expand with the LIBRARY'S OWN AES-MAC (16-byte tag) as the PRF
func refHkdfAes(secret, info []byte, n int) ([]byte, error) {
	alg := map[int]int{16: iana.AlgorithmAES_MAC_128_128, 32: iana.AlgorithmAES_MAC_256_128}[len(secret)]
	if alg == 0 {
		return nil, fmt.Errorf("no AES-MAC algorithm for a %d-byte key", len(secret))
	}
	m, err := aesmac.New(key.Key{iana.KeyParameterKty: 4, iana.KeyParameterAlg: alg, iana.SymmetricKeyParameterK: secret})
	if err != nil {
		return nil, err
	}
	var out, prev []byte
	for i := 1; len(out) < n && i <= 255; i++ {
		in := append(append(append([]byte{}, prev...), info...), byte(i))
		t, err := m.MACCreate(in)
		if err != nil {
			return nil, err
		}
		prev = t
		out = append(out, t...)
	}
	if len(out) < n {
		return nil, fmt.Errorf("limit")
	}
	return out[:n], nil
}

func streamHkdf(c *ctx) {
	c.beginCases("From Cose Require Import Model.HkdfAes Model.CryptoCorr.", "hkdf_case", "check_hkdf_case")
	c.maxCases = 60
	// ---- HKDF-AES: info lengths covering every residue mod 16, chunked reads, the 255-block limit
	infos := []int{0, 1, 14, 15, 16, 17, 30, 31, 32, 33, 47, 63, 200}
	if c.thorough() {
		infos = nil
		for l := 0; l <= 200; l++ {
			infos = append(infos, l)
		}
	}
	for _, il := range infos {
		for _, sl := range []int{16, 32} {
			if !c.thorough() && (il+sl)%3 == 1 {
				continue
			}
			secret := c.r.bytes(sl)
			info := c.r.bytes(il)
			// chunking
			var chunks []int
			total := 0
			nch := 1 + c.r.intn(5)
			for j := 0; j < nch; j++ {
				n := pick(c.r, []int{0, 1, 5, 15, 16, 17, 31, 32, 33, 48, 64, 100})
				chunks = append(chunks, n)
				total += n
			}
			block, err := aes.NewCipher(secret)
			if err != nil {
				continue
			}
			r := hkdf.NewAES(block, info)
			var out []byte
			ok := true
			for _, n := range chunks {
				buf := make([]byte, n)
				var rerr error
				p, pm := catch(func() { _, rerr = io.ReadFull(r, buf) })
				if p {
					c.fail(failure{Op: "hkdf", What: "aesHKDF.Read panics", Input: fmt.Sprintf("info=%d chunks=%v", il, chunks), Observed: "panic: " + pm, Expected: "bytes or error"})
					ok = false
					break
				}
				if rerr != nil {
					ok = false
					break
				}
				out = append(out, buf...)
			}
			var cs []string
			for _, n := range chunks {
				cs = append(cs, fmt.Sprint(n))
			}
			line := fmt.Sprintf("hkdf-aes|secret=%d|info=%d|chunks=%v => ok=%v", sl, il, chunks, ok)
			if !ok {
				out = nil
			}
			c.addCase(fmt.Sprintf("HAes %s %s [%s] %s %s", qHex(secret), qHex(info), joinS(cs, "; "), qB(ok), qHex(out)), line)
			// oracle 1: equals the one-shot derivation (chunk independence / prefix)
			one, oerr := hkdf.HKDFAES(secret, info, total)
			if ok && (oerr != nil || !bytes.Equal(one, out)) {
				c.fail(failure{Op: "hkdf", What: "chunked reads differ from the one-shot derivation", Input: line, Observed: hx(out), Expected: hx(one), Case: line, Theorem: "C13_reads_is_expand"})
			}
			// oracle 2: equals RFC 5869 expand with the library's own AES-MAC as PRF
			ref, rerr := refHkdfAes(secret, info, total)
			if ok && (rerr != nil || !bytes.Equal(ref, out)) {
				c.fail(failure{Op: "hkdf", What: "HKDF-AES output differs from RFC 5869 expand over the library's AES-CBC-MAC", Input: line, Observed: hx(out), Expected: hx(ref), Case: line, Theorem: "C13_stream_is_rfc5869"})
			}
			c.nontriv(fmt.Sprintf("aes|%d|%d|%d", il%16, sl, nch))
			if il < 2 {
				c.sample(line)
			}
		}
	}
	// the one-shot function on short outputs (a single block or less), every info residue: equal to the reference, a
	// prefix of the longer derivation, and equal to what the reader gives
	for il := 0; il <= c.n(48, 130); il++ {
		for _, sl := range []int{16, 32} {
			secret := c.r.bytes(sl)
			info := c.r.bytes(il)
			long, lerr := hkdf.HKDFAES(secret, info, 48)
			for _, n := range []int{0, 1, 8, 15, 16, 17, 32} {
				if !c.thorough() && (il+n+sl)%2 == 1 && n != 16 {
					continue
				}
				out, err := hkdf.HKDFAES(secret, info, n)
				line := fmt.Sprintf("hkdf-aes-oneshot|secret=%x|info=%x|size=%d => ok=%v", secret, info, n, err == nil)
				if err != nil {
					out = nil
				}
				c.addCase(fmt.Sprintf("HAes %s %s [%d] %s %s", qHex(secret), qHex(info), n, qB(err == nil), qHex(out)), line)
				ref, rerr := refHkdfAes(secret, info, n)
				if err != nil || rerr != nil || !bytes.Equal(out, ref) {
					c.fail(failure{Op: "hkdf", What: "one-shot HKDF-AES output differs from RFC 5869 expand over AES-CBC-MAC", Input: line, Observed: fmt.Sprintf("%x err=%v", out, err), Expected: hx(ref), Case: line, Theorem: "C13_stream_is_rfc5869"})
				}
				if err == nil && lerr == nil && !bytes.Equal(out, long[:n]) {
					c.fail(failure{Op: "hkdf", What: "a shorter HKDF-AES output is not a prefix of the longer one for the same secret and info", Input: line, Observed: hx(out), Expected: hx(long[:n]), Case: line, Theorem: "C13_reads_is_expand"})
				}
				c.nontriv(fmt.Sprintf("aes-oneshot|%d|%d|%d", il%16, sl, n))
			}
		}
	}
	// the limit, in one read and across reads
	for _, sl := range []int{16, 32} {
		secret := c.r.bytes(sl)
		info := c.r.bytes(7)
		for _, n := range []int{255*16 - 1, 255 * 16, 255*16 + 1, 255*16 + 16, 5000} {
			out, err := hkdf.HKDFAES(secret, info, n)
			line := fmt.Sprintf("hkdf-aes-limit|secret=%d|size=%d => ok=%v", sl, n, err == nil)
			if err != nil {
				out = nil
			}
			c.addCase(fmt.Sprintf("HAes %s %s [%d] %s %s", qHex(secret), qHex(info), n, qB(err == nil), qHex(out)), line)
			if (err == nil) != (n <= 255*16) {
				c.fail(failure{Op: "hkdf", What: "255-block limit", Input: line, Observed: fmt.Sprint(err), Expected: "error iff longer than 255 blocks", Case: line, Theorem: "C13_hkdf_aes_limit"})
			}
			c.nontriv(fmt.Sprintf("aes-limit|%d|%v", n, err == nil))
		}
		// across reads: exactly 255 blocks, then one more byte
		block, _ := aes.NewCipher(secret)
		r := hkdf.NewAES(block, info)
		buf := make([]byte, 255*16-10)
		_, e1 := io.ReadFull(r, buf)
		_, e2 := io.ReadFull(r, make([]byte, 10))
		_, e3 := io.ReadFull(r, make([]byte, 1))
		line := "hkdf-aes-limit-chunked|4070,10,1"
		c.addCase(fmt.Sprintf("HAes %s %s [4070; 10; 1] false %s", qHex(secret), qHex(info), qHex(nil)), line)
		if e1 != nil || e2 != nil || e3 == nil {
			c.fail(failure{Op: "hkdf", What: "limit across several reads", Input: line, Observed: fmt.Sprintf("%v %v %v", e1, e2, e3), Expected: "nil nil error", Case: line, Theorem: "C13_exhausted_stays_exhausted"})
		}
		// secrets of other sizes
		for _, bad := range []int{0, 1, 15, 17, 24, 31, 33, 64} {
			out, err := hkdf.HKDFAES(make([]byte, bad), info, 16)
			if err != nil {
				out = nil
			}
			c.addCase(fmt.Sprintf("HAes %s %s [16] %s %s", qHex(make([]byte, bad)), qHex(info), qB(err == nil), qHex(out)), fmt.Sprintf("hkdf-aes-secret|len=%d => ok=%v", bad, err == nil))
		}
	}
	// ---- HKDF-SHA-256 / 512 against the RFC 5869 specification over the Gallina HMAC
	sizes := []int{0, 1, 31, 32, 33, 42, 64, 65, 100}
	for _, w := range []int{256, 512} {
		hl := w / 8
		for i := 0; i < c.n(18, 120); i++ {
			secret := c.r.bytes(pick(c.r, []int{0, 1, 16, 32, 65, 130}))
			salt := c.r.bytes(pick(c.r, []int{0, 0, 1, 13, 32, 64, 129}))
			info := c.r.bytes(pick(c.r, []int{0, 1, 10, 48, 80}))
			size := pick(c.r, sizes)
			if i%6 == 5 {
				size = 255*hl + 1 // just over the limit (cheap: refused before any block is computed)
				if c.thorough() || i == 5 {
					size = pick(c.r, []int{255*hl - 1, 255 * hl})
				}
			}
			var out []byte
			var err error
			if w == 256 {
				out, err = hkdf.HKDF256(secret, salt, info, size)
			} else {
				out, err = hkdf.HKDF512(secret, salt, info, size)
			}
			if err != nil {
				out = nil
			}
			line := fmt.Sprintf("hkdf-sha%d|secret=%d|salt=%d|info=%d|size=%d => ok=%v", w, len(secret), len(salt), len(info), size, err == nil)
			c.addCase(fmt.Sprintf("HSha %d %s %s %s %d %s %s", w, qHex(secret), qHex(salt), qHex(info), size, qB(err == nil), qHex(out)), line)
			if (err == nil) != (size <= 255*hl) {
				c.fail(failure{Op: "hkdf", What: "255*HashLen limit", Input: line, Observed: fmt.Sprint(err), Expected: "error iff longer", Case: line, Theorem: "C13_hkdf_sha_limit"})
			}
			c.nontriv(fmt.Sprintf("sha|%d|%d|%v", w, size%hl, err == nil))
		}
	}
}

func joinS(xs []string, sep string) string {
	out := ""
	for i, x := range xs {
		if i > 0 {
			out += sep
		}
		out += x
	}
	return out
}
