package main

import (
	"bytes"
	"encoding/json"
	"fmt"

	"github.com/ldclabs/cose/cose"
	"github.com/ldclabs/cose/cwt"
	"github.com/ldclabs/cose/iana"
	"github.com/ldclabs/cose/key"
)

func init() { streams["values"] = streamValues }

// Value round trips of C09: encode, decode, compare (and encode again) for keys, key sets, header maps, claim sets in
// both forms, recipients, KDF contexts and ByteStr in its CBOR, JSON and text forms. An oracle stream (no Coq cases);
// the CoseMap codec itself is compared with the model by the msgparts stream.
func streamValues(c *ctx) {
	bad := func(op, what, in string, obs, exp any) {
		c.fail(failure{Op: op, What: what, Input: short(in), Observed: short(fmt.Sprint(obs)), Expected: short(fmt.Sprint(exp)), Case: short(in)})
	}
	n := c.n(150, 3000)
	for i := 0; i < n; i++ {
		// ---- keys and key sets
		var ks key.KeySet
		for j := 0; j < 1+c.r.intn(3); j++ {
			var k key.Key
			if c.r.bool() {
				k, _ = genKeyFor(pick(c.r, allAlgs).alg)
			} else {
				k = key.Key(genHeadersAt(c, 2, 1+c.r.intn(4), false))
				k[iana.KeyParameterKty] = 1 + c.r.intn(4)
			}
			if c.r.bool() {
				k[iana.KeyParameterKid] = c.r.bytes(c.r.intn(8))
			}
			b, err := key.MarshalCBOR(k)
			c.eval()
			if err != nil {
				bad("key-roundtrip", "a key does not encode", describe(k), err, "bytes")
				continue
			}
			var k2 key.Key
			if err := key.UnmarshalCBOR(b, &k2); err != nil {
				bad("key-roundtrip", "an encoded key does not decode", fmt.Sprintf("%x", b), err, "a key")
				continue
			}
			b2, err := key.MarshalCBOR(k2)
			if err != nil || !bytes.Equal(b, b2) {
				bad("key-roundtrip", "a decoded key encodes to other bytes", fmt.Sprintf("%x", b), fmt.Sprintf("%x %v", b2, err), fmt.Sprintf("%x", b))
			}
			if k.Kty() != k2.Kty() || k.Alg() != k2.Alg() || !bytes.Equal(k.Kid(), k2.Kid()) || len(k) != len(k2) {
				bad("key-roundtrip", "a decoded key differs from the encoded one", describe(k), describe(k2), describe(k))
			}
			ks = append(ks, k)
		}
		kb, err := key.MarshalCBOR(ks)
		if err == nil {
			var ks2 key.KeySet
			if err := key.UnmarshalCBOR(kb, &ks2); err != nil || len(ks2) != len(ks) {
				bad("keyset-roundtrip", "an encoded key set does not decode to as many keys", fmt.Sprintf("%x", kb), fmt.Sprint(len(ks2), err), len(ks))
			} else if kb2, _ := key.MarshalCBOR(ks2); !bytes.Equal(kb, kb2) {
				bad("keyset-roundtrip", "a decoded key set encodes to other bytes", fmt.Sprintf("%x", kb), fmt.Sprintf("%x", kb2), fmt.Sprintf("%x", kb))
			}
		} else {
			bad("keyset-roundtrip", "a key set does not encode", describe(ks), err, "bytes")
		}
		c.eval()
		// ---- header maps
		h := genHeadersAt(c, 2, c.r.intn(5), false)
		if hb, err := key.MarshalCBOR(h); err == nil {
			var h2 cose.Headers
			if err := key.UnmarshalCBOR(hb, &h2); err != nil {
				bad("headers-roundtrip", "an encoded header map does not decode", fmt.Sprintf("%x", hb), err, "a map")
			} else if hb2, _ := key.MarshalCBOR(h2); !bytes.Equal(hb, hb2) || len(h2) != len(h) {
				bad("headers-roundtrip", "a decoded header map encodes to other bytes", fmt.Sprintf("%x", hb), fmt.Sprintf("%x", hb2), fmt.Sprintf("%x", hb))
			}
		} else {
			bad("headers-roundtrip", "a header map does not encode", describe(h), err, "bytes")
		}
		c.eval()
		// ---- claims: struct and map forms agree
		cl := cwt.Claims{}
		if c.r.bool() {
			cl.Issuer = pick(c.r, []string{"iss", "ldc:ca", "ünï", ""})
		}
		if c.r.bool() {
			cl.Subject = pick(c.r, []string{"sub", "", "s"})
		}
		if c.r.bool() {
			cl.Audience = pick(c.r, []string{"aud", "coap://light.example.com"})
		}
		if c.r.bool() {
			cl.Expiration = pick(c.r, []uint64{0, 1, 23, 24, 1444064944, 1 << 32, 1<<63 - 1, 1 << 63, 1<<64 - 1})
		}
		if c.r.bool() {
			cl.NotBefore = pick(c.r, []uint64{0, 1443944944, 1<<64 - 1})
		}
		if c.r.bool() {
			cl.IssuedAt = uint64(c.r.intn(1 << 30))
		}
		if c.r.bool() {
			cl.CWTID = c.r.bytes(c.r.intn(5))
		}
		cb, err := key.MarshalCBOR(cl)
		c.eval()
		if err != nil {
			bad("claims-roundtrip", "a claim set does not encode", fmt.Sprintf("%+v", cl), err, "bytes")
		} else {
			var cl2 cwt.Claims
			var cm cwt.ClaimsMap
			e1 := key.UnmarshalCBOR(cb, &cl2)
			e2 := key.UnmarshalCBOR(cb, &cm)
			if e1 != nil || e2 != nil {
				bad("claims-roundtrip", "an encoded claim set does not decode in both forms", fmt.Sprintf("%x", cb), fmt.Sprint(e1, e2), "both decode")
			} else {
				if cl2.Issuer != cl.Issuer || cl2.Subject != cl.Subject || cl2.Audience != cl.Audience || cl2.Expiration != cl.Expiration ||
					cl2.NotBefore != cl.NotBefore || cl2.IssuedAt != cl.IssuedAt || !bytes.Equal(cl2.CWTID, cl.CWTID) {
					bad("claims-roundtrip", "a decoded claim set differs from the encoded one", fmt.Sprintf("%+v", cl), fmt.Sprintf("%+v", cl2), fmt.Sprintf("%+v", cl))
				}
				mb, _ := key.MarshalCBOR(cm)
				if !bytes.Equal(mb, cb) {
					bad("claims-roundtrip", "struct and map forms of a claim set encode differently", fmt.Sprintf("%x", cb), fmt.Sprintf("%x", mb), fmt.Sprintf("%x", cb))
				}
				iss, _ := cm.GetString(iana.CWTClaimIss)
				exp, eerr := cm.GetUint64(iana.CWTClaimExp)
				cti, _ := cm.GetBytes(iana.CWTClaimCti)
				if iss != cl.Issuer || eerr != nil || exp != cl.Expiration || !bytes.Equal(cti, cl.CWTID) {
					bad("claims-roundtrip", "the map form reads other claims than the struct form wrote", fmt.Sprintf("%+v", cl), fmt.Sprint(iss, exp, eerr, cti), "the same")
				}
			}
		}
		// ---- recipients and KDF contexts
		r, _ := genRecip(c)
		if rb, err := r.MarshalCBOR(); err == nil {
			r2 := &cose.Recipient{}
			if err := r2.UnmarshalCBOR(rb); err != nil {
				bad("recipient-roundtrip", "an encoded recipient does not decode", fmt.Sprintf("%x", rb), err, "a recipient")
			} else if rb2, _ := r2.MarshalCBOR(); !bytes.Equal(rb, rb2) || len(r2.Recipients()) != len(r.Recipients()) || !bytes.Equal(r2.Ciphertext, r.Ciphertext) || (r2.Ciphertext == nil) != (r.Ciphertext == nil) {
				bad("recipient-roundtrip", "a decoded recipient differs from the encoded one", fmt.Sprintf("%x", rb), fmt.Sprintf("%x", rb2), fmt.Sprintf("%x", rb))
			}
		}
		c.eval()
		ob := func() []byte {
			switch c.r.intn(3) {
			case 0:
				return nil
			case 1:
				return []byte{}
			}
			return c.r.bytes(1 + c.r.intn(9))
		}
		kc := cose.KDFContext{AlgorithmID: pick(c.r, []int{-3, 1, 25, 100000}), PartyUInfo: cose.PartyInfo{Identity: ob(), Nonce: ob(), Other: ob()},
			PartyVInfo:  cose.PartyInfo{Identity: ob(), Nonce: ob(), Other: ob()},
			SuppPubInfo: cose.SuppPubInfo{KeyDataLength: uint(pick(c.r, []int{128, 256, 0})), Protected: cose.Headers{iana.HeaderParameterAlg: -29}, Other: ob()}, SuppPrivInfo: ob()}
		if c.r.bool() {
			kc.SuppPubInfo.Protected = cose.Headers{}
		}
		if kb, err := key.MarshalCBOR(kc); err == nil {
			var kc2 cose.KDFContext
			if err := key.UnmarshalCBOR(kb, &kc2); err != nil {
				bad("kdf-roundtrip", "an encoded KDF context does not decode", fmt.Sprintf("%x", kb), err, "a context")
			} else {
				kb2, _ := key.MarshalCBOR(kc2)
				nilEq := func(a, b []byte) bool { return bytes.Equal(a, b) && (a == nil) == (b == nil) }
				if !bytes.Equal(kb, kb2) || kc2.AlgorithmID != kc.AlgorithmID || !nilEq(kc2.SuppPrivInfo, kc.SuppPrivInfo) || !nilEq(kc2.SuppPubInfo.Other, kc.SuppPubInfo.Other) ||
					!nilEq(kc2.PartyUInfo.Identity, kc.PartyUInfo.Identity) || !nilEq(kc2.PartyVInfo.Other, kc.PartyVInfo.Other) || kc2.SuppPubInfo.KeyDataLength != kc.SuppPubInfo.KeyDataLength {
					bad("kdf-roundtrip", "a decoded KDF context differs from the encoded one (nil vs empty members included)", fmt.Sprintf("%x", kb), fmt.Sprintf("%x %+v", kb2, kc2), fmt.Sprintf("%+v", kc))
				}
			}
		} else {
			bad("kdf-roundtrip", "a KDF context does not encode", fmt.Sprintf("%+v", kc), err, "bytes")
		}
		c.eval()
		// ---- ByteStr in its three forms
		bs := key.ByteStr(c.r.bytes(c.r.intn(40)))
		var b1, b2, b3 key.ByteStr
		cb1, _ := key.MarshalCBOR(bs)
		e1 := key.UnmarshalCBOR(cb1, &b1)
		js, _ := json.Marshal(bs)
		e2 := json.Unmarshal(js, &b2)
		tx, _ := bs.MarshalText()
		e3 := b3.UnmarshalText(tx)
		c.eval()
		if e1 != nil || e2 != nil || e3 != nil || !bytes.Equal(b1, bs) || !bytes.Equal(b2, bs) || !bytes.Equal(b3, bs) {
			bad("bytestr-roundtrip", "ByteStr does not survive its CBOR / JSON / text forms", fmt.Sprintf("%x", []byte(bs)), fmt.Sprintf("%x %x %x %v %v %v", b1, b2, b3, e1, e2, e3), fmt.Sprintf("%x", []byte(bs)))
		}
		c.nontriv(fmt.Sprintf("values|%d", i%16))
	}
}
