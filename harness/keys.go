package main

import (
	"bytes"
	goecdsa "crypto/ecdsa"
	goed "crypto/ed25519"
	"fmt"
	"math/big"
	"reflect"
	"strings"

	"github.com/ldclabs/cose/iana"
	"github.com/ldclabs/cose/key"
	"github.com/ldclabs/cose/key/ecdh"
	"github.com/ldclabs/cose/key/ecdsa"
	"github.com/ldclabs/cose/key/ed25519"
)

func init() { streams["keys"] = streamKeys }

func hasLabel(k key.Key, l int) bool { _, ok := k[l]; return ok }

// Derived public keys and alternative encodings (C15): correspondence cases for ToPublicKey / NewSigner / NewVerifier on
// keys in every accepted encoding, and oracles on the implementation for all key types.
func streamKeys(c *ctx) {
	c.beginCases("From Cose Require Import Model.GoVal Model.Key Model.KeyCorr Model.KeyEnc.", "keyenc_case", "check_keyenc_case")
	c.maxCases = 150
	fail := func(op, what, in string, obs, exp any) {
		c.fail(failure{Op: op, What: what, Input: short(in), Observed: short(fmt.Sprint(obs)), Expected: short(fmt.Sprint(exp)), Case: short(in)})
	}
	optMap := func(k key.Key, err error) string {
		if err != nil {
			return "None"
		}
		return "(Some " + qMap(k) + ")"
	}
	noPrivate := func(pk key.Key, where, line string) {
		if hasLabel(pk, iana.EC2KeyParameterD) {
			fail("key-leak", "a derived public key carries the private parameter d ("+where+")", line, describe(pk), "no label -4")
		}
		for l := range pk {
			switch l {
			case iana.KeyParameterKty, iana.KeyParameterKid, iana.KeyParameterAlg, iana.KeyParameterKeyOps, iana.EC2KeyParameterCrv, iana.EC2KeyParameterX, iana.EC2KeyParameterY:
			default:
				fail("key-leak", "a derived public key carries an unexpected parameter ("+where+")", line, describe(pk), "kty, kid, alg, key_ops, crv, x, y only")
			}
		}
	}
	n := c.n(60, 1200)
	for i := 0; i < n; i++ {
		// ---- ECDSA keys from chosen scalars, in every encoding
		a := sigAlgs[i%3]
		var d *big.Int
		if i%4 == 0 {
			d = big.NewInt(int64(1 + c.r.intn(5000)))
		} else if i%4 == 1 {
			// search for a point whose x (or y) has a leading zero octet; on P-521 (top octet 0 or 1) for two leading zero octets
			want := a.size - 1
			if a.size == 66 {
				want = a.size - 2
			}
			var fallback *big.Int
			for t := 0; t < 4000; t++ {
				d = new(big.Int).SetBytes(c.r.bytes(a.size - 1))
				d.Add(d, big.NewInt(1))
				x, y := a.curve.ScalarBaseMult(d.Bytes())
				if len(x.Bytes()) <= want || len(y.Bytes()) <= want {
					fallback = nil
					break
				}
				if fallback == nil && len(x.Bytes()) < a.size {
					fallback = d
				}
			}
			if fallback != nil {
				d = fallback
			}
		} else {
			d = new(big.Int).SetBytes(c.r.bytes(a.size - 1 - c.r.intn(2)))
			d.Add(d, big.NewInt(1))
		}
		k, priv := ecKeyFromScalar(a, d)
		if k == nil {
			fail("key-valid", "KeyFromPrivate refused a valid private key", fmt.Sprintf("crv=%d d=%s", a.crv, d), "error", "a key")
			continue
		}
		line := fmt.Sprintf("ecdsa|crv=%d|d=%s", a.crv, d)
		o := oracleVals{px: priv.X, py: priv.Y, onCurve: true}
		if err := ecdsa.CheckKey(k); err != nil {
			fail("key-valid", "a key the library built does not pass its own CheckKey", line, err, "nil")
		}
		xFull, yFull := priv.X.FillBytes(make([]byte, a.size)), priv.Y.FillBytes(make([]byte, a.size))
		variants := map[string]key.Key{"as-built": k}
		withXY := cloneKey(k)
		withXY[iana.EC2KeyParameterX], withXY[iana.EC2KeyParameterY] = xFull, yFull
		variants["private+xy"] = withXY
		st := cloneKey(withXY)
		st[iana.EC2KeyParameterX], st[iana.EC2KeyParameterY] = stripZeros(xFull), stripZeros(yFull)
		variants["private+stripped-xy"] = st
		wrong := cloneKey(withXY)
		wx := append([]byte{}, xFull...)
		wx[len(wx)-1] ^= 1
		wrong[iana.EC2KeyParameterX] = wx
		variants["private+wrong-x"] = wrong
		negY := cloneKey(withXY)
		ny := new(big.Int).Sub(a.curve.Params().P, new(big.Int).SetBytes(yFull))
		negY[iana.EC2KeyParameterY] = ny.FillBytes(make([]byte, a.size))
		variants["private+wrong-negated-y"] = negY // the other point with this abscissa: on the curve, not d*G
		wrongBS := cloneKey(withXY)
		wrongBS[iana.EC2KeyParameterX], wrongBS[iana.EC2KeyParameterY] = key.ByteStr(wx), key.ByteStr(yFull)
		variants["private+wrong-x-as-ByteStr"] = wrongBS
		goodBS := cloneKey(withXY)
		goodBS[iana.EC2KeyParameterX], goodBS[iana.EC2KeyParameterY] = key.ByteStr(xFull), key.ByteStr(yFull)
		variants["private+xy-as-ByteStr"] = goodBS
		wrongY := cloneKey(withXY)
		wy := append([]byte{}, yFull...)
		wy[len(wy)-1] ^= 1
		wrongY[iana.EC2KeyParameterY] = wy
		variants["private+wrong-y"] = wrongY
		// the coordinates of another key pair: a point of the curve, but not d*G
		{
			d2 := new(big.Int).Add(d, big.NewInt(int64(1+c.r.intn(1000))))
			fx, fy := a.curve.ScalarBaseMult(d2.Bytes())
			foreign := cloneKey(withXY)
			foreign[iana.EC2KeyParameterX], foreign[iana.EC2KeyParameterY] = fx.FillBytes(make([]byte, a.size)), fy.FillBytes(make([]byte, a.size))
			variants["private+wrong-foreign-point"] = foreign
			fonly := cloneKey(withXY)
			fonly[iana.EC2KeyParameterY] = fy.FillBytes(make([]byte, a.size))
			fonly[iana.EC2KeyParameterX] = fx.FillBytes(make([]byte, a.size))
			delete(fonly, iana.KeyParameterKid)
			variants["private+wrong-foreign-point-no-kid"] = fonly
		}
		// the embedded point in compressed form (x, sign bit of y): the right one, and another key pair's
		{
			comp := cloneKey(withXY)
			comp[iana.EC2KeyParameterY] = priv.Y.Bit(0) == 1
			variants["private+compressed-xy"] = comp
			d3 := new(big.Int).Add(d, big.NewInt(int64(1001+c.r.intn(1000))))
			gx, gy := a.curve.ScalarBaseMult(d3.Bytes())
			fcomp := cloneKey(withXY)
			fcomp[iana.EC2KeyParameterX] = gx.FillBytes(make([]byte, a.size))
			fcomp[iana.EC2KeyParameterY] = gy.Bit(0) == 1
			variants["private+wrong-compressed-foreign-x"] = fcomp
			fsign := cloneKey(comp)
			fsign[iana.EC2KeyParameterY] = priv.Y.Bit(0) != 1
			variants["private+wrong-compressed-sign"] = fsign
			typed := cloneKey(k)
			typed[iana.KeyParameterKeyOps] = key.Ops{iana.KeyOperationSign, iana.KeyOperationVerify}
			variants["private+typed-ops"] = typed
		}
		// a coordinate that is only a suffix of the true one, or the true one behind other octets: another integer
		suf := cloneKey(withXY)
		suf[iana.EC2KeyParameterX] = xFull[2:]
		if xFull[0] != 0 || xFull[1] != 0 {
			variants["private+wrong-suffix-x"] = suf
		}
		sufY := cloneKey(withXY)
		sufY[iana.EC2KeyParameterY] = yFull[a.size/2:]
		if new(big.Int).SetBytes(yFull[:a.size/2]).Sign() != 0 {
			variants["private+wrong-suffix-y"] = sufY
		}
		if a.size < 66 {
			pre := cloneKey(withXY)
			pre[iana.EC2KeyParameterX] = append([]byte{0x5a, 0x01}, xFull...)
			variants["private+wrong-prefixed-x"] = pre
			// the same integers behind further zero octets (within the length CheckKey admits)
			pad := cloneKey(withXY)
			pad[iana.EC2KeyParameterX] = append(make([]byte, 2+c.r.intn(3)), xFull...)
			pad[iana.EC2KeyParameterY] = append(make([]byte, c.r.intn(4)), yFull...)
			variants["private+zero-padded-xy"] = pad
		}
		c.count(fmt.Sprintf("leading zero octets x=%d y=%d", a.size-len(priv.X.Bytes()), a.size-len(priv.Y.Bytes())))
		if b, err := key.MarshalCBOR(withXY); err == nil {
			var rt key.Key
			if key.UnmarshalCBOR(b, &rt) == nil {
				variants["cbor-roundtrip"] = rt
			}
		}
		for name, v := range variants {
			beforeV := qMap(v)
			pk, err := ecdsa.ToPublicKey(v)
			if qMap(v) != beforeV {
				fail("key-immutable", "deriving the public key changed the private key ("+name+")", beforeV, qMap(v), "unchanged")
			}
			c.addCase(fmt.Sprintf("EcPub %s %s %s", o.coq(), qMap(v), optMap(pk, err)), short(fmt.Sprintf("ecdsa.ToPublicKey|%s|%s => err=%v", name, describe(v), err)))
			_, serr := ecdsa.NewSigner(v)
			c.addCase(fmt.Sprintf("EcSigner %s %s %s", o.coq(), qMap(v), qB(serr == nil)), short(fmt.Sprintf("ecdsa.NewSigner|%s|%s => err=%v", name, describe(v), serr)))
			c.nontriv(fmt.Sprintf("ecpub|%s|%v|%v", name, err == nil, serr == nil))
			c.count(fmt.Sprintf("ecdsa %s topublic=%v signer=%v", name, err == nil, serr == nil))
			want := !strings.Contains(name, "wrong")
			if (err == nil) != want || (serr == nil) != want {
				fail("key-encoding", "an encoding of a private EC2 key is not treated as the property requires ("+name+")", line+"|"+describe(v), fmt.Sprint(err, serr), fmt.Sprintf("accepted=%v", want))
			}
			if err == nil {
				noPrivate(pk, "ecdsa.ToPublicKey", line)
				x, _ := pk.GetBytes(iana.EC2KeyParameterX)
				y, _ := pk.GetBytes(iana.EC2KeyParameterY)
				if !bytes.Equal(x, xFull) || !bytes.Equal(y, yFull) {
					fail("key-public", "the derived public key is not the fixed-length encoding of d*G", line, fmt.Sprintf("%x %x", x, y), fmt.Sprintf("%x %x", xFull, yFull))
				}
				if v2, err := ecdsa.NewVerifier(v); err == nil {
					noPrivate(v2.Key(), "Verifier.Key", line)
					ks := key.Verifiers{v2}.KeySet()
					if len(ks) != 1 || hasLabel(ks[0], iana.EC2KeyParameterD) {
						fail("key-leak", "a key set built from verifiers carries a private parameter", line, describe(ks), "public keys")
					}
				} else {
					fail("key-public", "NewVerifier refused a key whose public key derives", line, err, "a verifier")
				}
			}
		}
		// public key in its encodings
		pub := key.Key{iana.KeyParameterKty: iana.KeyTypeEC2, iana.EC2KeyParameterCrv: a.crv, iana.EC2KeyParameterX: xFull, iana.EC2KeyParameterY: yFull}
		pubs := map[string]key.Key{"fixed": pub}
		sp := cloneKey(pub)
		sp[iana.EC2KeyParameterX], sp[iana.EC2KeyParameterY] = stripZeros(xFull), stripZeros(yFull)
		pubs["stripped"] = sp
		cp := cloneKey(pub)
		cp[iana.EC2KeyParameterY] = priv.Y.Bit(0) == 1
		pubs["compressed"] = cp
		cps := cloneKey(cp)
		cps[iana.EC2KeyParameterX] = stripZeros(xFull)
		pubs["compressed-stripped"] = cps
		wrongSign := cloneKey(pub)
		wrongSign[iana.EC2KeyParameterY] = priv.Y.Bit(0) == 0
		pubs["compressed-other-sign"] = wrongSign
		signer, _ := ecdsa.NewSigner(k)
		msg := c.r.bytes(20)
		var sig []byte
		if signer != nil {
			sig, _ = signer.Sign(msg)
		}
		for name, v := range pubs {
			ver, err := ecdsa.NewVerifier(v)
			ov := o
			if name == "compressed-other-sign" {
				// the other sign bit denotes the point (x, p - y), which is on the curve as well
				ov = oracleVals{px: priv.X, py: new(big.Int).Sub(a.curve.Params().P, priv.Y), onCurve: true}
			}
			c.addCase(fmt.Sprintf("EcVerifier %s %s %s", ov.coq(), qMap(v), qB(err == nil)), short(fmt.Sprintf("ecdsa.NewVerifier|%s|%s => err=%v", name, describe(v), err)))
			c.nontriv(fmt.Sprintf("ecver|%s|%v", name, err == nil))
			if err != nil {
				fail("key-encoding", "an RFC 9053 encoding of a public EC2 key is refused ("+name+")", line+"|"+describe(v), err, "a verifier")
				continue
			}
			verr := ver.Verify(msg, sig)
			if (verr == nil) != (name != "compressed-other-sign") {
				fail("key-encoding", "an encoding of a public EC2 key does not behave like the fixed-length one ("+name+")", line+"|"+describe(v), verr, "same verification result")
			}
			// what the library emits for a public key given in a fixed-length form (ToPublicKey, Verifier.Key, the key set of the
			// verifier): every coordinate it writes as a byte string has the curve's length, and the point is the same
			if name == "fixed" || name == "compressed" || name == "compressed-other-sign" {
				emitted := map[string]key.Key{"Verifier.Key": ver.Key()}
				if tp, err := ecdsa.ToPublicKey(v); err == nil {
					emitted["ToPublicKey"] = tp
				} else {
					fail("key-public", "ToPublicKey refuses a public key ("+name+")", line+"|"+describe(v), err, "the public key")
				}
				if ks := (key.Verifiers{ver}).KeySet(); len(ks) == 1 {
					emitted["Verifiers.KeySet"] = ks[0]
				}
				for en, ek := range emitted {
					for _, l := range []int{iana.EC2KeyParameterX, iana.EC2KeyParameterY} {
						if b, err := ek.GetBytes(l); err == nil && ek.Has(l) && len(b) != a.size {
							fail("key-public", fmt.Sprintf("%s of a public key (%s) emits a coordinate that is not fixed-length", en, name), line+"|"+describe(v)+" => "+describe(ek), len(b), a.size)
						}
					}
					if ek.Has(iana.EC2KeyParameterD) {
						fail("key-public", en+" of a public key holds a private parameter", line, describe(ek), "no d")
					}
					if ep, err := ecdsa.KeyToPublic(ek); err != nil || ep.X.Cmp(ov.px) != 0 || ep.Y.Cmp(ov.py) != 0 {
						fail("key-public", fmt.Sprintf("%s of a public key (%s) does not denote the same point", en, name), line+"|"+describe(ek), err, "the same point")
					}
				}
			}
			gp, err := ecdsa.KeyToPublic(v)
			if err != nil || (name != "compressed-other-sign" && (gp.X.Cmp(priv.X) != 0 || gp.Y.Cmp(priv.Y) != 0)) {
				fail("key-convert", "KeyToPublic does not return the point the key denotes ("+name+")", line, fmt.Sprint(gp, err), "the point")
			}
		}
		// the compressed forms the library emits keep the fixed coordinate length
		for name, src := range map[string]key.Key{"public": pub, "private+xy": withXY} {
			if ck, err := ecdsa.ToCompressedKey(src); err == nil {
				if x, _ := ck.GetBytes(iana.EC2KeyParameterX); ck.Has(iana.EC2KeyParameterX) && len(x) != a.size {
					fail("key-public", "ecdsa.ToCompressedKey emits an x coordinate that is not fixed-length ("+name+")", line, len(x), a.size)
				}
			} else {
				fail("key-public", "ecdsa.ToCompressedKey refused a valid key ("+name+")", line, err, "a compressed key")
			}
		}
		if ck, err := ecdh.ToCompressedKey(pub); err == nil {
			if x, _ := ck.GetBytes(iana.EC2KeyParameterX); len(x) != a.size {
				fail("key-public", "ecdh.ToCompressedKey emits an x coordinate that is not fixed-length", line, len(x), a.size)
			}
			p1, e1 := ecdh.KeyToPublic(ck)
			p2, e2 := ecdh.KeyToPublic(pub)
			if e1 != nil || e2 != nil || !bytes.Equal(p1.Bytes(), p2.Bytes()) {
				fail("key-encoding", "the compressed form of an ECDH public key does not denote the same point", line, fmt.Sprint(e1, e2), "equal points")
			}
		} else {
			fail("key-public", "ecdh.ToCompressedKey refused a valid public key", line, err, "a compressed key")
		}
		// conversions to and from Go's key types are mutual inverses
		if gp, err := ecdsa.KeyToPrivate(k); err != nil || gp.D.Cmp(d) != 0 || gp.X.Cmp(priv.X) != 0 {
			fail("key-convert", "KeyToPrivate(KeyFromPrivate(p)) is not p", line, err, "p")
		}
		if kp, err := ecdsa.KeyFromPublic(&priv.PublicKey); err == nil {
			if gp, err := ecdsa.KeyToPublic(kp); err != nil || gp.X.Cmp(priv.X) != 0 || gp.Y.Cmp(priv.Y) != 0 {
				fail("key-convert", "KeyToPublic(KeyFromPublic(p)) is not p", line, err, "p")
			}
			x, _ := kp.GetBytes(iana.EC2KeyParameterX)
			y, _ := kp.GetBytes(iana.EC2KeyParameterY)
			if len(x) != a.size || len(y) != a.size {
				fail("key-public", "KeyFromPublic emits coordinates that are not fixed-length", line, fmt.Sprint(len(x), len(y)), a.size)
			}
		} else {
			fail("key-convert", "KeyFromPublic refused a valid public key", line, err, "a key")
		}
		_ = goecdsa.PublicKey{}
		// ---- Ed25519
		seed := c.r.bytes(32)
		gpriv := goed.NewKeyFromSeed(seed)
		gpub := gpriv.Public().(goed.PublicKey)
		ek, err := ed25519.KeyFromSeed(seed)
		if err != nil || ed25519.CheckKey(ek) != nil {
			fail("key-valid", "ed25519.KeyFromSeed / CheckKey failed", fmt.Sprintf("%x", seed), err, "a valid key")
			continue
		}
		eo := oracleVals{edPub: gpub}
		evariants := map[string]key.Key{"as-built": ek}
		wx2 := cloneKey(ek)
		wx2[iana.OKPKeyParameterX] = []byte(gpub)
		evariants["private+x"] = wx2
		bx := cloneKey(ek)
		bad := append([]byte{}, gpub...)
		bad[0] ^= 1
		bx[iana.OKPKeyParameterX] = bad
		evariants["private+wrong-x"] = bx
		// the same embedded x held in named byte types (what KeyFromPublic / ToPublicKey and JSON decoding produce)
		for tn, conv := range map[string]func([]byte) any{"PublicKey": func(b []byte) any { return goed.PublicKey(b) }, "ByteStr": func(b []byte) any { return key.ByteStr(b) }} {
			good := cloneKey(ek)
			good[iana.OKPKeyParameterX] = conv(append([]byte{}, gpub...))
			evariants["private+x-as-"+tn] = good
			wrongT := cloneKey(ek)
			wrongT[iana.OKPKeyParameterX] = conv(append([]byte{}, bad...))
			evariants["private+wrong-x-as-"+tn] = wrongT
		}
		withOps := cloneKey(ek)
		withOps[iana.KeyParameterKeyOps] = key.Ops{iana.KeyOperationSign, iana.KeyOperationVerify}
		evariants["private+ops"] = withOps
		noKid := cloneKey(ek)
		delete(noKid, iana.KeyParameterKid)
		evariants["private-no-kid"] = noKid
		noKidOps := cloneKey(noKid)
		noKidOps[iana.KeyParameterKeyOps] = key.Ops{iana.KeyOperationSign, iana.KeyOperationVerify}
		evariants["private-no-kid+ops"] = noKidOps
		for name, v := range evariants {
			before := qMap(v)
			pk, err := ed25519.ToPublicKey(v)
			if qMap(v) != before {
				fail("key-immutable", "deriving the public key changed the private key ("+name+")", before, qMap(v), "unchanged")
			}
			if err == nil {
				// the derived key is a key of its own: it passes CheckKey, yields a verifier, and carries the optional
				// members of the private key (kid) only when the private key has them
				if cerr := ed25519.CheckKey(pk); cerr != nil {
					fail("key-public", "the derived Ed25519 public key does not pass CheckKey ("+name+")", describe(v), cerr, "a valid key")
				}
				if _, verr := ed25519.NewVerifier(pk); verr != nil {
					fail("key-public", "the derived Ed25519 public key yields no verifier ("+name+")", describe(v), verr, "a verifier")
				}
				if hasLabel(pk, iana.KeyParameterKid) != hasLabel(v, iana.KeyParameterKid) {
					fail("key-public", "the derived Ed25519 public key does not mirror the optional kid of the private key ("+name+")", describe(v), describe(pk), "kid present iff the private key has one")
				}
				if _, serr := ed25519.NewSigner(v); serr != nil {
					fail("key-immutable", "the private key no longer yields a signer after its public key was derived ("+name+")", describe(v), serr, "a signer")
				}
			}
			c.addCase(fmt.Sprintf("EdPub %s %s %s", eo.coq(), qMap(v), optMap(pk, err)), short(fmt.Sprintf("ed25519.ToPublicKey|%s|%s => err=%v", name, describe(v), err)))
			c.nontriv(fmt.Sprintf("edpub|%s|%v", name, err == nil))
			if (err == nil) != !strings.Contains(name, "wrong") {
				fail("key-encoding", "an Ed25519 private key form is not treated as the property requires ("+name+")", describe(v), err, !strings.Contains(name, "wrong"))
			}
			if err == nil {
				noPrivate(pk, "ed25519.ToPublicKey", describe(v))
				x, _ := pk.GetBytes(iana.OKPKeyParameterX)
				if !bytes.Equal(x, gpub) {
					fail("key-public", "the derived Ed25519 public key is not the one the seed yields", describe(v), fmt.Sprintf("%x", x), fmt.Sprintf("%x", []byte(gpub)))
				}
				if v2, err := ed25519.NewVerifier(v); err == nil {
					noPrivate(v2.Key(), "Verifier.Key", describe(v))
				}
			}
		}
		if gp, err := ed25519.KeyToPrivate(ek); err != nil || !bytes.Equal(gp, gpriv) {
			fail("key-convert", "ed25519.KeyToPrivate(KeyFromSeed(s)) is not the key of s", fmt.Sprintf("%x", seed), err, "the key")
		}
		if kp, err := ed25519.KeyFromPublic(gpub); err == nil {
			if gp, err := ed25519.KeyToPublic(kp); err != nil || !bytes.Equal(gp, gpub) {
				fail("key-convert", "ed25519.KeyToPublic(KeyFromPublic(p)) is not p", fmt.Sprintf("%x", seed), err, "p")
			}
		}
		// ---- ECDH keys: generated keys validate and their derived public forms carry no d
		for _, crv := range []int{1, 2, 3, 4} {
			dk, err := ecdh.GenerateKey(crv)
			c.eval()
			if err != nil || ecdh.CheckKey(dk) != nil {
				fail("key-valid", "a generated ECDH key does not pass its own CheckKey", fmt.Sprint(crv), err, "valid")
				continue
			}
			pk, err := ecdh.ToPublicKey(dk)
			if err != nil {
				fail("key-public", "ecdh.ToPublicKey failed on a generated key", describe(dk), err, "a public key")
				continue
			}
			noPrivate(pk, "ecdh.ToPublicKey", describe(dk))
			if gp, err := ecdh.KeyToPrivate(dk); err == nil {
				if gpk, err := ecdh.KeyToPublic(pk); err != nil || !bytes.Equal(gpk.Bytes(), gp.PublicKey().Bytes()) {
					fail("key-public", "the derived ECDH public key is not the public key of d", describe(dk), err, "equal")
				}
				if k2, err := ecdh.KeyFromPrivate(gp); err != nil || !bytes.Equal(key.UnwrapBytes(k2.GetBytes(iana.EC2KeyParameterD)), gp.Bytes()) {
					fail("key-convert", "ecdh.KeyFromPrivate(KeyToPrivate(k)) lost the scalar", describe(dk), err, "same d")
				}
			} else {
				fail("key-convert", "ecdh.KeyToPrivate refused a generated key", describe(dk), err, "a key")
			}
			if crv != 4 {
				if ck, err := ecdh.ToCompressedKey(pk); err != nil || ecdh.CheckKey(ck) != nil {
					fail("key-public", "the compressed form of a generated ECDH key is not valid", describe(pk), err, "valid")
				} else if _, err := ecdh.KeyToPublic(ck); err != nil {
					fail("key-public", "the compressed form of a generated ECDH key does not convert", describe(ck), err, "a point")
				} else {
					// each public form with the optional alg member naming a key-agreement algorithm: the same point
					ref, _ := ecdh.KeyToPublic(pk)
					for fn, form := range map[string]key.Key{"uncompressed": pk, "compressed": ck} {
						for _, av := range []int{iana.AlgorithmECDH_ES_HKDF_256, iana.AlgorithmECDH_SS_HKDF_512, iana.AlgorithmECDH_ES_A256KW} {
							wa := cloneKey(form)
							wa[iana.KeyParameterAlg] = av
							if ecdh.CheckKey(wa) != nil {
								continue
							}
							c.eval()
							c.nontriv(fmt.Sprintf("ecdh-public+alg|%d|%s", crv, fn))
							got, err := ecdh.KeyToPublic(wa)
							if err != nil || ref == nil || !bytes.Equal(got.Bytes(), ref.Bytes()) {
								fail("key-encoding", "a valid "+fn+" ECDH public key that carries the optional alg member does not convert to the same point", describe(wa), err, "the point of the key")
							}
						}
					}
				}
			}
		}
		// ---- a key set built from several verifiers: one public key per verifier, in order, whatever their key ids
		// (none, all the same, distinct)
		for _, kidMode := range []string{"none", "same", "distinct"} {
			var vs key.Verifiers
			var want []string
			for j, alg := range []int{-7, -8, -35, -7} {
				pkv, err := genKeyFor(alg)
				if err != nil {
					continue
				}
				switch kidMode {
				case "none":
					delete(pkv, iana.KeyParameterKid)
				case "same":
					pkv[iana.KeyParameterKid] = []byte("shared")
				default:
					pkv[iana.KeyParameterKid] = []byte{byte(j)}
				}
				if j%2 == 1 && alg != -8 { // every other one from the compressed public key
					if ck, err := ecdsa.ToCompressedKey(pkv); err == nil {
						pkv = ck
					}
				}
				v, err := pkv.Verifier()
				if err != nil {
					fail("key-valid", "a generated key yields no verifier", describe(pkv), err, "a verifier")
					continue
				}
				vs = append(vs, v)
				pub := v.Key()
				if pub.Has(iana.EC2KeyParameterD) {
					if alg == -8 {
						pub, _ = ed25519.ToPublicKey(pub)
					} else {
						pub, _ = ecdsa.ToPublicKey(pub)
					}
				}
				xb, _ := pub.GetBytes(iana.EC2KeyParameterX)
				want = append(want, fmt.Sprintf("%x", xb))
			}
			ks := vs.KeySet()
			c.eval()
			c.nontriv("keyset-from-verifiers|" + kidMode)
			var got []string
			for _, k := range ks {
				noPrivate(k, "Verifiers.KeySet", kidMode)
				xb, _ := k.GetBytes(iana.EC2KeyParameterX)
				got = append(got, fmt.Sprintf("%x", xb))
			}
			if strings.Join(got, ",") != strings.Join(want, ",") {
				fail("key-public", "the key set built from verifiers does not hold exactly their public keys (key ids: "+kidMode+")", fmt.Sprintf("%d verifiers, kid mode %s", len(vs), kidMode), strings.Join(got, ","), strings.Join(want, ","))
			}
		}
		// ---- the public key derived from an ECDH private key that carries the optional alg and key_ops: alg is kept, the
		// operations become an empty list, on every curve alike
		for _, crv := range []int{1, 2, 3, 4} {
			dk, err := ecdh.GenerateKey(crv)
			if err != nil {
				continue
			}
			for _, withOps := range []bool{false, true} {
				kk := cloneKey(dk)
				av := pick(c.r, []int{iana.AlgorithmECDH_ES_HKDF_256, iana.AlgorithmECDH_SS_HKDF_512, iana.AlgorithmECDH_ES_A128KW})
				kk[iana.KeyParameterAlg] = av
				if withOps {
					kk[iana.KeyParameterKeyOps] = key.Ops{iana.KeyOperationDeriveKey}
				}
				if ecdh.CheckKey(kk) != nil {
					continue
				}
				pk, err := ecdh.ToPublicKey(kk)
				c.eval()
				c.nontriv(fmt.Sprintf("ecdh-derived-members|%d|%v", crv, withOps))
				if err != nil {
					fail("key-public", "ecdh.ToPublicKey failed on a valid private key carrying alg / key_ops", describe(kk), err, "a public key")
					continue
				}
				if ga, _ := pk.GetInt(iana.KeyParameterAlg); ga != av {
					fail("key-public", "the public key derived from an ECDH private key does not carry its alg", describe(kk), describe(pk), fmt.Sprintf("alg %d", av))
				}
				if withOps != pk.Has(iana.KeyParameterKeyOps) || len(pk.Ops()) != 0 {
					fail("key-public", "the public key derived from an ECDH private key does not carry an empty key_ops exactly when the private key has one", describe(kk), describe(pk), "key_ops [] iff present")
				}
				if ecdh.CheckKey(pk) != nil {
					fail("key-public", "the public key derived from an ECDH private key does not pass CheckKey", describe(kk), describe(pk), "valid")
				}
			}
		}
		// ---- an ECDH private key that carries public coordinates (RFC 9053 recommends it): its own, in each form, or
		// wrongly those of another key. The derived public key denotes d.G, or the conversion is refused.
		for _, crv := range []int{1, 2, 3, 4} {
			dk, e1 := ecdh.GenerateKey(crv)
			ok2, e2 := ecdh.GenerateKey(crv)
			if e1 != nil || e2 != nil {
				continue
			}
			pk, e1 := ecdh.ToPublicKey(dk)
			pk2, e2 := ecdh.ToPublicKey(ok2)
			if e1 != nil || e2 != nil {
				continue
			}
			srcs := map[string]key.Key{"own": pk, "foreign": pk2}
			if crv != 4 {
				if ck, err := ecdh.ToCompressedKey(pk); err == nil {
					srcs["own-compressed"] = ck
				}
				if ck, err := ecdh.ToCompressedKey(pk2); err == nil {
					srcs["foreign-compressed"] = ck
				}
			}
			for name, src := range srcs {
				kp := cloneKey(dk)
				for _, l := range []int{iana.EC2KeyParameterX, iana.EC2KeyParameterY} {
					if v, ok := src[l]; ok {
						kp[l] = v
					}
				}
				var got key.Key
				var err error
				if p, pm := catch(func() { got, err = ecdh.ToPublicKey(kp) }); p {
					fail("key-public", "ecdh.ToPublicKey panics on a private key carrying public coordinates ("+name+")", describe(kp), pm, "a key or an error")
					continue
				}
				c.eval()
				c.nontriv(fmt.Sprintf("ecdh-embedded|%d|%s|%v", crv, name, err == nil))
				if err != nil {
					if strings.HasPrefix(name, "own") {
						fail("key-public", "ecdh.ToPublicKey refused a private key carrying its own public coordinates ("+name+")", describe(kp), err, "the public key")
					}
					continue
				}
				noPrivate(got, "ecdh.ToPublicKey", describe(kp))
				if !reflect.DeepEqual(got[iana.EC2KeyParameterX], pk[iana.EC2KeyParameterX]) || !reflect.DeepEqual(got[iana.EC2KeyParameterY], pk[iana.EC2KeyParameterY]) {
					fail("key-public", "the public key derived from an ECDH private key carrying public coordinates ("+name+") is not the public key of d", describe(kp), describe(got), describe(pk))
				}
			}
		}
		// symmetric keys of every algorithm validate through the registry
		if i < 24 {
			sa := allAlgs[i].alg
			if sk, err := genKeyFor(sa); err != nil {
				fail("key-valid", "GenerateKey failed", fmt.Sprint(sa), err, "a key")
			} else {
				var werr error
				switch {
				case sa < 0:
					_, werr = sk.Signer()
					if werr == nil {
						_, werr = sk.Verifier()
					}
				case (sa >= 4 && sa <= 7) || sa == 14 || sa == 15 || sa == 25 || sa == 26:
					_, werr = sk.MACer()
				default:
					_, werr = sk.Encryptor()
				}
				if werr != nil {
					fail("key-valid", "a generated key does not work through the registry", describe(sk), werr, "an implementation")
				}
			}
		}
	}
}
