package main

import (
	"fmt"
	"github.com/ldclabs/cose/key"
	"strings"

	"github.com/ldclabs/cose/cose"
	"github.com/ldclabs/cose/iana"
)

func init() { streams["objhist"] = streamObjHist }

// Stream objhist (correspondence with Model/MsgObj.v): random histories of calls and field edits on ONE message object
// of the three single-layer kinds (T = []byte), with the transparent fake primitives. After every step the outcome of
// the call and the exported fields (Protected, Unprotected, Payload) are recorded; the model replays the history.
type histObj interface {
	Decode([]byte) error
	Produce(fs []fkey, ext []byte) error
	Consume(fs []fkey, ext []byte) error
	Sigs() ([]*cose.Signature, bool)
	Marshal() ([]byte, error)
	Prot() *cose.Headers
	Unprot() *cose.Headers
	Payload() *[]byte
	Recips() []*cose.Recipient
	AddRecip(*cose.Recipient) error
}

type hSign1 struct{ m cose.Sign1Message[[]byte] }

func (h *hSign1) Decode(d []byte) error             { return h.m.UnmarshalCBOR(d) }
func (h *hSign1) Produce(fs []fkey, e []byte) error { return h.m.WithSign(fs[0], e) }
func (h *hSign1) Sigs() ([]*cose.Signature, bool)   { return nil, false }
func (h *hSign1) Consume(fs []fkey, e []byte) error { return h.m.Verify(fs[0], e) }
func (h *hSign1) Marshal() ([]byte, error)          { return h.m.MarshalCBOR() }
func (h *hSign1) Prot() *cose.Headers               { return &h.m.Protected }
func (h *hSign1) Unprot() *cose.Headers             { return &h.m.Unprotected }
func (h *hSign1) Recips() []*cose.Recipient         { return nil }
func (h *hSign1) AddRecip(*cose.Recipient) error    { return nil }
func (h *hSign1) Payload() *[]byte                  { return &h.m.Payload }

type hMac0 struct{ m cose.Mac0Message[[]byte] }

func (h *hMac0) Decode(d []byte) error             { return h.m.UnmarshalCBOR(d) }
func (h *hMac0) Produce(fs []fkey, e []byte) error { return h.m.Compute(fs[0], e) }
func (h *hMac0) Sigs() ([]*cose.Signature, bool)   { return nil, false }
func (h *hMac0) Consume(fs []fkey, e []byte) error { return h.m.Verify(fs[0], e) }
func (h *hMac0) Marshal() ([]byte, error)          { return h.m.MarshalCBOR() }
func (h *hMac0) Prot() *cose.Headers               { return &h.m.Protected }
func (h *hMac0) Unprot() *cose.Headers             { return &h.m.Unprotected }
func (h *hMac0) Recips() []*cose.Recipient         { return nil }
func (h *hMac0) AddRecip(*cose.Recipient) error    { return nil }
func (h *hMac0) Payload() *[]byte                  { return &h.m.Payload }

type hEnc0 struct{ m cose.Encrypt0Message[[]byte] }

func (h *hEnc0) Decode(d []byte) error             { return h.m.UnmarshalCBOR(d) }
func (h *hEnc0) Produce(fs []fkey, e []byte) error { return h.m.Encrypt(fs[0], e) }
func (h *hEnc0) Sigs() ([]*cose.Signature, bool)   { return nil, false }
func (h *hEnc0) Consume(fs []fkey, e []byte) error { return h.m.Decrypt(fs[0], e) }
func (h *hEnc0) Marshal() ([]byte, error)          { return h.m.MarshalCBOR() }
func (h *hEnc0) Prot() *cose.Headers               { return &h.m.Protected }
func (h *hEnc0) Unprot() *cose.Headers             { return &h.m.Unprotected }
func (h *hEnc0) Recips() []*cose.Recipient         { return nil }
func (h *hEnc0) AddRecip(*cose.Recipient) error    { return nil }
func (h *hEnc0) Payload() *[]byte                  { return &h.m.Payload }

type hMac struct{ m cose.MacMessage[[]byte] }

func (h *hMac) Decode(d []byte) error             { return h.m.UnmarshalCBOR(d) }
func (h *hMac) Produce(fs []fkey, e []byte) error { return h.m.Compute(fs[0], e) }
func (h *hMac) Sigs() ([]*cose.Signature, bool)   { return nil, false }
func (h *hMac) Consume(fs []fkey, e []byte) error { return h.m.Verify(fs[0], e) }
func (h *hMac) Marshal() ([]byte, error)          { return h.m.MarshalCBOR() }
func (h *hMac) Prot() *cose.Headers               { return &h.m.Protected }
func (h *hMac) Unprot() *cose.Headers             { return &h.m.Unprotected }
func (h *hMac) Payload() *[]byte                  { return &h.m.Payload }
func (h *hMac) Recips() []*cose.Recipient         { return h.m.Recipients() }
func (h *hMac) AddRecip(r *cose.Recipient) error  { return h.m.AddRecipient(r) }

type hEnc struct{ m cose.EncryptMessage[[]byte] }

func (h *hEnc) Decode(d []byte) error             { return h.m.UnmarshalCBOR(d) }
func (h *hEnc) Produce(fs []fkey, e []byte) error { return h.m.Encrypt(fs[0], e) }
func (h *hEnc) Sigs() ([]*cose.Signature, bool)   { return nil, false }
func (h *hEnc) Consume(fs []fkey, e []byte) error { return h.m.Decrypt(fs[0], e) }
func (h *hEnc) Marshal() ([]byte, error)          { return h.m.MarshalCBOR() }
func (h *hEnc) Prot() *cose.Headers               { return &h.m.Protected }
func (h *hEnc) Unprot() *cose.Headers             { return &h.m.Unprotected }
func (h *hEnc) Payload() *[]byte                  { return &h.m.Payload }
func (h *hEnc) Recips() []*cose.Recipient         { return h.m.Recipients() }
func (h *hEnc) AddRecip(r *cose.Recipient) error  { return h.m.AddRecipient(r) }

type hSign struct{ m cose.SignMessage[[]byte] }

func (h *hSign) Decode(d []byte) error { return h.m.UnmarshalCBOR(d) }
func (h *hSign) Produce(fs []fkey, e []byte) error {
	ss := key.Signers{}
	for _, f := range fs {
		ss = append(ss, f)
	}
	return h.m.WithSign(ss, e)
}
func (h *hSign) Consume(fs []fkey, e []byte) error {
	vs := key.Verifiers{}
	for _, f := range fs {
		vs = append(vs, f)
	}
	return h.m.Verify(vs, e)
}
func (h *hSign) Marshal() ([]byte, error)        { return h.m.MarshalCBOR() }
func (h *hSign) Prot() *cose.Headers             { return &h.m.Protected }
func (h *hSign) Unprot() *cose.Headers           { return &h.m.Unprotected }
func (h *hSign) Payload() *[]byte                { return &h.m.Payload }
func (h *hSign) Recips() []*cose.Recipient       { return nil }
func (h *hSign) AddRecip(*cose.Recipient) error  { return nil }
func (h *hSign) Sigs() ([]*cose.Signature, bool) { l := h.m.Signatures(); return l, l != nil }

func newHistObj(kind string) histObj {
	switch kind {
	case "KSign1":
		return &hSign1{}
	case "KMac0":
		return &hMac0{}
	case "KMac":
		return &hMac{}
	case "KEnc":
		return &hEnc{}
	case "KSign":
		return &hSign{}
	}
	return &hEnc0{}
}

func qSnap(h histObj) string {
	sg := "None"
	if l, ok := h.Sigs(); ok {
		var sl []string
		for _, s := range l {
			b := "None"
			if s.Signature != nil {
				b = "(Some " + qHex(s.Signature) + ")"
			}
			sl = append(sl, fmt.Sprintf("(%s, %s, %s)", qMap(s.Protected), qOptMap(s.Unprotected), b))
		}
		sg = "(Some " + qList(sl) + ")"
	}
	return fmt.Sprintf("(%s, %s, %s, %s, %s)", qOptMap(*h.Prot()), qOptMap(*h.Unprot()), qOptB(*h.Payload()), qRecipsSeen(h.Recips()), sg)
}

func streamObjHist(c *ctx) {
	c.beginCases("From Cose Require Import Model.GoVal Model.Msg Model.MsgWireCorr Model.MsgObj Model.MsgObjCorr.", "obj_case", "check_obj_case")
	n := c.n(240, 4000)
	type sent struct {
		data []byte
		f    fkey
		ext  []byte
		extq string
		kind string
	}
	var pool []sent // messages seen so far, of any kind: decoding input
	for _, cd := range [][]byte{{0xd2, 0x84, 0x41, 0xa0, 0xa0, 0x41, 0x01, 0x41, 0x02}, {0xd1, 0x84, 0x41, 0xa0, 0xa0, 0x41, 0x01, 0x41, 0x02}, {0xd0, 0x83, 0x41, 0xa0, 0xa0, 0x41, 0x01},
		{0xd2, 0x84, 0x40, 0xa0, 0x41, 0x01, 0x41, 0x02}, {0xd1, 0x84, 0x40, 0xa0, 0x41, 0x01, 0x41, 0x02}, {0xd0, 0x83, 0x40, 0xa0, 0x41, 0x01}} {
		pool = append(pool, sent{cd, genFkey(c, 0), nil, "None", ""})
	}
	for i := 0; i < n; i++ {
		kind := pick(c.r, []string{"KSign1", "KMac0", "KEnc0", "KMac", "KEnc", "KSign"})
		multi := kind == "KMac" || kind == "KEnc"
		algs := []int{1, 5, 0}
		keys := []fkey{genFkey(c, pick(c.r, algs)), genFkey(c, pick(c.r, algs))}
		if kind == "KEnc0" || kind == "KEnc" {
			keys[1].nsize = keys[0].nsize
		}
		// the two keys often share their secret: only the header logic tells them apart
		if c.r.bool() {
			keys[1].secret = keys[0].secret
		}
		for j := range keys {
			keys[j].fail = c.r.intn(12) == 0
		}
		h := newHistObj(kind)
		var ops, trace, lines []string
		steps := 3 + c.r.intn(9)
		var own []sent
		var last *sent // the key and external data under which the object's wire struct was made, when known
		var pending []string
		var lastKeys []fkey
		for s := 0; s < steps; s++ {
			var opq, out, line string
			forceAdd := multi && (s == 0 && c.r.intn(4) > 0 || c.r.intn(10) == 0)
			r0 := c.r.intn(20)
			if len(pending) > 0 { // a scheduled continuation: encode, add a recipient, encode again
				switch pending[0] {
				case "add":
					forceAdd = true
				case "marshal":
					forceAdd, r0 = false, 12
				}
				pending = pending[1:]
			}
			switch r := r0; {
			case forceAdd: // COSE_Mac / COSE_Encrypt: a recipient, mostly before anything else
				rc, rq := genRecip(c)
				var err error
				p, _ := catch(func() { err = h.AddRecip(rc) })
				opq, line = "OAddRecip "+rq, "AddRecipient"
				out = outOf(p, err)
			case r < 3: // decode
				var data []byte
				var from *sent
				switch {
				case len(own) > 0 && c.r.intn(3) > 0:
					e := pick(c.r, own)
					data, from = e.data, &e
				case len(pool) > 0 && c.r.intn(3) > 0:
					e := pick(c.r, pool)
					for t := 0; t < 6 && e.kind != kind; t++ { // mostly a message of the object's own kind
						e = pick(c.r, pool)
					}
					if c.r.intn(4) == 0 {
						e = pool[c.r.intn(6)] // the messages with empty buckets
					}
					data, from = e.data, &e
				default:
					data = c.r.bytes(c.r.intn(6))
				}
				if c.r.intn(6) == 0 && len(data) > 0 {
					data, _ = mutate(c, data)
				}
				data = append([]byte{}, data...)
				var err error
				p, _ := catch(func() { err = h.Decode(data) })
				if !p && err == nil {
					last = from
					lastKeys = nil
				}
				opq, line = "ODecode "+qHex(data), fmt.Sprintf("decode %x", data)
				out = outOf(p, err)
			case r < 8: // produce
				f := pick(c.r, keys)
				fs, fq := pickKeys(c, kind, keys, f)
				ext, extq := genExt(c)
				before, _ := (*h.Unprot()).GetBytes(iana.HeaderParameterIV)
				var err error
				p, _ := catch(func() { err = h.Produce(fs, ext) })
				draw := []byte{}
				if (kind == "KEnc0" || kind == "KEnc") && len(before) == 0 && *h.Unprot() != nil {
					if after, _ := (*h.Unprot()).GetBytes(iana.HeaderParameterIV); len(after) > 0 {
						draw = after
					}
				}
				opq, line = fmt.Sprintf("OProduce %s %s %s", fq, extq, qHex(draw)), fmt.Sprintf("produce key=%s (%d keys) ext=%x", describe(f.k), len(fs), ext)
				out = outOf(p, err)
				if !p && err == nil {
					last = &sent{nil, f, ext, extq, kind}
					lastKeys = fs
				}
			case r < 12: // consume
				f := pick(c.r, keys)
				ext, extq := genExt(c)
				fs, fq := pickKeys(c, kind, keys, f)
				if last != nil && c.r.intn(10) < 7 { // mostly: the key and external data the message was made with
					f, ext, extq = last.f, last.ext, last.extq
					fs, fq = []fkey{f}, "(fp "+f.coq()+")"
					if kind == "KSign" {
						fs = lastKeys
						if fs == nil {
							fs = keys
						}
						fq = qFps(fs)
					}
				}
				var err error
				p, _ := catch(func() { err = h.Consume(fs, ext) })
				opq, line = fmt.Sprintf("OConsume %s %s", fq, extq), fmt.Sprintf("consume key=%s (%d keys) ext=%x", describe(f.k), len(fs), ext)
				out = outOf(p, err)
			case r < 14: // marshal
				var b []byte
				var err error
				p, _ := catch(func() { b, err = h.Marshal() })
				opq, line = "OMarshal", "marshal"
				if !p && err == nil {
					out = "RBytes " + qHex(b)
					if multi && len(pending) == 0 && c.r.bool() {
						pending = []string{"add", "marshal"}
						if steps < s+3 {
							steps = s + 3
						}
					}
					if last != nil {
						e := sent{b, last.f, last.ext, last.extq, kind}
						own = append(own, e)
						if len(pool) < 200 && kind == pick(c.r, []string{kind, kind, "other"}) {
							pool = append(pool, e)
						}
					}
				} else {
					out = outOf(p, err)
				}
			case r < 16: // edit the protected map
				l, v, vq := genEdit(c, keys)
				switch c.r.intn(5) {
				case 0:
					delete(*h.Prot(), l)
					opq, line = fmt.Sprintf("ODelProt %s", qZ(int64(l))), fmt.Sprintf("delete(Protected, %d)", l)
				case 1:
					*h.Prot() = nil
					opq, line = "ONilProt", "Protected = nil"
				default:
					if *h.Prot() == nil {
						*h.Prot() = cose.Headers{l: v}
					} else {
						(*h.Prot())[l] = v
					}
					opq, line = fmt.Sprintf("OSetProt %s %s", qZ(int64(l)), vq), fmt.Sprintf("Protected[%d] = %v", l, v)
				}
				out = "RNone"
			case r < 19: // edit the unprotected map
				l, v, vq := genEdit(c, keys)
				switch c.r.intn(6) {
				case 0:
					delete(*h.Unprot(), l)
					opq, line = fmt.Sprintf("ODelUnprot %s", qZ(int64(l))), fmt.Sprintf("delete(Unprotected, %d)", l)
				case 1:
					*h.Unprot() = nil
					opq, line = "ONilUnprot", "Unprotected = nil"
				default:
					if *h.Unprot() == nil {
						*h.Unprot() = cose.Headers{l: v}
					} else {
						(*h.Unprot())[l] = v
					}
					opq, line = fmt.Sprintf("OSetUnprot %s %s", qZ(int64(l)), vq), fmt.Sprintf("Unprotected[%d] = %v", l, v)
				}
				out = "RNone"
			default:
				var b []byte
				switch c.r.intn(4) {
				case 0:
				case 1:
					b = []byte{}
				default:
					b = c.r.bytes(1 + c.r.intn(20))
				}
				*h.Payload() = b
				opq, line, out = "OSetPayload "+qOptB(b), fmt.Sprintf("Payload = %x", b), "RNone"
			}
			ops = append(ops, "("+opq+")")
			trace = append(trace, "("+out+", "+qSnap(h)+")")
			lines = append(lines, line+" => "+strings.SplitN(out, " ", 2)[0])
			c.count(strings.SplitN(opq, " ", 2)[0] + " " + strings.SplitN(out, " ", 2)[0])
			c.nontriv(kind + "|" + strings.SplitN(opq, " ", 2)[0] + "|" + strings.SplitN(out, " ", 2)[0])
		}
		// objects are independent of each other: whatever this history wrote into the maps of its object, a fresh object
		// that decodes a message with empty buckets sees empty maps
		for ck, cd := range map[string][]byte{"KSign1": {0xd2, 0x84, 0x41, 0xa0, 0xa0, 0x41, 0x01, 0x41, 0x02}, "KMac0": {0xd1, 0x84, 0x41, 0xa0, 0xa0, 0x41, 0x01, 0x41, 0x02}, "KEnc0": {0xd0, 0x83, 0x41, 0xa0, 0xa0, 0x41, 0x01}} {
			fo := newHistObj(ck)
			if err := fo.Decode(cd); err != nil || len(*fo.Prot()) != 0 || len(*fo.Unprot()) != 0 {
				c.fail(failure{Op: "objhist", What: "a fresh object that decodes a message with empty header buckets does not see empty maps after another object was used", Input: short("objhist|" + kind + "|" + strings.Join(lines, " ; ") + fmt.Sprintf(" ; then fresh %s decodes %x", ck, cd)),
					Observed: short(fmt.Sprintf("err=%v Protected=%v Unprotected=%v", err, *fo.Prot(), *fo.Unprot())), Expected: "empty maps", Case: "objhist|" + kind})
			}
		}
		c.addCase(fmt.Sprintf("OCase %s [%s] [%s]", kind, strings.Join(ops, "; "), strings.Join(trace, "; ")), "objhist|"+kind+"|"+strings.Join(lines, " ; "))
	}
}

func outOf(panicked bool, err error) string {
	switch {
	case panicked:
		return "RPanic"
	case err != nil:
		return "RErr"
	}
	return "ROk"
}

// genEdit picks a header label and a value for it: the algorithm of one of the keys (or another one), a key id, an IV of
// the nonce size (or not), a Partial IV, or an unrelated parameter.
func genEdit(c *ctx, keys []fkey) (int, any, string) {
	switch c.r.intn(8) {
	case 0, 1:
		a := pick(c.r, []int{1, 5, 7})
		if c.r.intn(5) == 0 {
			return 1, "A128GCM", qGval("A128GCM")
		}
		return 1, a, qGval(a)
	case 2:
		b := c.r.bytes(c.r.intn(4))
		return 4, b, qGval(b)
	case 3, 4:
		b := c.r.bytes(pick(c.r, []int{0, keys[0].nsize, keys[0].nsize, 12, 5}))
		return 5, b, qGval(b)
	case 5:
		b := c.r.bytes(pick(c.r, []int{0, 1, 3, 6, 13}))
		return 6, b, qGval(b)
	case 6:
		return 3, 42, qGval(42)
	}
	b := c.r.bytes(2)
	return 99, b, qGval(b)
}

// pickKeys: the keys handed to a produce / consume call and their Coq term. The single-key kinds take one key; COSE_Sign
// takes a list (none, one, both, in either order; the two keys of a history often share kid or secret).
func pickKeys(c *ctx, kind string, keys []fkey, f fkey) ([]fkey, string) {
	if kind != "KSign" {
		return []fkey{f}, "(fp " + f.coq() + ")"
	}
	var fs []fkey
	switch c.r.intn(8) {
	case 0:
	case 1, 2:
		fs = []fkey{f}
	case 3:
		fs = []fkey{keys[1], keys[0]}
	default:
		fs = []fkey{keys[0], keys[1]}
	}
	return fs, qFps(fs)
}

func qFps(fs []fkey) string {
	var l []string
	for _, f := range fs {
		l = append(l, f.coq())
	}
	return "(fps " + qList(l) + ")"
}
