package main

import (
	"bytes"
	"fmt"

	"github.com/fxamacker/cbor/v2"
	"github.com/ldclabs/cose/cose"
	"github.com/ldclabs/cose/iana"
	"github.com/ldclabs/cose/key"
	"github.com/ldclabs/cose/key/aesccm"
	"github.com/ldclabs/cose/key/aesgcm"
	"github.com/ldclabs/cose/key/aesmac"
	"github.com/ldclabs/cose/key/chacha20poly1305"
	"github.com/ldclabs/cose/key/ecdsa"
	"github.com/ldclabs/cose/key/ed25519"
	"github.com/ldclabs/cose/key/hmac"
)

func init() { streams["msgreal"] = streamMsgReal }

// The six message kinds over the 24 real algorithms: round trips in the three tagging forms, the bytes handed to the
// primitive compared with an independently written RFC 9052 structure, and tampering (C01, C02, C03, C04).
// This stream is an oracle stream: it has no Coq cases; what it compares against is written here, not in the model.

type recSigner struct {
	key.Signer
	seen *[][]byte
}

func (r recSigner) Sign(data []byte) ([]byte, error) {
	*r.seen = append(*r.seen, append([]byte{}, data...))
	return r.Signer.Sign(data)
}

type recVerifier struct {
	key.Verifier
	seen *[][]byte
}

func (r recVerifier) Verify(data, sig []byte) error {
	*r.seen = append(*r.seen, append([]byte{}, data...))
	return r.Verifier.Verify(data, sig)
}

type recMACer struct {
	key.MACer
	seen *[][]byte
}

func (r recMACer) MACCreate(data []byte) ([]byte, error) {
	*r.seen = append(*r.seen, append([]byte{}, data...))
	return r.MACer.MACCreate(data)
}
func (r recMACer) MACVerify(data, mac []byte) error {
	*r.seen = append(*r.seen, append([]byte{}, data...))
	return r.MACer.MACVerify(data, mac)
}

type recEncryptor struct {
	key.Encryptor
	seen *[][]byte
}

func (r recEncryptor) Encrypt(nonce, plaintext, aad []byte) ([]byte, error) {
	*r.seen = append(*r.seen, append([]byte{}, aad...))
	return r.Encryptor.Encrypt(nonce, plaintext, aad)
}
func (r recEncryptor) Decrypt(nonce, ciphertext, aad []byte) ([]byte, error) {
	*r.seen = append(*r.seen, append([]byte{}, aad...))
	return r.Encryptor.Decrypt(nonce, ciphertext, aad)
}

func genKeyFor(alg int) (key.Key, error) {
	switch {
	case alg == -7 || alg == -35 || alg == -36:
		return ecdsa.GenerateKey(alg)
	case alg == -8:
		return ed25519.GenerateKey()
	case alg >= 4 && alg <= 7:
		return hmac.GenerateKey(alg)
	case alg == 14 || alg == 15 || alg == 25 || alg == 26:
		return aesmac.GenerateKey(alg)
	case alg >= 1 && alg <= 3:
		return aesgcm.GenerateKey(alg)
	case alg == 24:
		return chacha20poly1305.GenerateKey()
	default:
		return aesccm.GenerateKey(alg)
	}
}

// rfcStructure writes [context, protected, (sign_protected), external_aad, (payload)] with the harness's own CBOR writer.
func rfcStructure(context string, prot, signProt, ext, payload []byte, withSign, withPayload bool) []byte {
	l := []*citem{{kind: 3, b: []byte(context)}, {kind: 2, b: prot}}
	if withSign {
		l = append(l, &citem{kind: 2, b: signProt})
	}
	if ext == nil {
		ext = []byte{}
	}
	l = append(l, &citem{kind: 2, b: ext})
	if withPayload {
		l = append(l, &citem{kind: 2, b: payload})
	}
	return (&citem{kind: 4, l: l}).enc(nil)
}

type realMsg struct {
	kind    string
	alg     int
	k       key.Key
	data    []byte
	ext     []byte
	payload []byte
	prot    []byte // protected bucket as on the wire
	line    string
}

func topElems(data []byte) ([]cbor.RawMessage, bool) {
	var parts []cbor.RawMessage
	if err := cbor.Unmarshal(cose.RemoveCBORTag(data), &parts); err != nil {
		return nil, false
	}
	return parts, true
}

func joinElems(parts []cbor.RawMessage) []byte {
	out := []byte{0x80 | byte(len(parts))}
	for _, p := range parts {
		out = append(out, p...)
	}
	return out
}

// consumeReal verifies / decrypts with the entry points and returns payload and the decoded protected headers' bytes
func consumeReal(kind string, k key.Key, data, ext []byte, seen *[][]byte) (payload []byte, prot []byte, err error) {
	switch kind {
	case "KSign1":
		v, e := k.Verifier()
		if e != nil {
			return nil, nil, e
		}
		m, e := cose.VerifySign1Message[[]byte](recVerifier{v, seen}, data, ext)
		if e != nil {
			return nil, nil, e
		}
		pb, _ := m.Protected.Bytes()
		return m.Payload, pb, nil
	case "KSign":
		v, e := k.Verifier()
		if e != nil {
			return nil, nil, e
		}
		m, e := cose.VerifySignMessage[[]byte](key.Verifiers{recVerifier{v, seen}}, data, ext)
		if e != nil {
			return nil, nil, e
		}
		pb, _ := m.Protected.Bytes()
		return m.Payload, pb, nil
	case "KMac0":
		v, e := k.MACer()
		if e != nil {
			return nil, nil, e
		}
		m, e := cose.VerifyMac0Message[[]byte](recMACer{v, seen}, data, ext)
		if e != nil {
			return nil, nil, e
		}
		pb, _ := m.Protected.Bytes()
		return m.Payload, pb, nil
	case "KMac":
		v, e := k.MACer()
		if e != nil {
			return nil, nil, e
		}
		m, e := cose.VerifyMacMessage[[]byte](recMACer{v, seen}, data, ext)
		if e != nil {
			return nil, nil, e
		}
		pb, _ := m.Protected.Bytes()
		return m.Payload, pb, nil
	case "KEnc0":
		v, e := k.Encryptor()
		if e != nil {
			return nil, nil, e
		}
		m, e := cose.DecryptEncrypt0Message[[]byte](recEncryptor{v, seen}, data, ext)
		if e != nil {
			return nil, nil, e
		}
		pb, _ := m.Protected.Bytes()
		return m.Payload, pb, nil
	default:
		v, e := k.Encryptor()
		if e != nil {
			return nil, nil, e
		}
		m, e := cose.DecryptEncryptMessage[[]byte](recEncryptor{v, seen}, data, ext)
		if e != nil {
			return nil, nil, e
		}
		pb, _ := m.Protected.Bytes()
		return m.Payload, pb, nil
	}
}

// tamperShape: a message whose outer array has another number of members is refused whatever the members are
func tamperShape(c *ctx, kind string, k key.Key, d, ext []byte, line, what string) {
	var cerr error
	var seen [][]byte
	p, pm := catch(func() { _, _, cerr = consumeReal(kind, k, d, ext, &seen) })
	c.eval()
	c.count(fmt.Sprintf("real tamper %s accepted=%v", what, cerr == nil && !p))
	if p {
		c.fail(failure{Op: "real-tamper", What: "panic while consuming a message of another array shape", Input: line + "|" + what + short(fmt.Sprintf("|%x", d)), Observed: pm, Expected: "error", Case: line})
	} else if cerr == nil {
		c.fail(failure{Op: "real-tamper", What: "a message whose outer array has " + what + " is accepted", Input: line + "|" + what + short(fmt.Sprintf("|%x", d)), Observed: "accepted", Expected: "an error (wrong array arity)", Case: line, Theorem: "C08_wrong_arity_refused"})
	}
}

func streamMsgReal(c *ctx) {
	var algs []int
	for _, a := range allAlgs {
		algs = append(algs, a.alg)
	}
	kindsFor := func(alg int) []string {
		switch {
		case alg < 0:
			return []string{"KSign1", "KSign"}
		case (alg >= 4 && alg <= 7) || alg == 14 || alg == 15 || alg == 25 || alg == 26:
			return []string{"KMac0", "KMac"}
		}
		return []string{"KEnc0", "KEnc"}
	}
	contexts := map[string]string{"KSign1": "Signature1", "KSign": "Signature", "KMac0": "MAC0", "KMac": "MAC", "KEnc0": "Encrypt0", "KEnc": "Encrypt"}
	rounds := c.n(2, 12)
	extSweep := 0
	var msgs []realMsg
	for round := 0; round < rounds; round++ {
		for _, alg := range algs {
			for _, kind := range kindsFor(alg) {
				k, err := genKeyFor(alg)
				if err != nil {
					c.fail(failure{Op: "real", What: "GenerateKey failed", Input: fmt.Sprint(alg), Observed: err.Error(), Expected: "a key", Case: fmt.Sprint(alg)})
					continue
				}
				if c.r.bool() {
					k[iana.KeyParameterKid] = c.r.bytes(1 + c.r.intn(6))
				}
				var prot, unprot cose.Headers
				switch c.r.intn(4) {
				case 0:
				case 1:
					prot = cose.Headers{}
				default:
					prot = genHeadersAt(c, 2, c.r.intn(3), false)
					delete(prot, iana.HeaderParameterAlg)
					if c.r.bool() {
						prot[iana.HeaderParameterAlg] = alg
					}
				}
				if c.r.bool() {
					unprot = genHeadersAt(c, 2, c.r.intn(3), false)
					delete(unprot, iana.HeaderParameterIV)
					delete(unprot, iana.HeaderParameterPartialIV)
					delete(unprot, iana.HeaderParameterKid)
					if kid := k.Kid(); len(kid) > 0 && kind == "KSign" {
						// COSE_Sign finds its verifier by the kid of each signature, which the library always writes
					}
				}
				plen := pick(c.r, []int{0, 1, 23, 24, 255, 256, 1000})
				if c.thorough() && c.r.intn(6) == 0 {
					plen = pick(c.r, []int{65535, 65536, 70000})
				}
				if (alg >= 10 && alg <= 13) || (alg >= 30 && alg <= 33) {
					if (alg == 10 || alg == 11 || alg == 30 || alg == 31) && plen > 65535 {
						// CCM-16: the message length field is 2 bytes
						plen = 65535
					}
				}
				if round == 0 && (alg == 10 || alg == 11 || alg == 30 || alg == 31) {
					plen = 65535 - c.r.intn(16) // the largest plaintexts CCM with a 2-byte length field takes
				}
				if round == 1 && (alg == 12 || alg == 13 || alg == 32 || alg == 33 || alg <= 3 || alg == 24) && alg > 0 {
					plen = pick(c.r, []int{65535, 65536, 70000})
				}
				if round == 1 && ((alg >= 4 && alg <= 7) || alg == 14 || alg == 15 || alg == 25 || alg == 26) {
					// MAC structures of several kilobytes (chunked implementations chain across their buffer boundaries)
					plen = pick(c.r, []int{8200, 9000, 12345, 20000})
				}
				payload := c.r.bytes(plen)
				ext, _ := genExt(c)
				if ((alg >= 10 && alg <= 13) || (alg >= 30 && alg <= 33)) && (round == 0 || c.r.intn(4) == 0) {
					// CCM switches to the 6-byte length encoding of the additional data at 0xff00 bytes
					ext = c.r.bytes(pick(c.r, []int{65300, 65262, 65263, 66000}))
				}
				if extSweep%4 == 3 {
					// external data at the ends of the CBOR length classes (23 / 24, 255 / 256, 65535 / 65536), chosen without
					// touching the random stream
					ext = genBytes(uint64(extSweep), []int{23, 24, 255, 256, 65535, 65536}[(extSweep/4)%6])
				}
				extSweep++
				line := short(fmt.Sprintf("real|%s|alg=%d|prot=%s|unprot=%s|payload=%d bytes|ext=%x", kind, alg, describe(prot), describe(unprot), plen, ext))
				var seen [][]byte
				var data []byte
				var perr error
				var recips int
				p, pm := catch(func() {
					switch kind {
					case "KSign1":
						s, e := k.Signer()
						if e != nil {
							perr = e
							return
						}
						m := &cose.Sign1Message[[]byte]{Protected: prot, Unprotected: unprot, Payload: payload}
						data, perr = m.SignAndEncode(recSigner{s, &seen}, ext)
					case "KSign":
						s, e := k.Signer()
						if e != nil {
							perr = e
							return
						}
						m := &cose.SignMessage[[]byte]{Protected: prot, Unprotected: unprot, Payload: payload}
						data, perr = m.SignAndEncode(key.Signers{recSigner{s, &seen}}, ext)
					case "KMac0":
						s, e := k.MACer()
						if e != nil {
							perr = e
							return
						}
						m := &cose.Mac0Message[[]byte]{Protected: prot, Unprotected: unprot, Payload: payload}
						data, perr = m.ComputeAndEncode(recMACer{s, &seen}, ext)
					case "KMac":
						s, e := k.MACer()
						if e != nil {
							perr = e
							return
						}
						m := &cose.MacMessage[[]byte]{Protected: prot, Unprotected: unprot, Payload: payload}
						recips = 1 + c.r.intn(2)
						for j := 0; j < recips; j++ {
							m.AddRecipient(&cose.Recipient{Protected: genHeadersAt(c, 1, c.r.intn(2), false), Unprotected: genHeadersAt(c, 1, c.r.intn(3), false), Ciphertext: c.r.bytes(c.r.intn(24))})
						}
						data, perr = m.ComputeAndEncode(recMACer{s, &seen}, ext)
					case "KEnc0":
						s, e := k.Encryptor()
						if e != nil {
							perr = e
							return
						}
						m := &cose.Encrypt0Message[[]byte]{Protected: prot, Unprotected: unprot, Payload: payload}
						data, perr = m.EncryptAndEncode(recEncryptor{s, &seen}, ext)
					default:
						s, e := k.Encryptor()
						if e != nil {
							perr = e
							return
						}
						m := &cose.EncryptMessage[[]byte]{Protected: prot, Unprotected: unprot, Payload: payload}
						recips = 1 + c.r.intn(2)
						for j := 0; j < recips; j++ {
							m.AddRecipient(&cose.Recipient{Protected: genHeadersAt(c, 1, c.r.intn(2), false), Unprotected: genHeadersAt(c, 1, c.r.intn(3), false), Ciphertext: c.r.bytes(c.r.intn(24))})
						}
						data, perr = m.EncryptAndEncode(recEncryptor{s, &seen}, ext)
					}
				})
				c.eval()
				c.nontriv(fmt.Sprintf("real-produce|%s|%d|%v", kind, alg, perr == nil))
				c.count(fmt.Sprintf("real produce %s alg=%d ok=%v", kind, alg, perr == nil && !p))
				if p || perr != nil {
					c.fail(failure{Op: "real-produce", What: "producing a message with a generated key failed", Input: line, Observed: fmt.Sprintf("panic=%v %s err=%v", p, pm, perr), Expected: "bytes", Case: line})
					continue
				}
				parts, ok := topElems(data)
				if !ok || len(parts) < 3 {
					c.fail(failure{Op: "real-produce", What: "produced message is not a CBOR array", Input: line, Observed: fmt.Sprintf("%x", data), Expected: "tagged array", Case: line})
					continue
				}
				var wireProt []byte
				cbor.Unmarshal(parts[0], &wireProt)
				// C04: what the primitive was given is the RFC structure of the wire bytes
				var want []byte
				switch kind {
				case "KSign1", "KMac0", "KMac":
					want = rfcStructure(contexts[kind], wireProt, nil, ext, payload, false, true)
				case "KSign":
					var sigs [][]cbor.RawMessage
					cbor.Unmarshal(parts[3], &sigs)
					var sp []byte
					if len(sigs) == 1 && len(sigs[0]) == 3 {
						cbor.Unmarshal(sigs[0][0], &sp)
					}
					want = rfcStructure(contexts[kind], wireProt, sp, ext, payload, true, true)
				default:
					want = rfcStructure(contexts[kind], wireProt, nil, ext, nil, false, false)
				}
				if len(seen) != 1 || !bytes.Equal(seen[0], want) {
					c.fail(failure{Op: "real-structure", What: "the bytes handed to the primitive are not the RFC 9052 structure of the wire bytes", Input: line,
						Observed: short(fmt.Sprintf("%x", seen)), Expected: short(fmt.Sprintf("%x", want)), Case: line})
				}
				if len(prot) == 0 && len(wireProt) != 0 && !(prot == nil && k.Alg() != 0) {
					c.fail(failure{Op: "real-structure", What: "an empty protected map is not written as the zero-length string", Input: line, Observed: fmt.Sprintf("%x", wireProt), Expected: "40", Case: line})
				}
				// C01: accepted back in the three tagging forms with identical content
				for fi, form := range [][]byte{data, cose.RemoveCBORTag(data), append([]byte{0xd8, 0x3d}, data...)} {
					var vseen [][]byte
					var got, gotProt []byte
					var cerr error
					p, pm := catch(func() { got, gotProt, cerr = consumeReal(kind, k, form, ext, &vseen) })
					c.eval()
					if p || cerr != nil || !bytes.Equal(got, payload) && !(len(got) == 0 && len(payload) == 0) || !bytes.Equal(gotProt, wireProt) {
						c.fail(failure{Op: "real-roundtrip", What: "a produced message is not accepted back with identical content", Input: line + fmt.Sprintf("|form=%d", fi),
							Observed: short(fmt.Sprintf("panic=%v %s err=%v payload=%x prot=%x", p, pm, cerr, got, gotProt)), Expected: short(fmt.Sprintf("payload=%x prot=%x", payload, wireProt)), Case: line})
						continue
					}
					if len(vseen) != 1 || !bytes.Equal(vseen[0], want) {
						c.fail(failure{Op: "real-structure", What: "verification recomputed a structure other than the RFC 9052 structure of the wire bytes", Input: line,
							Observed: short(fmt.Sprintf("%x", vseen)), Expected: short(fmt.Sprintf("%x", want)), Case: line})
					}
				}
				msgs = append(msgs, realMsg{kind: kind, alg: alg, k: k, data: data, ext: ext, payload: payload, prot: wireProt, line: line})
				// C02 / C03: tampering
				tamper := func(d []byte, e []byte, kk key.Key, what string) {
					var got, gotProt []byte
					var cerr error
					var vseen [][]byte
					p, pm := catch(func() { got, gotProt, cerr = consumeReal(kind, kk, d, e, &vseen) })
					c.eval()
					c.count(fmt.Sprintf("real tamper %s accepted=%v", what, cerr == nil && !p))
					if p {
						c.fail(failure{Op: "real-tamper", What: "panic while consuming a tampered message", Input: line + "|" + what + short(fmt.Sprintf("|%x", d)), Observed: pm, Expected: "error", Case: line})
						return
					}
					if cerr != nil {
						return
					}
					same := (bytes.Equal(got, payload) || len(got) == 0 && len(payload) == 0) && bytes.Equal(gotProt, wireProt)
					extSame := bytes.Equal(e, ext) || len(e) == 0 && len(ext) == 0
					keySame := bytes.Equal(key.MustMarshalCBOR(kk), key.MustMarshalCBOR(k))
					if !same || !extSame || !keySame {
						c.fail(failure{Op: "real-tamper", What: "a tampered or mis-keyed message verified with changed authenticated content", Input: line + "|" + what + short(fmt.Sprintf("|%x", d)),
							Observed: short(fmt.Sprintf("payload=%x prot=%x", got, gotProt)), Expected: "an error, or unchanged payload and protected bytes under the same key and external data", Case: line})
					}
				}
				npos := c.n(24, 200)
				for j := 0; j < npos; j++ {
					d := append([]byte{}, data...)
					pos := c.r.intn(len(d))
					if len(d) > 400 && c.r.bool() {
						// keep most flips near the head and the tail, where the structure and the tag live
						if c.r.bool() {
							pos = c.r.intn(120)
						} else {
							pos = len(d) - 1 - c.r.intn(120)
						}
					}
					d[pos] ^= 1 << uint(c.r.intn(8))
					tamper(d, ext, k, "bitflip")
				}
				if c.thorough() && len(data) < 200 {
					for pos := 0; pos < len(data); pos++ {
						for bit := 0; bit < 8; bit++ {
							d := append([]byte{}, data...)
							d[pos] ^= 1 << uint(bit)
							tamper(d, ext, k, "bitflip-all")
						}
					}
				}
				// every bit of the protected bucket
				if pe, ok := topElems(data); ok && len(pe[0]) <= 64 {
					off := bytes.Index(data, pe[0])
					for pos := off; off >= 0 && pos < off+len(pe[0]); pos++ {
						for bit := 0; bit < 8; bit++ {
							d := append([]byte{}, data...)
							d[pos] ^= 1 << uint(bit)
							tamper(d, ext, k, "protected-bit")
						}
					}
				}
				// the signature / tag / ciphertext member cut to a prefix of itself (length 0, 1, half, all but one)
				if pe, ok := topElems(data); ok {
					idx := 3
					if kind == "KEnc0" || kind == "KEnc" {
						idx = 2
					}
					var auth []byte
					if kind != "KSign" && cbor.Unmarshal(pe[idx], &auth) == nil && len(auth) > 1 {
						for _, keep := range []int{0, 1, len(auth) / 2, len(auth) - 1} {
							sp := append([]cbor.RawMessage{}, pe...)
							sp[idx] = key.MustMarshalCBOR(auth[:keep])
							tamper(joinElems(sp), ext, k, "auth-prefix")
							if idx == 3 {
								// ... together with another payload: nothing authenticates it
								sp[2] = key.MustMarshalCBOR(append([]byte("forged"), payload...))
								tamper(joinElems(sp), ext, k, "auth-prefix+payload")
							}
						}
					}
				}
				// a well-formed array with a member more or less
				if pe, ok := topElems(data); ok {
					for _, extra := range [][]byte{{0xf6}, {0x80}, {0x40}} {
						tamperShape(c, kind, k, joinElems(append(append([]cbor.RawMessage{}, pe...), extra)), ext, line, "one-member-more")
					}
					tamperShape(c, kind, k, joinElems(pe[:len(pe)-1]), ext, line, "one-member-less")
				}
				tamper(data[:len(data)-1], ext, k, "truncate")
				tamper(append(append([]byte{}, data...), 0), ext, k, "extend")
				tamper(data, append(append([]byte{}, ext...), 7), k, "external-data")
				if len(ext) > 0 {
					tamper(data, nil, k, "external-data-dropped")
				}
				if k2, err := genKeyFor(alg); err == nil {
					if kid, ok := k[iana.KeyParameterKid]; ok {
						k2[iana.KeyParameterKid] = kid
					}
					tamper(data, ext, k2, "other-key")
				}
				// the same fields under another message kind: a different context string applies
				for _, other := range kindsFor(alg) {
					if other == kind {
						continue
					}
					var cerr error
					var vseen [][]byte
					p, _ := catch(func() { _, _, cerr = consumeReal(other, k, cose.RemoveCBORTag(data), ext, &vseen) })
					c.eval()
					if !p && cerr == nil {
						c.fail(failure{Op: "real-tamper", What: "a message verified as another message kind", Input: line + "|as " + other, Observed: "accepted", Expected: "an error", Case: line})
					}
				}
			}
		}
	}
	// splices between independently produced messages of the same kind and algorithm (same key for the second one)
	for i := 0; i+1 < len(msgs); i++ {
		a := msgs[i]
		var b *realMsg
		for j := i + 1; j < len(msgs); j++ {
			if msgs[j].kind == a.kind && msgs[j].alg == a.alg {
				b = &msgs[j]
				break
			}
		}
		if b == nil {
			continue
		}
		pa, ok1 := topElems(a.data)
		pb, ok2 := topElems(b.data)
		if !ok1 || !ok2 || len(pa) != len(pb) {
			continue
		}
		for idx := range pa {
			if idx == 1 || bytes.Equal(pa[idx], pb[idx]) {
				continue // the unprotected bucket is not authenticated
			}
			if (a.kind == "KMac" || a.kind == "KEnc") && idx == len(pa)-1 {
				continue // recipients are not authenticated by this library
			}
			sp := append([]cbor.RawMessage{}, pa...)
			sp[idx] = pb[idx]
			d := joinElems(sp)
			var got, gotProt []byte
			var cerr error
			var vseen [][]byte
			p, pm := catch(func() { got, gotProt, cerr = consumeReal(a.kind, a.k, d, a.ext, &vseen) })
			c.eval()
			c.count(fmt.Sprintf("real splice field %d accepted=%v", idx, cerr == nil && !p))
			if p {
				c.fail(failure{Op: "real-tamper", What: "panic while consuming a spliced message", Input: a.line + short(fmt.Sprintf("|%x", d)), Observed: pm, Expected: "error", Case: a.line})
			} else if cerr == nil {
				c.fail(failure{Op: "real-tamper", What: "a message with a field spliced in from another message verified", Input: a.line + fmt.Sprintf("|field %d from %s", idx, b.line),
					Observed: short(fmt.Sprintf("payload=%x prot=%x", got, gotProt)), Expected: "an error", Case: a.line})
			}
		}
	}
}
