package main

import (
	"bytes"
	"encoding/hex"
	"strings"

	"github.com/ldclabs/cose/iana"
	"github.com/ldclabs/cose/key"
)

func init() { streams["text"] = streamText }

// Stream text: the text and JSON forms of ByteStr, CoseMap and Key (hex of the CBOR encoding, quoted for JSON) against
// Model/Text.v. Decoders are called directly (not through encoding/json) on valid, case-variant and malformed texts,
// into fresh and into non-empty receivers.
func streamText(c *ctx) {
	c.beginCases("From Cose Require Import Model.GoVal Model.CborGo Model.CborCorr Model.Text Model.TextCorr.", "text_case", "check_text_case")
	n := c.n(500, 6000)

	mangle := func(valid []byte) ([]byte, string) {
		t := append([]byte{}, valid...)
		switch c.r.intn(18) {
		case 0:
			return t, "valid"
		case 1:
			return []byte(strings.ToUpper(string(t))), "upper"
		case 2: // mixed case
			for i := range t {
				if c.r.bool() && t[i] >= 'a' && t[i] <= 'f' {
					t[i] -= 32
				}
			}
			return t, "mixed"
		case 3: // odd length
			if len(t) > 0 {
				return t[:len(t)-1], "odd"
			}
			return []byte("a"), "odd"
		case 4: // a character just outside the digit ranges
			if len(t) > 0 {
				t[c.r.intn(len(t))] = pick(c.r, []byte{'g', 'G', '/', ':', '@', '`', ' ', '"', 0, 0xff, 'x', '-'})
			}
			return t, "bad-char"
		case 5:
			return append(t, ' '), "trailing-space"
		case 6:
			return append([]byte("0x"), t...), "0x-prefix"
		case 7:
			return []byte{}, "empty"
		case 8:
			return append(t, t...), "doubled"
		case 9:
			return c.r.bytes(c.r.intn(6)), "random"
		case 10:
			return []byte("null"), "null"
		default:
			return t, "valid"
		}
	}
	jsonMangle := func(valid []byte) ([]byte, string) {
		inner, what := mangle(valid)
		switch c.r.intn(16) {
		case 0:
			return inner, what + "/unquoted"
		case 1:
			return append([]byte{'"'}, inner...), what + "/open-only"
		case 2:
			return append(inner, '"'), what + "/close-only"
		case 3:
			return []byte("null"), "null"
		case 4:
			return []byte(`"`), "one-quote"
		case 5:
			return []byte(`""`), "empty-string"
		case 6:
			return append(append([]byte{'\''}, inner...), '\''), what + "/single-quotes"
		case 7:
			return append(append([]byte{' ', '"'}, inner...), '"'), what + "/leading-space"
		default:
			return append(append([]byte{'"'}, inner...), '"'), what + "/quoted"
		}
	}

	for i := 0; i < n; i++ {
		b := c.r.bytes(pick(c.r, []int{0, 1, 2, 3, 8, 16, 32, 33, 64}))
		cur := c.r.bytes(pick(c.r, []int{0, 0, 3, 5}))
		// ByteStr marshal
		{
			t, _ := key.ByteStr(b).MarshalText()
			j, _ := key.ByteStr(b).MarshalJSON()
			c.addCase("TBsMarshal "+qHex(b)+" "+qHex(t)+" "+qHex(j), "bytestr-marshal "+hex.EncodeToString(b))
			c.count("bytestr-marshal")
			if key.ByteStr(b).String() != string(t) || !bytes.Equal(key.HexBytesify(string(t)), b) && len(b) > 0 {
				c.fail(failure{Op: "ByteStr.String/HexBytesify", What: "String differs from MarshalText or HexBytesify does not invert it", Input: hex.EncodeToString(b), Observed: key.ByteStr(b).String(), Expected: string(t)})
			}
		}
		// ByteStr unmarshal text
		{
			in, what := mangle([]byte(hex.EncodeToString(b)))
			v := key.ByteStr(append([]byte{}, cur...))
			err := v.UnmarshalText(in)
			c.addCase("TBsText "+qHex(cur)+" "+qHex(in)+" "+qB(err == nil)+" "+qHex(v), "bytestr-text "+what+" "+hex.EncodeToString(in))
			c.count("bytestr-text/" + what)
			c.nontriv("bytestr-text/" + what + "/" + qB(err == nil))
		}
		// ByteStr unmarshal JSON
		{
			in, what := jsonMangle([]byte(hex.EncodeToString(b)))
			v := key.ByteStr(append([]byte{}, cur...))
			err := v.UnmarshalJSON(in)
			c.addCase("TBsJson "+qHex(cur)+" "+qHex(in)+" "+qB(err == nil)+" "+qHex(v), "bytestr-json "+what+" "+hex.EncodeToString(in))
			c.count("bytestr-json/" + what)
			c.nontriv("bytestr-json/" + what + "/" + qB(err == nil))
		}
		if i%3 != 0 {
			continue
		}
		// maps and keys
		m := textMap(c)
		cb, errC := m.MarshalCBOR()
		t, errT := m.MarshalText()
		j, errJ := m.MarshalJSON()
		kt, _ := key.Key(m).MarshalText()
		kj, _ := key.Key(m).MarshalJSON()
		if (errC == nil) != (errT == nil) || (errC == nil) != (errJ == nil) || !bytes.Equal(kt, t) || !bytes.Equal(kj, j) {
			c.fail(failure{Op: "CoseMap/Key Marshal{CBOR,Text,JSON}", What: "the three forms do not fail together or Key differs from CoseMap", Input: describe(m), Observed: string(t) + " / " + string(kt), Expected: "agreement"})
		}
		c.addCase("TMapMarshal "+qMap(m)+" "+qB(errC == nil)+" "+qHex(t)+" "+qHex(j), "map-marshal "+hex.EncodeToString(cb))
		c.count("map-marshal/" + qB(errC == nil))
		src := cb
		if errC != nil || c.r.intn(4) == 0 {
			src = genItem(c, 2, c.r.bool()).enc(nil)
		}
		{
			in, what := mangle([]byte(hex.EncodeToString(src)))
			var dst key.CoseMap
			if c.r.bool() {
				dst = key.CoseMap{99: "stale", iana.KeyParameterKid: []byte("old")}
			}
			err := dst.UnmarshalText(in)
			var kd key.Key
			errK := kd.UnmarshalText(in)
			if (err == nil) != (errK == nil) || err == nil && qMap(dst) != qMap(kd) {
				c.fail(failure{Op: "Key.UnmarshalText", What: "Key and CoseMap disagree", Input: string(in), Observed: describe(kd), Expected: describe(dst)})
			}
			out := "[]"
			if err == nil {
				out = qMap(dst)
			}
			c.addCase("TMapOfText "+qHex(in)+" "+qB(err == nil)+" "+out, "map-text "+what+" "+hex.EncodeToString(in))
			c.count("map-text/" + what)
			c.nontriv("map-text/" + what + "/" + qB(err == nil))
		}
		{
			in, what := jsonMangle([]byte(hex.EncodeToString(src)))
			var dst key.CoseMap
			if c.r.bool() {
				dst = key.CoseMap{99: "stale", iana.KeyParameterKid: []byte("old")}
			}
			err := dst.UnmarshalJSON(in)
			var kd key.Key
			errK := kd.UnmarshalJSON(in)
			if (err == nil) != (errK == nil) || err == nil && qMap(dst) != qMap(kd) {
				c.fail(failure{Op: "Key.UnmarshalJSON", What: "Key and CoseMap disagree", Input: string(in), Observed: describe(kd), Expected: describe(dst)})
			}
			out := "[]"
			if err == nil {
				out = qMap(dst)
			}
			c.addCase("TMapOfJson "+qHex(in)+" "+qB(err == nil)+" "+out, "map-json "+what+" "+hex.EncodeToString(in))
			c.count("map-json/" + what)
			c.nontriv("map-json/" + what + "/" + qB(err == nil))
		}
	}
}

// textMap: key-shaped and header-shaped maps, occasionally with a label the encoder refuses.
func textMap(c *ctx) key.CoseMap {
	m := key.CoseMap{}
	for i, n := 0, c.r.intn(6); i < n; i++ {
		var l any
		z := pick(c.r, []int{1, 2, 3, 4, 5, -1, -2, -3, -4, 23, 24, 255, 256, -24, -25, 65536, -65537, 1 << 31, -(1 << 31) - 1})
		switch c.r.intn(8) {
		case 0:
			l = int64(z)
		case 1:
			if z >= 0 {
				l = uint64(z)
			} else {
				l = int64(z)
			}
		case 2:
			l = pick(c.r, []string{"a", "label", "", "é"})
		case 3:
			l = int32(int16(z))
		default:
			l = z
		}
		var v any
		switch c.r.intn(9) {
		case 0:
			v = c.r.intn(1000) - 500
		case 1:
			v = int64(c.r.next())
		case 2:
			v = c.r.next()
		case 3:
			v = c.r.bytes(c.r.intn(40))
		case 4:
			v = pick(c.r, []string{"", "text", "éè"})
		case 5:
			v = c.r.bool()
		case 6:
			v = nil
		case 7:
			v = []any{c.r.intn(10), int64(c.r.intn(10)), c.r.bytes(2)}
		default:
			v = key.Ops{iana.KeyOperationSign, iana.KeyOperationVerify}
		}
		m[l] = v
	}
	return m
}
