package main

import (
	"fmt"
	"github.com/ldclabs/cose/key"
	"math"
	"math/big"
	"time"

	"github.com/ldclabs/cose/cwt"
)

func init() { streams["cwt"] = streamCwt }

const kYear1 = 62135596800

type cwtOpts struct {
	iss, aud      string
	allow, past   bool
	skew          int64
	nowSec, nowNs int64
}

func (o cwtOpts) coq() string {
	return fmt.Sprintf("{| o_iss := %s; o_aud := %s; o_allow_missing := %s; o_iat_past := %s; o_skew := %s |}",
		qStr(o.iss), qStr(o.aud), qB(o.allow), qB(o.past), qZ(o.skew))
}
func (o cwtOpts) now() string { return fmt.Sprintf("(%s, %s)", qZ(o.nowSec+kYear1), qZ(o.nowNs)) }

// independent statement of the property in exact integers (oracle for the search)
func specTime(o cwtOpts, exp, nbf, iat *big.Int, expPresent, nbfPresent, iatPresent bool) bool {
	g := big.NewInt(1000000000)
	now := new(big.Int).Add(new(big.Int).Mul(big.NewInt(o.nowSec), g), big.NewInt(o.nowNs))
	skew := big.NewInt(o.skew)
	bmax := big.NewInt(math.MaxInt64 - kYear1)
	lo := new(big.Int).Sub(now, skew)
	hi := new(big.Int).Add(now, skew)
	if !expPresent {
		if !o.allow {
			return false
		}
	} else {
		if exp.Sign() < 0 || exp.Cmp(bmax) > 0 || new(big.Int).Mul(exp, g).Cmp(lo) <= 0 {
			return false
		}
	}
	if nbfPresent {
		if nbf.Sign() < 0 || nbf.Cmp(bmax) > 0 || new(big.Int).Mul(nbf, g).Cmp(hi) > 0 {
			return false
		}
	}
	if iatPresent && o.past && iat.Sign() != 0 {
		if iat.Sign() < 0 || iat.Cmp(bmax) > 0 || new(big.Int).Mul(iat, g).Cmp(hi) > 0 {
			return false
		}
	}
	return true
}

func streamCwt(c *ctx) {
	c.beginCases("From Cose Require Import Model.GoVal Spec.RFC8392 Model.Cwt Model.CwtCorr.", "cwt_case", "check_cwt_case")
	nowSecs := []int64{1700000000, 1, 4102444800, 1 << 33}
	nowNss := []int64{0, 1, 500000000, 999999999}
	skews := []int64{0, 1, -1, 999999999, 5e9, 600e9, -600e9, 3600e9 * -1, math.MinInt64, math.MinInt64 + 1, -1000000001, 1500000000}
	strs := []string{"", "iss", "aud", "x", "issuer-long-name"}
	n := c.n(2500, 40000)
	for i := 0; i < n; i++ {
		o := cwtOpts{iss: pick(c.r, strs), aud: pick(c.r, strs), allow: c.r.bool(), past: c.r.bool(), skew: pick(c.r, skews),
			nowSec: pick(c.r, nowSecs), nowNs: pick(c.r, nowNss)}
		if c.r.intn(4) == 0 {
			o.iss, o.aud = "", ""
		}
		// boundary lattice relative to now and skew
		base := []uint64{0, 1, 2, 1 << 31, 1<<31 - 1, 1 << 32, 1<<32 + 1, 1 << 62, math.MaxInt64 - kYear1 - 1, math.MaxInt64 - kYear1, math.MaxInt64 - kYear1 + 1,
			9223371974719179008, math.MaxInt64 - 1, math.MaxInt64, 1 << 63, math.MaxUint64 - 1, math.MaxUint64}
		sk := o.skew / 1e9
		for _, d := range []int64{-2, -1, 0, 1, 2} {
			for _, b := range []int64{o.nowSec, o.nowSec - sk, o.nowSec + sk, o.nowSec - sk - 1, o.nowSec + sk + 1} {
				if v := b + d; v >= 0 {
					base = append(base, uint64(v))
				}
			}
		}
		exp, nbf, iat := pick(c.r, base), pick(c.r, base), pick(c.r, base)
		if c.r.intn(5) == 0 {
			exp = 0
		}
		if c.r.intn(3) == 0 {
			nbf = 0
		}
		if c.r.intn(3) == 0 {
			iat = 0
		}
		v, err := cwt.NewValidator(&cwt.ValidatorOpts{ExpectedIssuer: o.iss, ExpectedAudience: o.aud, AllowMissingExpiration: o.allow,
			ExpectIssuedInThePast: o.past, ClockSkew: time.Duration(o.skew), FixedNow: time.Unix(o.nowSec, o.nowNs)})
		if err != nil {
			c.addCase(fmt.Sprintf("CNew %s false", qZ(o.skew)), fmt.Sprintf("cwt-new|skew=%d => err", o.skew))
			c.nontriv("new-err")
			continue
		}
		ciss, caud := pick(c.r, strs), pick(c.r, strs)
		if c.r.bool() {
			ciss, caud = o.iss, o.aud
		}
		if c.r.intn(2) == 0 {
			// struct path
			cl := &cwt.Claims{Issuer: ciss, Audience: caud, Expiration: exp, NotBefore: nbf, IssuedAt: iat}
			var got error
			p, msg := catch(func() { got = v.Validate(cl) })
			line := fmt.Sprintf("cwt-struct|seed=%d|i=%d|iss=%q|aud=%q|allow=%v|past=%v|skew=%d|now=%d.%09d|ciss=%q|caud=%q|exp=%d|nbf=%d|iat=%d => %v",
				c.seed, i, o.iss, o.aud, o.allow, o.past, o.skew, o.nowSec, o.nowNs, ciss, caud, exp, nbf, iat, got == nil)
			if p {
				c.fail(failure{Op: "cwt.Validate", What: "panic", Input: line, Observed: "panic: " + msg, Expected: "error or nil", Case: line, Theorem: "C18_validate_is_rfc8392"})
				continue
			}
			c.addCase(fmt.Sprintf("CStruct %s %s {| c_iss := %s; c_aud := %s; c_exp := %s; c_nbf := %s; c_iat := %s |} %s",
				o.coq(), o.now(), qStr(ciss), qStr(caud), qU(exp), qU(nbf), qU(iat), qB(got == nil)), line)
			want := specTime(o, new(big.Int).SetUint64(exp), new(big.Int).SetUint64(nbf), new(big.Int).SetUint64(iat), exp != 0, nbf != 0, iat != 0) &&
				(o.iss == "" || o.iss == ciss) && (o.aud == "" || o.aud == caud)
			if want != (got == nil) {
				c.fail(failure{Op: "cwt.Validate", What: "decision differs from RFC 8392", Input: line, Observed: fmt.Sprint(got), Expected: fmt.Sprintf("accept=%v", want), Case: line, Theorem: "C18_validate_is_rfc8392"})
			}
			c.count(fmt.Sprintf("struct accept=%v", got == nil))
			c.nontriv(fmt.Sprintf("struct|%v|%v|%v|%v|%v|%d|%d|%d", got == nil, o.allow, o.past, o.iss == ciss, o.aud == caud, classU(exp, o), classU(nbf, o), classU(iat, o)))
			if i < 3 {
				c.sample(line)
			}
			continue
		}
		// map path: Go integer kinds, negatives, floats, text, null, absent
		m := cwt.ClaimsMap{}
		var bexp, bnbf, biat *big.Int
		pe, pn, pi := false, false, false
		typeErr := false
		put := func(label int, u uint64) (*big.Int, bool) {
			switch c.r.intn(14) {
			case 12, 13:
				// a CBOR bignum (tag 2) as the generic decoder yields it: the value whose low 64 bits are u. A time claim
				// is a uint64; anything above is not one and must not be read modulo 2^64
				b := new(big.Int).Add(new(big.Int).Lsh(big.NewInt(int64(1+c.r.intn(3))), 64), new(big.Int).SetUint64(u))
				if c.r.bool() {
					m[label] = *b
				} else {
					m[label] = b
				}
				typeErr = true
				return nil, true
			case 0:
				return nil, false // absent
			case 1:
				m[label] = u
				return new(big.Int).SetUint64(u), true
			case 2:
				if u <= math.MaxInt64 {
					m[label] = int64(u)
				} else {
					m[label] = u
				}
				return new(big.Int).SetUint64(u), true
			case 3:
				x := -int64(c.r.intn(3)) - 1
				if c.r.bool() {
					m[label] = x
				} else {
					m[label] = int(x)
				}
				typeErr = true
				return big.NewInt(x), true
			case 4:
				m[label] = pick(c.r, []any{float64(u), math.NaN(), math.Inf(1), math.Inf(-1), float32(u), float64(u) + 0.5})
				typeErr = true
				return nil, true
			case 5:
				m[label] = fmt.Sprint(u)
				typeErr = true
				return nil, true
			case 6:
				m[label] = nil
				typeErr = true
				return nil, true
			case 7:
				if u <= math.MaxInt32 {
					m[label] = int32(u)
				} else {
					m[label] = u
				}
				return new(big.Int).SetUint64(u), true
			case 8:
				if u <= math.MaxUint32 {
					m[label] = uint32(u)
				} else if u <= math.MaxInt64 {
					m[label] = int(u)
				} else {
					m[label] = u
				}
				return new(big.Int).SetUint64(u), true
			case 9:
				x := int8(-1 - c.r.intn(100))
				m[label] = x
				typeErr = true
				return big.NewInt(int64(x)), true
			default:
				m[label] = u
				return new(big.Int).SetUint64(u), true
			}
		}
		bexp, pe = put(4, exp)
		bnbf, pn = put(5, nbf)
		biat, pi = put(6, iat)
		issBad, audBad := false, false
		switch c.r.intn(6) {
		case 0:
		case 1:
			m[1] = []byte(ciss)
			issBad = true
		case 2:
			m[1] = 7
			issBad = true
		default:
			m[1] = ciss
		}
		switch c.r.intn(6) {
		case 0:
		case 1:
			m[3] = nil
			audBad = true
		default:
			m[3] = caud
		}
		// the same claim set as it arrives from a peer who also put text-keyed members named like the registered claims
		// ("exp", "nbf", "iat", "iss", "aud", ...) next to the integer labels: decoded with ClaimsMap.UnmarshalCBOR, the
		// decision is that of the integer-labelled claims alone
		if i%3 == 0 {
			wire := cwt.ClaimsMap{}
			for a, b := range m {
				wire[a] = b
			}
			far := uint64(o.nowSec + 1000000)
			for _, tk := range []struct {
				k string
				v any
			}{{"exp", far}, {"nbf", uint64(1)}, {"iat", uint64(1)}, {"iss", o.iss}, {"aud", o.aud}, {"sub", "s"}, {"cti", []byte{1}}} {
				if c.r.bool() {
					wire[tk.k] = tk.v
				}
			}
			if b, err := key.MarshalCBOR(wire); err == nil {
				var dm cwt.ClaimsMap
				if derr := dm.UnmarshalCBOR(b); derr == nil {
					var g1, g2 error
					catch(func() { g1 = v.ValidateMap(dm) })
					// reference: the integer-labelled members only, decoded the same way
					only := cwt.ClaimsMap{}
					for a, bb := range m {
						only[a] = bb
					}
					if ob, err := key.MarshalCBOR(only); err == nil {
						var om cwt.ClaimsMap
						if om.UnmarshalCBOR(ob) == nil {
							catch(func() { g2 = v.ValidateMap(om) })
							c.eval()
							c.nontriv(fmt.Sprintf("cwt-text-keys|%v", g1 == nil))
							if (g1 == nil) != (g2 == nil) {
								c.fail(failure{Op: "cwt.ValidateMap", What: "text-keyed members named like registered claims change the decision", Input: short(fmt.Sprintf("cwt-map-text-keys|claims=%x|now=%d|allow=%v|past=%v|skew=%d", b, o.nowSec, o.allow, o.past, o.skew)),
									Observed: fmt.Sprintf("accept=%v", g1 == nil), Expected: fmt.Sprintf("accept=%v (the decision for %x)", g2 == nil, ob), Case: "cwt-map-text-keys", Theorem: "C18_validate_map_is_rfc8392"})
							}
						}
					}
				}
			}
		}
		var got error
		p, msg := catch(func() { got = v.ValidateMap(m) })
		line := fmt.Sprintf("cwt-map|seed=%d|i=%d|iss=%q|aud=%q|allow=%v|past=%v|skew=%d|now=%d.%09d|map=%s => %v",
			c.seed, i, o.iss, o.aud, o.allow, o.past, o.skew, o.nowSec, o.nowNs, describe(map[any]any(m)), got == nil)
		if p {
			c.fail(failure{Op: "cwt.ValidateMap", What: "panic", Input: line, Observed: "panic: " + msg, Expected: "error or nil", Case: line, Theorem: "C18_validate_map_is_rfc8392"})
			continue
		}
		c.addCase(fmt.Sprintf("CMap %s %s %s %s", o.coq(), o.now(), qMap(m), qB(got == nil)), line)
		// oracle
		want := true
		if typeErr || issBad || audBad {
			want = false
			// a type error in a claim that is never reached because an earlier stage already failed is still a rejection
		} else {
			z := big.NewInt(0)
			e, nb, ia := z, z, z
			if pe {
				e = bexp
			}
			if pn {
				nb = bnbf
			}
			if pi {
				ia = biat
			}
			want = specTime(o, e, nb, ia, pe, pn, pi)
			mi, hasI := m[1].(string)
			ma, hasA := m[3].(string)
			if o.iss != "" && (!hasI || mi != o.iss) {
				want = false
			}
			if o.aud != "" && (!hasA || ma != o.aud) {
				want = false
			}
		}
		if want != (got == nil) {
			c.fail(failure{Op: "cwt.ValidateMap", What: "decision differs from RFC 8392", Input: line, Observed: fmt.Sprint(got), Expected: fmt.Sprintf("accept=%v", want), Case: line, Theorem: "C18_validate_map_is_rfc8392"})
		}
		c.count(fmt.Sprintf("map accept=%v", got == nil))
		c.nontriv(fmt.Sprintf("map|%v|%v|%v|%v|%v|%v", got == nil, typeErr, pe, pn, pi, issBad || audBad))
		if i < 6 {
			c.sample(line)
		}
	}
	// NewValidator boundary: 10 minutes +/- a few ns, extremes
	for _, s := range []int64{600e9 - 2, 600e9 - 1, 600e9, 600e9 + 1, 600e9 + 2, 601e9, 660e9 - 1, 660e9, math.MaxInt64, math.MinInt64, -600e9 - 1, 0, -1, 59999999999, 60000000000} {
		_, err := cwt.NewValidator(&cwt.ValidatorOpts{ClockSkew: time.Duration(s)})
		line := fmt.Sprintf("cwt-new|skew=%d => %v", s, err == nil)
		c.addCase(fmt.Sprintf("CNew %s %s", qZ(s), qB(err == nil)), line)
		if (s > 600e9) != (err != nil) {
			c.fail(failure{Op: "cwt.NewValidator", What: "clock skew cap", Input: line, Observed: fmt.Sprint(err), Expected: "error iff skew > 10 minutes", Case: line, Theorem: "C18_skew_cap"})
		}
		c.nontriv(fmt.Sprintf("new|%v", err == nil))
	}
	// directed: each time claim of the map form holding a value that is not a non-negative integer, in every Go form such a
	// value can take, the other claims valid and the options such that the claim matters: refused, whatever the value
	// would be read as modulo 2^64 or rounded to
	{
		type namedSec int64
		type namedSmall int16
		now := int64(1700000000)
		for oi, skew := range []time.Duration{0, time.Minute, 0, time.Minute} {
			// (with and without ExpectIssuedInThePast: an iat that is present is a NumericDate either way)
			dv, err := cwt.NewValidator(&cwt.ValidatorOpts{FixedNow: time.Unix(now, 0), ClockSkew: skew, ExpectIssuedInThePast: oi < 2, AllowMissingExpiration: oi%2 == 0})
			if err != nil {
				continue
			}
			lim := float64(now + int64(skew/time.Second))
			vals := []any{int8(-1), int8(-128), int16(-300), int32(-70000), int64(-1), int(-1), namedSec(-5), namedSmall(-2), float64(now) + 0.5, float32(16777216), lim + 0.5, lim + 0.25, lim - 0.75,
				float64(now - 1000), math.NaN(), math.Inf(1), -0.5, "1700000000", nil, true, []byte{1}, []any{uint64(now)}, map[any]any{}}
			for _, label := range []int{4, 5, 6} {
				for _, val := range vals {
					dm := cwt.ClaimsMap{4: uint64(now + 1000), 5: uint64(now - 1000), 6: uint64(now - 1000)}
					dm[label] = val
					var got error
					p, pm := catch(func() { got = dv.ValidateMap(dm) })
					c.eval()
					c.nontriv(fmt.Sprintf("cwt-directed|%d|%T", label, val))
					if p || got == nil {
						c.fail(failure{Op: "cwt.ValidateMap", What: "a time claim that is not a non-negative integer is accepted", Input: fmt.Sprintf("cwt-map-directed|claim %d = %T(%v)|now=%d|skew=%v|ExpectIssuedInThePast=%v|others valid", label, val, val, now, skew, oi < 2),
							Observed: fmt.Sprintf("panic=%v %s accepted", p, pm), Expected: "an error (invalid claim)", Case: "cwt-map-directed", Theorem: "C18_validate_map_is_rfc8392"})
					}
				}
			}
		}
	}

}

func classU(u uint64, o cwtOpts) int {
	switch {
	case u == 0:
		return 0
	case u > math.MaxInt64-kYear1:
		return 3
	case int64(u) > o.nowSec:
		return 2
	default:
		return 1
	}
}
