package main

import (
	"fmt"

	"github.com/ldclabs/cose/iana"
	"github.com/ldclabs/cose/key"
)

func init() { streams["keyset"] = streamKeySet }

// Stream keyset: key.KeySet in CBOR against Model/KeySet.v: sets of 0..4 keys (nil set, nil keys, key-shaped and
// header-shaped maps) encoded; produced, mutated and hand-made arrays decoded into fresh and non-empty destinations.
func streamKeySet(c *ctx) {
	c.beginCases("From Cose Require Import Model.GoVal Model.CborGo Model.KeySet Model.KeySetCorr.", "keyset_case", "check_keyset_case")
	qSet := func(ks key.KeySet) string {
		if ks == nil {
			return "None"
		}
		var xs []string
		for _, k := range ks {
			if k == nil {
				xs = append(xs, "None")
			} else {
				xs = append(xs, "(Some "+qMap(k)+")")
			}
		}
		return "(Some " + qList(xs) + ")"
	}
	dec := func(d []byte, tag string) {
		var ks key.KeySet
		if c.r.bool() {
			ks = key.KeySet{key.Key{99: "stale", iana.KeyParameterKid: []byte("old")}, key.Key{98: 1}, key.Key{97: 2}}
		}
		var err error
		p, pm := catch(func() { err = key.UnmarshalCBOR(d, &ks) })
		line := short(fmt.Sprintf("keyset-dec|%s|%x", tag, d))
		if p {
			c.fail(failure{Op: "keyset", What: "panic while decoding a key set", Input: line, Observed: "panic: " + pm, Expected: "value or error", Case: line})
			return
		}
		out := "None"
		if err == nil && ks != nil {
			var xs []string
			for _, k := range ks {
				xs = append(xs, qMap(k))
			}
			out = "(Some " + qList(xs) + ")"
		}
		c.addCase(fmt.Sprintf("KsDec %s %s %s", qHex(d), qB(err == nil), out), line+fmt.Sprintf(" => ok=%v", err == nil))
		c.nontriv(fmt.Sprintf("keyset-dec|%s|%v", tag, err == nil))
		c.count(fmt.Sprintf("keyset-dec %s ok=%v", tag, err == nil))
	}
	n := c.n(150, 2500)
	for i := 0; i < n; i++ {
		var ks key.KeySet
		switch c.r.intn(8) {
		case 0:
			ks = nil
		case 1:
			ks = key.KeySet{}
		default:
			for j, m := 0, 1+c.r.intn(4); j < m; j++ {
				switch c.r.intn(8) {
				case 0:
					ks = append(ks, nil)
				case 1:
					ks = append(ks, key.Key{})
				case 2:
					ks = append(ks, key.Key(genHeaders(c, 2, c.r.intn(4))))
				default:
					ks = append(ks, key.Key(textMap(c)))
				}
			}
		}
		b, err := key.MarshalCBOR(ks)
		c.addCase(fmt.Sprintf("KsEnc %s %s %s", qSet(ks), qB(err == nil), qHex(b)), short(fmt.Sprintf("keyset-enc|%v => %x", ks, b)))
		c.count(fmt.Sprintf("keyset-enc ok=%v", err == nil))
		if err != nil {
			continue
		}
		dec(b, "produced")
		m, tag := mutate(c, b)
		dec(m, tag)
		if i%4 == 0 {
			dec(append([]byte{0xd9, 0xd9, 0xf7}, b...), "self-described")
			dec(append([]byte{0xc1}, b...), "tag-1")
			dec(append([]byte{0xd8, 0x63}, b...), "tag-99")
		}
	}
	for _, h := range []string{"80", "f6", "f7", "a0", "81a0", "81a10104", "82a10104a10102", "81f6", "82a10104f6", "8101", "81d9d9f7a10104", "d9d9f781a10104", "c181a10104", "81c1a10104",
		"81a201040105", "8181a10104", "9fa10104ff", "81a1410001", "81a1f501", "81a11a8000000001", "40", "8140", "81a101a10101", "82a10104a10104", "8180", "81f7", "81d9d9f7f6", "81d863a10104", "81a1616101"} {
		dec(key.HexBytesify(h), "special")
	}
}
