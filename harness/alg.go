package main

import (
	"fmt"

	"github.com/ldclabs/cose/cose"
	"github.com/ldclabs/cose/iana"
	"github.com/ldclabs/cose/key"
)

func init() { streams["alg"] = streamAlg }

// the 24 registered algorithms with their key type (and curve), plus "no algorithm"
type algKey struct {
	alg, kty, crv int
}

var allAlgs = []algKey{{-7, 2, 1}, {-35, 2, 2}, {-36, 2, 3}, {-8, 1, 6}, {4, 4, 0}, {5, 4, 0}, {6, 4, 0}, {7, 4, 0}, {14, 4, 0}, {15, 4, 0}, {25, 4, 0}, {26, 4, 0},
	{1, 4, 0}, {2, 4, 0}, {3, 4, 0}, {10, 4, 0}, {11, 4, 0}, {12, 4, 0}, {13, 4, 0}, {30, 4, 0}, {31, 4, 0}, {32, 4, 0}, {33, 4, 0}, {24, 4, 0}}

func keyFor(a algKey, kid []byte, withAlg bool) key.Key {
	k := key.Key{iana.KeyParameterKty: a.kty}
	if withAlg {
		k[iana.KeyParameterAlg] = a.alg
	}
	if a.crv != 0 {
		k[iana.EC2KeyParameterCrv] = a.crv
	}
	if kid != nil {
		k[iana.KeyParameterKid] = kid
	}
	return k
}

// header algorithm value in a chosen Go representation
func algValue(c *ctx, a int, rep int) (any, bool) {
	switch rep {
	case 0:
		return a, true
	case 1:
		return int64(a), true
	case 2:
		if a >= 0 {
			return uint64(a), true
		}
		return int64(a), true
	case 3:
		return key.Alg(a), true
	case 4:
		return int32(a), true
	case 5:
		return fmt.Sprint(a), false // text
	case 6:
		return nil, false // null
	case 7:
		return float64(a), false
	case 8:
		return []byte{byte(a)}, false
	case 12:
		// the reserved value 0, present: an algorithm identifier like any other, and not the key's
		return pick(c.r, []any{0, int64(0), uint64(0), key.Alg(0), int8(0)}), true
	case 11:
		// the unsigned 64-bit twin: 2^64 + a for a negative identifier (what a conversion through int64 would wrap onto a),
		// a + 2^63 otherwise. Not the identifier.
		if a < 0 {
			return ^uint64(0) - uint64(-a) + 1, true
		}
		return uint64(a) + (1 << 63), true
	case 9:
		return int64(a) + (1 << 32), true // out of the int32 range: reads as 0
	default:
		return true, false
	}
}

func streamAlg(c *ctx) {
	c.beginCases("From Cose Require Import Model.GoVal Model.Key Model.MsgLogic Model.MsgCorr.", "alg_case", "check_alg_case")
	kinds := []string{"Sign1", "Mac0", "Mac", "Encrypt0", "Encrypt"}
	payload := []byte("payload")
	n := c.n(1600, 30000)
	exhaustive := c.thorough()
	idx := 0
	emit := func(kind string, ha, ka algKey, rep int, headerPresent, keyHasAlg, unprotNil bool) {
		idx++
		kid := []byte(nil)
		if c.r.bool() {
			kid = c.r.bytes(3)
		}
		k := keyFor(ka, kid, keyHasAlg)
		var prot cose.Headers
		protTerm := "None"
		isInt := true
		if headerPresent {
			v, ok := algValue(c, ha.alg, rep)
			isInt = ok
			prot = cose.Headers{iana.HeaderParameterAlg: v}
			if c.r.intn(3) == 0 {
				// the same header filled through the exported Set helper, the label held in another Go integer type (as
				// labels copied from a decoded map are)
				viaSet := cose.Headers{}
				lbl := pick(c.r, []any{int(1), int64(1), uint64(1), uint(1), int32(1), int8(1), uint16(1)})
				if viaSet.Set(lbl, v) == nil {
					prot = viaSet
				}
			}
			if c.r.intn(4) == 0 {
				prot[iana.HeaderParameterContentType] = 60
			}
			protTerm = "(Some " + qMap(prot) + ")"
		} else if c.r.intn(3) == 0 {
			prot = cose.Headers{}
			if c.r.bool() {
				prot["x"] = 1
			}
			protTerm = "(Some " + qMap(prot) + ")"
			headerPresent = false
		}
		var unprot cose.Headers
		unprotTerm := "None"
		if !unprotNil {
			unprot = cose.Headers{"u": 1}
			if c.r.intn(3) == 0 {
				// an algorithm in the unauthenticated bucket (the key's own, or the header's) must decide nothing
				ua := ka.alg
				if c.r.intn(3) == 0 {
					ua = ha.alg
				}
				v, _ := algValue(c, ua, c.r.intn(5))
				unprot[iana.HeaderParameterAlg] = v
			}
			unprotTerm = "(Some " + qMap(unprot) + ")"
		}
		// COSE_Mac / COSE_Encrypt: the recipient added before producing often names the very key (same kid)
		recipUnprot := cose.Headers{}
		if kid != nil && c.r.bool() {
			recipUnprot[iana.HeaderParameterKid] = append([]byte{}, kid...)
		}
		// ---- produce
		var err error
		var afterP, afterU cose.Headers
		var data []byte
		panicked, pmsg := catch(func() {
			switch kind {
			case "Sign1":
				m := &cose.Sign1Message[[]byte]{Protected: prot, Unprotected: unprot, Payload: payload}
				data, err = m.SignAndEncode(fakeSigner{k: k}, nil)
				afterP, afterU = m.Protected, m.Unprotected
			case "Mac0":
				m := &cose.Mac0Message[[]byte]{Protected: prot, Unprotected: unprot, Payload: payload}
				data, err = m.ComputeAndEncode(fakeMACer{k: k}, nil)
				afterP, afterU = m.Protected, m.Unprotected
			case "Mac":
				m := &cose.MacMessage[[]byte]{Protected: prot, Unprotected: unprot, Payload: payload}
				m.AddRecipient(&cose.Recipient{Protected: cose.Headers{}, Unprotected: recipUnprot})
				data, err = m.ComputeAndEncode(fakeMACer{k: k}, nil)
				afterP, afterU = m.Protected, m.Unprotected
			case "Encrypt0":
				m := &cose.Encrypt0Message[[]byte]{Protected: prot, Unprotected: unprot, Payload: payload}
				data, err = m.EncryptAndEncode(fakeEncryptor{k: k, nsize: 12}, nil)
				afterP, afterU = m.Protected, m.Unprotected
			case "Encrypt":
				m := &cose.EncryptMessage[[]byte]{Protected: prot, Unprotected: unprot, Payload: payload}
				m.AddRecipient(&cose.Recipient{Protected: cose.Headers{}, Unprotected: recipUnprot})
				data, err = m.EncryptAndEncode(fakeEncryptor{k: k, nsize: 12}, nil)
				afterP, afterU = m.Protected, m.Unprotected
			}
		})
		if panicked {
			c.fail(failure{Op: "alg-binding", What: kind + " produce panics", Input: fmt.Sprintf("kind=%s header=%s key=%s", kind, describe(map[any]any(prot)), describe(map[any]any(k))),
				Observed: "panic: " + pmsg, Expected: "error or message", Theorem: "C05_non_integer_alg_refused"})
			return
		}
		isEnc := kind == "Encrypt0" || kind == "Encrypt"
		line := fmt.Sprintf("alg-produce|kind=%s|header=%s|key=%s|unprot_nil=%v => ok=%v", kind, describe(map[any]any(prot)), describe(map[any]any(k)), unprotNil, err == nil)
		afterUT := qMap(afterU)
		if isEnc && err == nil {
			// the random IV the library adds is the business of C06; compare the rest
			au := cose.Headers{}
			for a, b := range afterU {
				if a != iana.HeaderParameterIV {
					au[a] = b
				}
			}
			afterUT = qMap(au)
		}
		c.addCase(fmt.Sprintf("AProduce %s %s %s %s %s %s", protTerm, unprotTerm, qMap(k), qB(err == nil), qMap(afterP), afterUT), line)
		kalg := 0
		if keyHasAlg {
			kalg = ka.alg
		} else if ka.crv != 0 {
			kalg = map[int]int{1: -7, 2: -35, 3: -36, 6: -8}[ka.crv]
		}
		// oracle: refused iff a header algorithm is present and is not (an integer equal to) the key's algorithm
		if headerPresent && kalg != 0 {
			want := isInt && rep != 9 && rep != 11 && rep != 12 && ha.alg == kalg
			if want != (err == nil) {
				c.fail(failure{Op: "alg-binding", What: kind + " produce: protected alg vs key alg", Input: line, Observed: fmt.Sprintf("ok=%v", err == nil), Expected: fmt.Sprintf("ok=%v", want), Case: line, Theorem: "C05_alg_mismatch_refused"})
			}
		}
		if !headerPresent && prot == nil && err == nil && kalg != 0 {
			got, _ := afterP.GetInt(iana.HeaderParameterAlg)
			if got != kalg {
				c.fail(failure{Op: "alg-default", What: kind + ": protected header left unset does not record the key's algorithm", Input: line, Observed: fmt.Sprint(got), Expected: fmt.Sprint(kalg), Case: line, Theorem: "C05_default_protected"})
			}
		}
		if unprotNil && err == nil && kid != nil {
			got, _ := afterU.GetBytes(iana.HeaderParameterKid)
			if string(got) != string(kid) {
				c.fail(failure{Op: "kid-default", What: kind + ": unprotected header left unset does not record the key id", Input: line, Observed: hx(got), Expected: hx(kid), Case: line, Theorem: "C05_default_unprotected"})
			}
		}
		c.nontriv(fmt.Sprintf("produce|%s|%d|%v|%v|%v", kind, rep, headerPresent, err == nil, keyHasAlg))
		c.count(fmt.Sprintf("produce ok=%v", err == nil))
		// ---- consume: a message that carries this header, verified with a key of algorithm ka
		if !headerPresent {
			return
		}
		// make the message with a key that has no algorithm (gate passes for non-int headers) or the header's own algorithm
		var mk key.Key
		if isInt && rep != 9 && rep != 11 && rep != 12 {
			mk = keyFor(ha, nil, true)
		} else {
			mk = key.Key{iana.KeyParameterKty: 4}
		}
		prot2 := cose.Headers{}
		for a, b := range prot {
			prot2[a] = b
		}
		var cerr error
		var decoded cose.Headers
		// the carrier's unprotected bucket sometimes names the verifying key's algorithm: it is not authenticated and
		// must not take part in the decision
		unprotFor := func() cose.Headers {
			if idx%2 == 0 {
				return nil
			}
			v, _ := algValue(c, ka.alg, idx%5)
			return cose.Headers{iana.HeaderParameterAlg: v}
		}
		panicked, pmsg = catch(func() {
			switch kind {
			case "Sign1":
				m := &cose.Sign1Message[[]byte]{Protected: prot2, Unprotected: unprotFor(), Payload: payload}
				data, err = m.SignAndEncode(fakeSigner{k: mk}, nil)
				if err == nil {
					m2 := &cose.Sign1Message[[]byte]{}
					if cerr = m2.UnmarshalCBOR(data); cerr == nil {
						decoded = m2.Protected
						cerr = m2.Verify(fakeVerifier{k: k}, nil)
					}
				}
			case "Mac0":
				m := &cose.Mac0Message[[]byte]{Protected: prot2, Unprotected: unprotFor(), Payload: payload}
				data, err = m.ComputeAndEncode(fakeMACer{k: mk}, nil)
				if err == nil {
					m2 := &cose.Mac0Message[[]byte]{}
					if cerr = m2.UnmarshalCBOR(data); cerr == nil {
						decoded = m2.Protected
						cerr = m2.Verify(fakeMACer{k: k}, nil)
					}
				}
			case "Mac":
				m := &cose.MacMessage[[]byte]{Protected: prot2, Unprotected: unprotFor(), Payload: payload}
				m.AddRecipient(&cose.Recipient{Protected: cose.Headers{}, Unprotected: cose.Headers{}})
				data, err = m.ComputeAndEncode(fakeMACer{k: mk}, nil)
				if err == nil {
					m2 := &cose.MacMessage[[]byte]{}
					if cerr = m2.UnmarshalCBOR(data); cerr == nil {
						decoded = m2.Protected
						cerr = m2.Verify(fakeMACer{k: k}, nil)
					}
				}
			case "Encrypt0":
				m := &cose.Encrypt0Message[[]byte]{Protected: prot2, Unprotected: unprotFor(), Payload: payload}
				data, err = m.EncryptAndEncode(fakeEncryptor{k: mk, nsize: 12}, nil)
				if err == nil {
					m2 := &cose.Encrypt0Message[[]byte]{}
					if cerr = m2.UnmarshalCBOR(data); cerr == nil {
						decoded = m2.Protected
						cerr = m2.Decrypt(fakeEncryptor{k: k, nsize: 12}, nil)
					}
				}
			case "Encrypt":
				m := &cose.EncryptMessage[[]byte]{Protected: prot2, Unprotected: unprotFor(), Payload: payload}
				m.AddRecipient(&cose.Recipient{Protected: cose.Headers{}, Unprotected: cose.Headers{}})
				data, err = m.EncryptAndEncode(fakeEncryptor{k: mk, nsize: 12}, nil)
				if err == nil {
					m2 := &cose.EncryptMessage[[]byte]{}
					if cerr = m2.UnmarshalCBOR(data); cerr == nil {
						decoded = m2.Protected
						cerr = m2.Decrypt(fakeEncryptor{k: k, nsize: 12}, nil)
					}
				}
			}
		})
		if panicked {
			c.fail(failure{Op: "alg-binding", What: kind + " consume panics", Input: fmt.Sprintf("kind=%s header=%s key=%s", kind, describe(map[any]any(prot)), describe(map[any]any(k))),
				Observed: "panic: " + pmsg, Expected: "error or nil", Theorem: "C05_non_integer_alg_refused"})
			return
		}
		if err != nil || decoded == nil {
			return // could not build the carrier message (e.g. unencodable header value): nothing to consume
		}
		line2 := fmt.Sprintf("alg-consume|kind=%s|decoded_header=%s|key=%s|unprotected_alg=%v => ok=%v", kind, describe(map[any]any(decoded)), describe(map[any]any(k)), idx%2 != 0, cerr == nil)
		c.addCase(fmt.Sprintf("AConsume %s %s %s", qMap(decoded), qMap(k), qB(cerr == nil)), line2)
		if kalg != 0 {
			want := isInt && rep != 9 && rep != 11 && rep != 12 && ha.alg == kalg
			if want != (cerr == nil) {
				c.fail(failure{Op: "alg-binding", What: kind + " consume: protected alg vs key alg", Input: line2, Observed: fmt.Sprintf("ok=%v", cerr == nil), Expected: fmt.Sprintf("ok=%v", want), Case: line2, Theorem: "C05_alg_mismatch_refused"})
			}
		}
		c.nontriv(fmt.Sprintf("consume|%s|%d|%v", kind, rep, cerr == nil))
		if idx < 4 {
			c.sample(line)
			c.sample(line2)
		}
	}
	if exhaustive {
		// all ordered pairs x integer representations x kinds
		for _, kind := range kinds {
			for _, ha := range allAlgs {
				for _, ka := range allAlgs {
					for _, rep := range []int{0, 1, 5} {
						emit(kind, ha, ka, rep, true, true, c.r.bool())
					}
				}
			}
		}
	}
	// the header names the key's own algorithm, but in a representation that only wraps onto it
	for _, kind := range kinds {
		for _, a := range allAlgs {
			emit(kind, a, a, 11, true, true, false)
			emit(kind, a, a, 12, true, true, c.r.bool())
			emit(kind, a, a, 9, true, c.r.bool(), true)
		}
	}
	for i := 0; i < n; i++ {
		kind := pick(c.r, kinds)
		ha := pick(c.r, allAlgs)
		ka := pick(c.r, allAlgs)
		if c.r.intn(3) == 0 {
			ka = ha
		}
		if c.r.intn(5) == 0 { // pairs sharing key material
			pairs := [][2]algKey{{{4, 4, 0}, {5, 4, 0}}, {{14, 4, 0}, {25, 4, 0}}, {{10, 4, 0}, {30, 4, 0}}, {{12, 4, 0}, {32, 4, 0}}, {{15, 4, 0}, {26, 4, 0}}, {{11, 4, 0}, {13, 4, 0}}}
			p := pick(c.r, pairs)
			ha, ka = p[0], p[1]
			if c.r.bool() {
				ha, ka = ka, ha
			}
		}
		emit(kind, ha, ka, c.r.intn(13), c.r.intn(6) > 0, c.r.intn(6) > 0, c.r.bool())
	}
	// ---- COSE_Sign: per-signer buckets, verifiers found by kid
	ns := c.n(300, 3000)
	for i := 0; i < ns; i++ {
		nsig := 1 + c.r.intn(3)
		var signers key.Signers
		var verifiers key.Verifiers
		var vkeys []string
		mismatch, unmatched := false, false
		type sk struct {
			kid string
			alg int
		}
		var sks, vks []sk
		for j := 0; j < nsig; j++ {
			a := pick(c.r, allAlgs[:4])
			kid := []byte{byte('a' + j)}
			if j > 0 && c.r.intn(3) == 0 {
				kid = []byte{byte('a' + j - 1)} // two signatures under one kid: each must be checked on its own
			}
			signers = append(signers, fakeSigner{k: keyFor(a, kid, c.r.intn(4) > 0)})
			sks = append(sks, sk{string(kid), a.alg})
			b := a
			if c.r.intn(4) == 0 {
				b = pick(c.r, allAlgs[:4])
			}
			vkid := kid
			if c.r.intn(8) == 0 {
				vkid = []byte("zz")
			}
			vk := keyFor(b, vkid, c.r.intn(4) > 0)
			verifiers = append(verifiers, fakeVerifier{k: vk})
			vkeys = append(vkeys, qMap(vk))
			vks = append(vks, sk{string(vkid), b.alg})
		}
		// what the property demands: every signature finds (by kid, first match) a verifier of its own algorithm
		for _, s := range sks {
			found := false
			for _, v := range vks {
				if v.kid == s.kid {
					found = true
					if v.alg != s.alg {
						mismatch = true
					}
					break
				}
			}
			if !found {
				unmatched = true
			}
		}
		m := &cose.SignMessage[[]byte]{Payload: payload}
		// an algorithm in the BODY buckets of a COSE_Sign binds nothing: each signature is checked against its own
		// protected bucket whatever the body says (in a third of the messages the body names the algorithm of one of the
		// verifiers' keys, or some other one, in the protected and / or the unprotected bucket)
		bodyAlg := ""
		if c.r.intn(3) == 0 {
			ba := vks[c.r.intn(len(vks))].alg
			if c.r.intn(4) == 0 {
				ba = pick(c.r, allAlgs[:4]).alg
			}
			switch c.r.intn(3) {
			case 0:
				m.Protected = cose.Headers{iana.HeaderParameterAlg: ba}
			case 1:
				m.Unprotected = cose.Headers{iana.HeaderParameterAlg: ba}
			default:
				m.Protected = cose.Headers{iana.HeaderParameterAlg: ba}
				m.Unprotected = cose.Headers{iana.HeaderParameterAlg: ba}
			}
			bodyAlg = fmt.Sprintf("|body-alg=%d", ba)
		}
		data, err := m.SignAndEncode(signers, nil)
		if err != nil {
			continue
		}
		m2 := &cose.SignMessage[[]byte]{}
		if err := m2.UnmarshalCBOR(data); err != nil {
			continue
		}
		var sigs []string
		for _, s := range m2.Signatures() {
			sigs = append(sigs, "("+qMap(s.Protected)+", "+qMap(s.Unprotected)+")")
		}
		verr := m2.Verify(verifiers, nil)
		line := fmt.Sprintf("alg-sign-verify|i=%d|nsig=%d|mismatch=%v|unmatched=%v%s => ok=%v", i, nsig, mismatch, unmatched, bodyAlg, verr == nil)
		c.addCase(fmt.Sprintf("ASignVerify %s %s %s", qList(sigs), qList(vkeys), qB(verr == nil)), line)
		if (mismatch || unmatched) && verr == nil {
			c.fail(failure{Op: "alg-binding", What: "COSE_Sign verified although a signer's algorithm or kid has no matching verifier", Input: line, Observed: "ok", Expected: "error", Case: line, Theorem: "C05_sign_verify_mismatch_refused"})
		}
		if !mismatch && !unmatched && verr != nil {
			c.fail(failure{Op: "alg-binding", What: "COSE_Sign refused although every signer has its verifier", Input: line, Observed: verr.Error(), Expected: "ok", Case: line, Theorem: "C05_sign_verify_mismatch_refused"})
		}
		c.nontriv(fmt.Sprintf("signverify|%d|%v|%v|%v", nsig, mismatch, unmatched, bodyAlg != ""))
	}
}
