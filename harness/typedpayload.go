package main

import (
	"bytes"
	"fmt"

	"github.com/fxamacker/cbor/v2"
	"github.com/ldclabs/cose/cose"
	"github.com/ldclabs/cose/cwt"
	"github.com/ldclabs/cose/iana"
	"github.com/ldclabs/cose/key"
)

// Typed payloads (C08): a message type instantiated with a payload type T other than []byte / cbor.RawMessage decodes
// the payload bytes as CBOR into T. Whatever T is, the strict rules hold for those bytes: no duplicate map key at any
// depth (also after integer normalisation), no indefinite-length item, valid UTF-8, nothing after the item.
// The carrier messages are produced by the library from the raw payload bytes (cbor.RawMessage is taken verbatim) with
// the transparent fake primitives, so the payload decoder is the only thing that can refuse them.

type typedStruct struct {
	A string         `cbor:"1,keyasint,omitempty"`
	B map[int]any    `cbor:"99,keyasint,omitempty"`
	C []byte         `cbor:"7,keyasint,omitempty"`
	D map[string]int `cbor:"8,keyasint,omitempty"`
}

type typedCase struct {
	name string
	data []byte
	ok   bool
}

func typedPayloadCases() []typedCase {
	h := key.HexBytesify
	return []typedCase{
		{"control: well-formed map", h("a2016161076101"), true},
		{"control: nested map", h("a20161611863a201010202"), true},
		{"duplicate key", h("a2016161016162"), false},
		{"duplicate key, second in a non-shortest form", h("a201616118016162"), false},
		{"duplicate key in a nested map", h("a20161611863a201010102"), false},
		{"duplicate text key in a nested map", h("a108a2616101616102"), false},
		{"indefinite-length map", h("bf016161ff"), false},
		{"indefinite-length text", h("a1017f6161ff"), false},
		{"indefinite-length bytes", h("a1075f4101ff"), false},
		{"indefinite-length nested map", h("a11863bf0101ff"), false},
		{"invalid UTF-8", h("a10161ff"), false},
		{"trailing byte", h("a101616100"), false},
	}
}

// probeTyped verifies / decrypts a carrier of the raw payload into payload type T and reports acceptance.
func probeTyped[T any](kind string, f fkey, raw []byte) (accepted bool, decoded string, carrierErr error) {
	var data []byte
	var err error
	switch kind {
	case "KSign1":
		data, err = (&cose.Sign1Message[cbor.RawMessage]{Payload: raw}).SignAndEncode(f, nil)
	case "KMac0":
		data, err = (&cose.Mac0Message[cbor.RawMessage]{Payload: raw}).ComputeAndEncode(f, nil)
	case "KEnc0":
		data, err = (&cose.Encrypt0Message[cbor.RawMessage]{Payload: raw}).EncryptAndEncode(f, nil)
	case "KSign":
		data, err = (&cose.SignMessage[cbor.RawMessage]{Payload: raw}).SignAndEncode(key.Signers{f}, nil)
	case "KMac":
		m := &cose.MacMessage[cbor.RawMessage]{Payload: raw}
		m.AddRecipient(&cose.Recipient{Protected: cose.Headers{}, Unprotected: cose.Headers{iana.HeaderParameterAlg: iana.AlgorithmDirect}, Ciphertext: []byte{}})
		data, err = m.ComputeAndEncode(f, nil)
	default:
		m := &cose.EncryptMessage[cbor.RawMessage]{Payload: raw}
		m.AddRecipient(&cose.Recipient{Protected: cose.Headers{}, Unprotected: cose.Headers{iana.HeaderParameterAlg: iana.AlgorithmDirect}, Ciphertext: []byte{}})
		data, err = m.EncryptAndEncode(f, nil)
	}
	if err != nil {
		return false, "", err
	}
	var payload T
	switch kind {
	case "KSign1":
		m, e := cose.VerifySign1Message[T](f, data, nil)
		if e != nil {
			return false, "", nil
		}
		payload = m.Payload
	case "KMac0":
		m, e := cose.VerifyMac0Message[T](f, data, nil)
		if e != nil {
			return false, "", nil
		}
		payload = m.Payload
	case "KEnc0":
		m, e := cose.DecryptEncrypt0Message[T](f, data, nil)
		if e != nil {
			return false, "", nil
		}
		payload = m.Payload
	case "KSign":
		m, e := cose.VerifySignMessage[T](key.Verifiers{f}, data, nil)
		if e != nil {
			return false, "", nil
		}
		payload = m.Payload
	case "KMac":
		m, e := cose.VerifyMacMessage[T](f, data, nil)
		if e != nil {
			return false, "", nil
		}
		payload = m.Payload
	default:
		m, e := cose.DecryptEncryptMessage[T](f, data, nil)
		if e != nil {
			return false, "", nil
		}
		payload = m.Payload
	}
	return true, fmt.Sprintf("%v", any(payload)), nil
}

// produceTyped produces a message of the kind with a typed payload and returns the payload bytes that were placed on
// the wire (read back through the RawMessage instantiation of the same kind).
func produceTyped[T any](kind string, f fkey, payload T) ([]byte, error) {
	var data []byte
	var err error
	switch kind {
	case "KSign1":
		data, err = (&cose.Sign1Message[T]{Payload: payload}).SignAndEncode(f, nil)
	case "KMac0":
		data, err = (&cose.Mac0Message[T]{Payload: payload}).ComputeAndEncode(f, nil)
	case "KEnc0":
		data, err = (&cose.Encrypt0Message[T]{Payload: payload}).EncryptAndEncode(f, nil)
	case "KSign":
		data, err = (&cose.SignMessage[T]{Payload: payload}).SignAndEncode(key.Signers{f}, nil)
	case "KMac":
		m := &cose.MacMessage[T]{Payload: payload}
		m.AddRecipient(&cose.Recipient{Protected: cose.Headers{}, Unprotected: cose.Headers{iana.HeaderParameterAlg: iana.AlgorithmDirect}, Ciphertext: []byte{}})
		data, err = m.ComputeAndEncode(f, nil)
	default:
		m := &cose.EncryptMessage[T]{Payload: payload}
		m.AddRecipient(&cose.Recipient{Protected: cose.Headers{}, Unprotected: cose.Headers{iana.HeaderParameterAlg: iana.AlgorithmDirect}, Ciphertext: []byte{}})
		data, err = m.EncryptAndEncode(f, nil)
	}
	if err != nil {
		return nil, err
	}
	switch kind {
	case "KSign1":
		m, e := cose.VerifySign1Message[cbor.RawMessage](f, data, nil)
		if e != nil {
			return nil, e
		}
		return m.Payload, nil
	case "KMac0":
		m, e := cose.VerifyMac0Message[cbor.RawMessage](f, data, nil)
		if e != nil {
			return nil, e
		}
		return m.Payload, nil
	case "KEnc0":
		m, e := cose.DecryptEncrypt0Message[cbor.RawMessage](f, data, nil)
		if e != nil {
			return nil, e
		}
		return m.Payload, nil
	case "KSign":
		m, e := cose.VerifySignMessage[cbor.RawMessage](key.Verifiers{f}, data, nil)
		if e != nil {
			return nil, e
		}
		return m.Payload, nil
	case "KMac":
		m, e := cose.VerifyMacMessage[cbor.RawMessage](f, data, nil)
		if e != nil {
			return nil, e
		}
		return m.Payload, nil
	}
	m, e := cose.DecryptEncryptMessage[cbor.RawMessage](f, data, nil)
	if e != nil {
		return nil, e
	}
	return m.Payload, nil
}

// typedPayloadProduced: whatever the payload type, the payload bytes a message leaves with are deterministic CBOR
// (map keys in bytewise order at every depth): equal to the library's own deterministic encoding of the value, and the
// same on every production.
func typedPayloadProduced(c *ctx) {
	f := fkey{k: key.Key{iana.KeyParameterKty: 4, iana.KeyParameterKid: []byte("t")}, secret: []byte{0x51}, nsize: 12}
	big := map[any]any{}
	ints := map[int]string{}
	strs := map[string]int{}
	for i := 0; i < 9; i++ {
		big[[]any{1, -1, 24, "a", "bb", -25, 256, "", 65536}[i]] = i
		ints[[]int{1, -1, 24, 23, -25, 256, 65536, -257, 0}[i]] = fmt.Sprint(i)
		strs[[]string{"", "a", "b", "aa", "ab", "z", "aaa", "B", "zz"}[i]] = i
	}
	type run struct {
		tname string
		f     func(kind string) ([]byte, error)
		want  func() ([]byte, error)
	}
	st := typedStruct{A: "x", B: map[int]any{1: 1, -1: 2, 24: 3, 256: 4, -25: 5, 2: map[any]any{"k": 1, 1: 2, -1: 3, 24: 4}}, D: strs}
	nested := []any{1, big, map[any]any{"m": ints}}
	runs := []run{
		{"map[any]any", func(k string) ([]byte, error) { return produceTyped[map[any]any](k, f, big) }, func() ([]byte, error) { return key.MarshalCBOR(big) }},
		{"map[int]string", func(k string) ([]byte, error) { return produceTyped[map[int]string](k, f, ints) }, func() ([]byte, error) { return key.MarshalCBOR(ints) }},
		{"map[string]int", func(k string) ([]byte, error) { return produceTyped[map[string]int](k, f, strs) }, func() ([]byte, error) { return key.MarshalCBOR(strs) }},
		{"struct with maps", func(k string) ([]byte, error) { return produceTyped[typedStruct](k, f, st) }, func() ([]byte, error) { return key.MarshalCBOR(st) }},
		{"*struct with maps", func(k string) ([]byte, error) { return produceTyped[*typedStruct](k, f, &st) }, func() ([]byte, error) { return key.MarshalCBOR(&st) }},
		{"[]any holding maps", func(k string) ([]byte, error) { return produceTyped[[]any](k, f, nested) }, func() ([]byte, error) { return key.MarshalCBOR(nested) }},
		{"any holding a map", func(k string) ([]byte, error) { return produceTyped[any](k, f, big) }, func() ([]byte, error) { return key.MarshalCBOR(big) }},
	}
	// a pre-encoded payload (cbor.RawMessage) is taken verbatim, whatever CBOR it holds (indefinite lengths, deep
	// nesting, non-shortest heads): the message produced from it is accepted back with the same bytes
	deep := append(bytes.Repeat([]byte{0x81}, 40), 0x01)
	for _, kind := range []string{"KSign1", "KMac0", "KEnc0", "KSign", "KMac", "KEnc"} {
		for _, raw := range [][]byte{{0x9f, 0x01, 0x02, 0xff}, {0xbf, 0x01, 0x02, 0xff}, {0x5f, 0x41, 0x01, 0xff}, {0x7f, 0x61, 0x61, 0xff}, deep, {0x18, 0x01}, {0xa2, 0x02, 0x01, 0x01, 0x02}, {0x01, 0x02}} {
			var got []byte
			var err error
			p, pm := catch(func() { got, err = produceTyped[cbor.RawMessage](kind, f, cbor.RawMessage(raw)) })
			c.eval()
			c.nontriv(fmt.Sprintf("raw-payload|%s|%x", kind, raw[:1]))
			line := fmt.Sprintf("typed-payload-produced|%s[cbor.RawMessage]|payload=%x", kind, raw)
			if p || err != nil || string(got) != string(raw) {
				c.fail(failure{Op: "typed-payload", What: "a message produced from a pre-encoded payload is not accepted back with the same payload bytes", Input: short(line),
					Observed: short(fmt.Sprintf("panic=%v %s err=%v payload=%x", p, pm, err, got)), Expected: short(fmt.Sprintf("%x", raw)), Case: short(line)})
			}
		}
	}
	for _, kind := range []string{"KSign1", "KMac0", "KEnc0", "KSign", "KMac", "KEnc"} {
		for _, r := range runs {
			want, werr := r.want()
			if werr != nil {
				continue
			}
			for rep := 0; rep < 3; rep++ {
				var got []byte
				var err error
				p, pm := catch(func() { got, err = r.f(kind) })
				c.eval()
				c.nontriv(fmt.Sprintf("typed-produced|%s|%s", kind, r.tname))
				line := fmt.Sprintf("typed-payload-produced|%s[%s]|production %d", kind, r.tname, rep+1)
				if p || err != nil {
					c.fail(failure{Op: "typed-payload", What: "a message with a typed payload is not produced or not accepted back", Input: line, Observed: fmt.Sprintf("panic=%v %s err=%v", p, pm, err), Expected: "payload bytes", Case: line})
					break
				}
				if string(got) != string(want) {
					c.fail(failure{Op: "typed-payload", What: "the payload bytes of a produced message are not the deterministic encoding of the payload value (map keys out of bytewise order)", Input: line,
						Observed: short(fmt.Sprintf("%x", got)), Expected: short(fmt.Sprintf("%x", want)), Case: line, Theorem: "C08_encode_sorted"})
					break
				}
			}
		}
	}
}

func typedPayloadProbes(c *ctx) {
	typedPayloadProduced(c)
	f := fkey{k: key.Key{iana.KeyParameterKty: 4, iana.KeyParameterKid: []byte("t")}, secret: []byte{0x51}, nsize: 12}
	type probe struct {
		tname string
		run   func(kind string, raw []byte) (bool, string, error)
	}
	probes := []probe{
		{"any", func(k string, r []byte) (bool, string, error) { return probeTyped[any](k, f, r) }},
		{"map[int]any", func(k string, r []byte) (bool, string, error) { return probeTyped[map[int]any](k, f, r) }},
		{"map[any]any", func(k string, r []byte) (bool, string, error) { return probeTyped[map[any]any](k, f, r) }},
		{"cwt.Claims", func(k string, r []byte) (bool, string, error) { return probeTyped[cwt.Claims](k, f, r) }},
		{"cwt.ClaimsMap", func(k string, r []byte) (bool, string, error) { return probeTyped[cwt.ClaimsMap](k, f, r) }},
		{"key.Key", func(k string, r []byte) (bool, string, error) { return probeTyped[key.Key](k, f, r) }},
		{"cose.Headers", func(k string, r []byte) (bool, string, error) { return probeTyped[cose.Headers](k, f, r) }},
		{"struct", func(k string, r []byte) (bool, string, error) { return probeTyped[typedStruct](k, f, r) }},
		{"*struct", func(k string, r []byte) (bool, string, error) { return probeTyped[*typedStruct](k, f, r) }},
	}
	for _, kind := range []string{"KSign1", "KMac0", "KEnc0", "KSign", "KMac", "KEnc"} {
		for _, p := range probes {
			for _, tc := range typedPayloadCases() {
				var ok bool
				var dec string
				var cerr error
				pn, pm := catch(func() { ok, dec, cerr = p.run(kind, tc.data) })
				c.eval()
				line := fmt.Sprintf("typed-payload|%s[%s]|%s|payload=%x", kind, p.tname, tc.name, tc.data)
				if pn {
					c.fail(failure{Op: "typed-payload", What: "panic while consuming a message with a typed payload", Input: line, Observed: pm, Expected: "value or error", Case: line})
					continue
				}
				if cerr != nil {
					c.fail(failure{Op: "typed-payload", What: "the carrier message could not be produced", Input: line, Observed: cerr.Error(), Expected: "bytes", Case: line})
					continue
				}
				c.nontriv(fmt.Sprintf("typed|%s|%s|%s|%v", kind, p.tname, tc.name, ok))
				c.count(fmt.Sprintf("typed payload %s accepted=%v", p.tname, ok))
				if ok && !tc.ok {
					c.fail(failure{Op: "typed-payload", What: "a payload that is not strict CBOR (" + tc.name + ") is accepted into the typed payload", Input: line,
						Observed: "accepted, decoded to " + short(dec), Expected: "an error", Case: line, Theorem: "C08_duplicate_key_refused_at_any_depth / C08_indefinite_refused"})
				}
				if !ok && tc.ok && (p.tname == "any" || p.tname == "map[int]any" || p.tname == "map[any]any" || p.tname == "cwt.ClaimsMap" || p.tname == "cose.Headers") {
					c.fail(failure{Op: "typed-payload", What: "a well-formed payload is refused", Input: line, Observed: "error", Expected: "accepted", Case: line})
				}
			}
		}
	}
}
