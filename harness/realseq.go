package main

import (
	"bytes"
	"crypto/sha256"
	"fmt"
	"github.com/ldclabs/cose/key/aesmac"
	"github.com/ldclabs/cose/key/hmac"
	"strings"

	"github.com/fxamacker/cbor/v2"
	"github.com/ldclabs/cose/cose"
	"github.com/ldclabs/cose/iana"
	"github.com/ldclabs/cose/key"
)

func init() { streams["realseq"] = streamRealSeq }

// Stream realseq (oracle stream, real algorithms): directed multi-step histories that a single produce / consume
// pass does not reach.
//
//	A  nonce material (C03, C06): messages under a key with a Base IV and a Partial IV of every admissible length
//	   (1 .. nonce size - 1), an explicit IV, a library-chosen IV: accepted back; every byte of the IV / Partial IV
//	   changed in the received message, and every byte of the Base IV changed in the key: refused.
//	B  object histories (C01, C09, C12): decode, consume, encode again (bytes identical to those received), consume
//	   again on the same object, consume after a refused attempt (wrong key, wrong external data) on the same object.
//	C  COSE_Sign written by a peer (C04, C02): several signers of one algorithm whose protected buckets differ as byte
//	   strings (non-shortest heads, another key order, an extra parameter): each signature is verified over the
//	   Sig_structure built from that signer's own received bytes.
func streamRealSeq(c *ctx) {
	realNonceMaterial(c)
	realObjectHistories(c)
	realPeerMultiSign(c)
	realPeerSingle(c)
	realRelatedKeys(c)
}

// ---- E: keys related to the right one (C02, C03): the key material followed by zero octets (HMAC pads a short key with
// zeros), cut by one octet, or replaced by its hash: another key, whether it is refused when loaded or when used
func realRelatedKeys(c *ctx) {
	for _, a := range allAlgs {
		if a.kty != 4 {
			continue
		}
		var kinds []string
		switch alg := a.alg; {
		case (alg >= 4 && alg <= 7) || alg == 14 || alg == 15 || alg == 25 || alg == 26:
			kinds = []string{"KMac0", "KMac"}
		default:
			kinds = []string{"KEnc0", "KEnc"}
		}
		for _, kind := range kinds {
			k, err := genKeyFor(a.alg)
			if err != nil {
				continue
			}
			payload, ext := c.r.bytes(20), c.r.bytes(3)
			data, perr := produceReal(kind, k, payload, ext)
			if perr != nil {
				continue
			}
			kb, _ := k.GetBytes(iana.SymmetricKeyParameterK)
			sum := sha256.Sum256(kb)
			rel := map[string][]byte{"key || 00": append(append([]byte{}, kb...), 0), "key || 00 x 8": append(append([]byte{}, kb...), make([]byte, 8)...),
				"key without its last octet": kb[:len(kb)-1], "SHA-256 of the key": sum[:], "key || key": append(append([]byte{}, kb...), kb...)}
			rel["the same key material without the alg member"] = kb
			for name, kb2 := range rel {
				k2 := cloneKey(k)
				k2[iana.SymmetricKeyParameterK] = kb2
				if strings.Contains(name, "without the alg") {
					delete(k2, iana.KeyParameterAlg)
				}
				// the family's own constructor (not the registry): a MACer it hands out for another key must not verify
				if kind == "KMac0" {
					var m key.MACer
					var merr error
					if a.alg >= 4 && a.alg <= 7 {
						m, merr = hmac.New(k2)
					} else {
						m, merr = aesmac.New(k2)
					}
					if merr == nil {
						// (any tag, the genuine one and the empty one included)
						for _, d2 := range [][]byte{data} {
							if _, verr := cose.VerifyMac0Message[[]byte](m, d2, ext); verr == nil && !strings.Contains(name, "without the alg") {
								line := short(fmt.Sprintf("realseq-related-key|%s|alg=%d|key=%x|other key (%s)=%x via the package constructor", kind, a.alg, kb, name, kb2))
								c.fail(failure{Op: "real-related-key", What: "a message is accepted under another key (" + name + ") built with the package constructor", Input: line, Observed: "accepted", Expected: "an error", Case: line})
							}
						}
						// and whatever key it is, a changed payload is refused
						if out, perr2 := (&cose.Mac0Message[[]byte]{Payload: []byte("original")}).ComputeAndEncode(m, nil); perr2 == nil {
							var mm cose.Mac0Message[[]byte]
							if mm.UnmarshalCBOR(out) == nil {
								forged := bytes.Replace(out, []byte("original"), []byte("forgery!"), 1)
								if _, verr := cose.VerifyMac0Message[[]byte](m, forged, nil); verr == nil && !bytes.Equal(forged, out) {
									line := short(fmt.Sprintf("realseq-related-key|%s|alg=%d|key (%s)=%x via the package constructor|message %x", kind, a.alg, name, kb2, forged))
									c.fail(failure{Op: "real-related-key", What: "a MACer handed out by the package constructor accepts a message whose payload was replaced", Input: line, Observed: "accepted", Expected: "an error", Case: line})
								}
							}
						}
					}
				}
				var seen [][]byte
				var got []byte
				var cerr error
				p, pm := catch(func() { got, _, cerr = consumeReal(kind, k2, data, ext, &seen) })
				c.eval()
				c.nontriv(fmt.Sprintf("related-key|%d|%s", a.alg, name))
				if p || cerr == nil {
					line := short(fmt.Sprintf("realseq-related-key|%s|alg=%d|key=%x|other key (%s)=%x", kind, a.alg, kb, name, kb2))
					c.fail(failure{Op: "real-related-key", What: "a message is accepted under another key (" + name + ")", Input: line,
						Observed: short(fmt.Sprintf("panic=%v %s accepted, payload=%x", p, pm, got)), Expected: "an error", Case: line})
				}
			}
		}
	}
}

// an empty protected bucket as a peer may validly write it: the zero-length string, an explicit empty map, an empty
// map with a one-byte length head
func emptyProtectedForms() [][]byte {
	return [][]byte{{}, {0xa0}, {0xb8, 0x00}}
}

// D  the five single-layer / recipient kinds written by a peer (C04, C01): the protected bucket in every valid form
//
//	(empty in three forms, non-shortest heads, another key order, extra parameters); the structure is written here, the
//	signature / tag / ciphertext made by calling the real primitive on it; the library must accept the message and hand
//	the primitive exactly that structure.
func realPeerSingle(c *ctx) {
	rounds := c.n(1, 6)
	direct := &citem{kind: 4, l: []*citem{{kind: 2, b: []byte{}}, {kind: 5, m: [][2]*citem{{{kind: 0, n: 1}, {kind: 1, n: 5}}}}, {kind: 2, b: []byte{}}}}
	for round := 0; round < rounds; round++ {
		for _, a := range allAlgs {
			alg := a.alg
			var kinds []string
			switch {
			case alg < 0:
				kinds = []string{"KSign1"}
			case (alg >= 4 && alg <= 7) || alg == 14 || alg == 15 || alg == 25 || alg == 26:
				kinds = []string{"KMac0", "KMac"}
			default:
				kinds = []string{"KEnc0", "KEnc"}
			}
			forms := append(emptyProtectedForms(), protectedForms(c, alg)...)
			for _, kind := range kinds {
				for fi, prot := range forms {
					if !c.thorough() && fi >= 3 && (fi+round+alg)%2 == 0 {
						continue
					}
					k, err := genKeyFor(alg)
					if err != nil {
						continue
					}
					payload := c.r.bytes(pick(c.r, []int{1, 20, 70}))
					ext := c.r.bytes(c.r.intn(4))
					var msg *citem
					var want []byte
					ok := true
					switch kind {
					case "KSign1":
						want = rfcStructure("Signature1", prot, nil, ext, payload, false, true)
						s, e := k.Signer()
						if e != nil {
							ok = false
							break
						}
						sig, e := s.Sign(want)
						ok = e == nil
						msg = &citem{kind: 6, n: 18, v: &citem{kind: 4, l: []*citem{{kind: 2, b: prot}, {kind: 5}, {kind: 2, b: payload}, {kind: 2, b: sig}}}}
					case "KMac0", "KMac":
						ctxs := "MAC0"
						if kind == "KMac" {
							ctxs = "MAC"
						}
						want = rfcStructure(ctxs, prot, nil, ext, payload, false, true)
						m, e := k.MACer()
						if e != nil {
							ok = false
							break
						}
						tag, e := m.MACCreate(want)
						ok = e == nil
						l := []*citem{{kind: 2, b: prot}, {kind: 5}, {kind: 2, b: payload}, {kind: 2, b: tag}}
						tagN := uint64(17)
						if kind == "KMac" {
							l = append(l, &citem{kind: 4, l: []*citem{direct}})
							tagN = 97
						}
						msg = &citem{kind: 6, n: tagN, v: &citem{kind: 4, l: l}}
					default:
						ctxs := "Encrypt0"
						if kind == "KEnc" {
							ctxs = "Encrypt"
						}
						want = rfcStructure(ctxs, prot, nil, ext, nil, false, false)
						e, er := k.Encryptor()
						if er != nil {
							ok = false
							break
						}
						iv := c.r.bytes(e.NonceSize())
						ct, er := e.Encrypt(iv, payload, want)
						ok = er == nil
						l := []*citem{{kind: 2, b: prot}, {kind: 5, m: [][2]*citem{{{kind: 0, n: 5}, {kind: 2, b: iv}}}}, {kind: 2, b: ct}}
						tagN := uint64(16)
						if kind == "KEnc" {
							l = append(l, &citem{kind: 4, l: []*citem{direct}})
							tagN = 96
						}
						msg = &citem{kind: 6, n: tagN, v: &citem{kind: 4, l: l}}
					}
					if !ok || msg == nil {
						continue
					}
					data := msg.enc(nil)
					line := short(fmt.Sprintf("realseq-peer|%s|alg=%d|protected=%x|%x|ext=%x", kind, alg, prot, data, ext))
					var seen [][]byte
					var got []byte
					var cerr error
					p, pm := catch(func() { got, _, cerr = consumeReal(kind, k, data, ext, &seen) })
					c.eval()
					c.nontriv(fmt.Sprintf("peer|%s|%d|%d|%v", kind, alg, fi, cerr == nil))
					c.count(fmt.Sprintf("peer %s protected form %d accepted=%v", kind, fi, cerr == nil && !p))
					if p || cerr != nil || !bytes.Equal(got, payload) {
						c.fail(failure{Op: "real-peer", What: "a message a peer wrote with a valid but different encoding of the protected bucket is not accepted", Input: line,
							Observed: short(fmt.Sprintf("panic=%v %s err=%v payload=%x", p, pm, cerr, got)), Expected: fmt.Sprintf("payload=%x", payload), Case: line, Theorem: "C04_verifier_recomputes_from_wire_bytes"})
						continue
					}
					if len(seen) != 1 || !bytes.Equal(seen[0], want) {
						c.fail(failure{Op: "real-peer", What: "the primitive was handed bytes other than the RFC 9052 structure of the received protected bytes", Input: line,
							Observed: short(fmt.Sprintf("%x", seen)), Expected: short(fmt.Sprintf("%x", want)), Case: line, Theorem: "C04_verifier_recomputes_from_wire_bytes"})
					}
				}
			}
		}
	}
}

var aeadAlgs = []int{1, 2, 3, 24, 10, 11, 12, 13, 30, 31, 32, 33}

func nonceSizeOf(alg int) int {
	switch alg {
	case 1, 2, 3, 24:
		return 12
	case 10, 11, 30, 31:
		return 13
	}
	return 7
}

// rebuildUnprotected replaces the unprotected bucket of an (untagged or tagged) message by the encoding of un.
func rebuildUnprotected(data []byte, f func(un cose.Headers)) ([]byte, bool) {
	parts, ok := topElems(data)
	if !ok || len(parts) < 3 {
		return nil, false
	}
	var un cose.Headers
	if err := key.UnmarshalCBOR(parts[1], &un); err != nil {
		return nil, false
	}
	f(un)
	b, err := key.MarshalCBOR(un)
	if err != nil {
		return nil, false
	}
	sp := append([]cbor.RawMessage{}, parts...)
	sp[1] = b
	return joinElems(sp), true
}

func realNonceMaterial(c *ctx) {
	rounds := c.n(1, 6)
	for round := 0; round < rounds; round++ {
		for _, alg := range aeadAlgs {
			ns := nonceSizeOf(alg)
			for _, kind := range []string{"KEnc0", "KEnc"} {
				// 0: Partial IV of each admissible length; 1: explicit IV; 2: library-chosen IV
				var variants [][2]int
				for l := 1; l < ns; l++ {
					variants = append(variants, [2]int{0, l})
				}
				variants = append(variants, [2]int{1, ns}, [2]int{2, ns})
				for _, vr := range variants {
					k, err := genKeyFor(alg)
					if err != nil {
						continue
					}
					if c.r.bool() {
						k[iana.KeyParameterKid] = c.r.bytes(2)
					}
					unprot := cose.Headers{}
					var piv, iv []byte
					label := iana.HeaderParameterIV
					switch vr[0] {
					case 0:
						baseLen := pick(c.r, []int{1, ns / 2, ns, ns, ns + 3})
						bv := c.r.bytes(baseLen)
						if c.r.intn(3) == 0 { // a Base IV that starts with zero octets
							for j := 0; j < 1+c.r.intn(3) && j < len(bv)-1; j++ {
								bv[j] = 0
							}
						}
						k[iana.KeyParameterBaseIV] = bv
						piv = c.r.bytes(vr[1])
						if c.r.intn(4) == 0 {
							piv[0] = 0 // leading zero bytes are part of the header value
						}
						if vr[1] <= 3 && round == 0 {
							for j := range piv {
								piv[j] = 0 // sequence number zero
							}
						}
						unprot[iana.HeaderParameterPartialIV] = append([]byte{}, piv...)
						label = iana.HeaderParameterPartialIV
					case 1:
						iv = c.r.bytes(ns)
						unprot[iana.HeaderParameterIV] = append([]byte{}, iv...)
					}
					payload := c.r.bytes(pick(c.r, []int{0, 1, 17, 64}))
					ext := c.r.bytes(c.r.intn(9))
					line := short(fmt.Sprintf("realseq-nonce|%s|alg=%d|variant=%d|material_len=%d|key=%s|payload=%x|ext=%x", kind, alg, vr[0], vr[1], describe(k), payload, ext))
					var data []byte
					var perr error
					p, pm := catch(func() {
						e, er := k.Encryptor()
						if er != nil {
							perr = er
							return
						}
						if kind == "KEnc0" {
							m := &cose.Encrypt0Message[[]byte]{Unprotected: unprot, Payload: payload}
							data, perr = m.EncryptAndEncode(e, ext)
						} else {
							m := &cose.EncryptMessage[[]byte]{Unprotected: unprot, Payload: payload}
							m.AddRecipient(&cose.Recipient{Protected: cose.Headers{}, Unprotected: cose.Headers{iana.HeaderParameterAlg: iana.AlgorithmDirect}, Ciphertext: []byte{}})
							data, perr = m.EncryptAndEncode(e, ext)
						}
					})
					c.eval()
					c.count(fmt.Sprintf("nonce-material variant=%d produced=%v", vr[0], perr == nil && !p))
					if p || perr != nil {
						c.fail(failure{Op: "real-nonce-material", What: "a message with admissible nonce material is not produced", Input: line, Observed: fmt.Sprintf("panic=%v %s err=%v", p, pm, perr), Expected: "bytes", Case: line})
						continue
					}
					var seen [][]byte
					got, _, cerr := consumeReal(kind, k, data, ext, &seen)
					if cerr != nil || !bytes.Equal(got, payload) && len(got)+len(payload) > 0 {
						c.fail(failure{Op: "real-nonce-material", What: "a produced message with this nonce material is not accepted back", Input: line, Observed: fmt.Sprintf("err=%v payload=%x", cerr, got), Expected: fmt.Sprintf("payload=%x", payload), Case: line})
						continue
					}
					// the material as received
					var material []byte
					if _, ok := rebuildUnprotected(data, func(un cose.Headers) { material, _ = un.GetBytes(label) }); !ok || len(material) != vr[1] {
						c.fail(failure{Op: "real-nonce-material", What: "the nonce material is not in the unprotected bucket of the produced message", Input: line, Observed: fmt.Sprintf("%x", material), Expected: fmt.Sprintf("%d bytes under label %d", vr[1], label), Case: line})
						continue
					}
					for pos := 0; pos < len(material); pos++ {
						mod := append([]byte{}, material...)
						mod[pos] ^= 1 << uint(c.r.intn(8))
						d, _ := rebuildUnprotected(data, func(un cose.Headers) { un[label] = mod })
						var s2 [][]byte
						var got2 []byte
						var e2 error
						pp, ppm := catch(func() { got2, _, e2 = consumeReal(kind, k, d, ext, &s2) })
						c.eval()
						c.nontriv(fmt.Sprintf("nonce-material|%d|%d|%d|%v", alg, vr[0], pos, e2 == nil))
						if pp || e2 == nil {
							c.fail(failure{Op: "real-nonce-material", What: "a message whose IV / Partial IV was changed still decrypts", Input: line + fmt.Sprintf("|byte %d of the material %x changed to %x", pos, material, mod),
								Observed: fmt.Sprintf("panic=%v %s accepted, payload=%x", pp, ppm, got2), Expected: "an error (another nonce is derived)", Case: line, Theorem: "C03_nonce_material_binds"})
							break
						}
					}
					// the material removed from the received message (and, for a Partial IV, replaced by an empty one): no
					// nonce can be derived, whatever the Base IV of the key is
					// the material one octet longer (anything appended) or one octet shorter: another length, no nonce of the
					// algorithm's size can come of it
					for _, mod := range [][]byte{append(append([]byte{}, material...), byte(c.r.intn(256))), append(append([]byte{}, material...), 0), material[:len(material)-1]} {
						if vr[0] == 0 && len(mod) < ns && len(mod) > 0 {
							continue // (a Partial IV of another admissible length is another Partial IV: covered by the byte changes)
						}
						d, _ := rebuildUnprotected(data, func(un cose.Headers) { un[label] = mod })
						var s2 [][]byte
						var got2 []byte
						var e2 error
						pp, ppm := catch(func() { got2, _, e2 = consumeReal(kind, k, d, ext, &s2) })
						c.eval()
						c.nontriv(fmt.Sprintf("nonce-material-length|%d|%d|%d|%v", alg, vr[0], len(mod)-len(material), e2 == nil))
						if pp || e2 == nil {
							c.fail(failure{Op: "real-nonce-material", What: "a message whose IV / Partial IV was lengthened or shortened still decrypts", Input: line + fmt.Sprintf("|material %x -> %x", material, mod),
								Observed: fmt.Sprintf("panic=%v %s accepted, payload=%x", pp, ppm, got2), Expected: "an error (no nonce of the algorithm's size)", Case: line, Theorem: "C03_nonce_material_binds"})
							break
						}
					}
					for _, strip := range []int{0, 1} {
						d, _ := rebuildUnprotected(data, func(un cose.Headers) {
							if strip == 0 {
								delete(un, label)
							} else {
								un[label] = []byte{}
							}
						})
						var s2 [][]byte
						var got2 []byte
						var e2 error
						pp, ppm := catch(func() { got2, _, e2 = consumeReal(kind, k, d, ext, &s2) })
						c.eval()
						c.nontriv(fmt.Sprintf("nonce-material-stripped|%d|%d|%d|%v", alg, vr[0], strip, e2 == nil))
						if pp || e2 == nil {
							c.fail(failure{Op: "real-nonce-material", What: "a message whose IV / Partial IV was removed still decrypts", Input: line + fmt.Sprintf("|material %x under label %d %s", material, label, []string{"deleted", "replaced by h''"}[strip]),
								Observed: fmt.Sprintf("panic=%v %s accepted, payload=%x", pp, ppm, got2), Expected: "an error (no nonce can be derived)", Case: line, Theorem: "C03_nonce_material_binds"})
							break
						}
					}
					if vr[0] == 0 {
						base, _ := k.GetBytes(iana.KeyParameterBaseIV)
						for pos := 0; pos < len(base) && pos < ns; pos++ {
							k2 := key.Key{}
							for a, b := range k {
								k2[a] = b
							}
							mod := append([]byte{}, base...)
							mod[pos] ^= 1 << uint(c.r.intn(8))
							k2[iana.KeyParameterBaseIV] = mod
							var s2 [][]byte
							var e2 error
							pp, _ := catch(func() { _, _, e2 = consumeReal(kind, k2, data, ext, &s2) })
							c.eval()
							if pp || e2 == nil {
								c.fail(failure{Op: "real-nonce-material", What: "a message decrypts under a key whose Base IV was changed", Input: line + fmt.Sprintf("|byte %d of the Base IV changed", pos),
									Observed: "accepted", Expected: "an error (another nonce is derived)", Case: line, Theorem: "C03_enc0_binds"})
								break
							}
						}
						// the Base IV in another alignment: without its leading zero octets, shifted by one octet, with a zero octet
						// in front. Another Base IV unless the first nonce-size octets (zero-extended on the right) are the same.
						fitN := func(b []byte) []byte {
							out := make([]byte, ns)
							copy(out, b)
							return out
						}
						for an, alt := range map[string][]byte{"leading zero octets removed": stripZeros(base), "00 in front": append([]byte{0}, base...), "first octet removed": base[1:]} {
							if len(alt) == 0 || bytes.Equal(fitN(alt), fitN(base)) {
								continue
							}
							k2 := key.Key{}
							for a, b := range k {
								k2[a] = b
							}
							k2[iana.KeyParameterBaseIV] = alt
							var s2 [][]byte
							var e2 error
							pp, _ := catch(func() { _, _, e2 = consumeReal(kind, k2, data, ext, &s2) })
							c.eval()
							c.nontriv(fmt.Sprintf("base-iv-alignment|%d|%s", alg, an))
							if pp || e2 == nil {
								c.fail(failure{Op: "real-nonce-material", What: "a message decrypts under a key whose Base IV is another one (" + an + ")", Input: line + fmt.Sprintf("|Base IV %x -> %x", base, alt),
									Observed: "accepted", Expected: "an error (another nonce is derived)", Case: line, Theorem: "C03_enc0_binds"})
							}
						}
					}
				}
			}
		}
	}
}

// ---- B: object histories

type realObj interface {
	UnmarshalCBOR([]byte) error
	MarshalCBOR() ([]byte, error)
}

func realObjectHistories(c *ctx) {
	rounds := c.n(1, 5)
	for round := 0; round < rounds; round++ {
		for _, a := range allAlgs {
			alg := a.alg
			var kinds []string
			switch {
			case alg < 0:
				kinds = []string{"KSign1", "KSign"}
			case (alg >= 4 && alg <= 7) || alg == 14 || alg == 15 || alg == 25 || alg == 26:
				kinds = []string{"KMac0", "KMac"}
			default:
				kinds = []string{"KEnc0", "KEnc"}
			}
			for _, kind := range kinds {
				k, err := genKeyFor(alg)
				if err != nil {
					continue
				}
				k[iana.KeyParameterKid] = []byte("k")
				k2, _ := genKeyFor(alg)
				k2[iana.KeyParameterKid] = []byte("k")
				payload := c.r.bytes(pick(c.r, []int{1, 16, 33, 300}))
				ext := c.r.bytes(c.r.intn(5))
				line := short(fmt.Sprintf("realseq-object|%s|alg=%d|payload=%x|ext=%x", kind, alg, payload, ext))
				data, perr := produceReal(kind, k, payload, ext)
				c.eval()
				if perr != nil {
					c.fail(failure{Op: "real-object", What: "producing a message with a generated key failed", Input: line, Observed: perr.Error(), Expected: "bytes", Case: line})
					continue
				}
				data0, ext0 := data, ext
				for _, hist := range []int{c.r.intn(3), 3} {
					data, ext := append([]byte{}, data0...), append([]byte{}, ext0...)
					received := append([]byte{}, data...)
					obj, consume := newRealObj(kind)
					if err := obj.UnmarshalCBOR(data); err != nil {
						c.fail(failure{Op: "real-object", What: "a produced message does not decode", Input: line, Observed: err.Error(), Expected: "decoded", Case: line})
						continue
					}
					step := func(name string, kk key.Key, e []byte, wantOK bool) bool {
						var got []byte
						var cerr error
						p, pm := catch(func() { got, cerr = consume(kk, e) })
						c.eval()
						c.nontriv(fmt.Sprintf("object|%s|%d|%s|%v", kind, alg, name, cerr == nil))
						ok := !p && (cerr == nil) == wantOK && (!wantOK || bytes.Equal(got, payload))
						if !ok {
							c.fail(failure{Op: "real-object", What: "history on one decoded message object: step '" + name + "' does not behave as on a fresh object", Input: line + "|history up to " + name,
								Observed: short(fmt.Sprintf("panic=%v %s err=%v payload=%x", p, pm, cerr, got)), Expected: fmt.Sprintf("accepted=%v payload=%x", wantOK, payload), Case: line})
						}
						return ok
					}
					reenc := func(name string) bool {
						out, err := obj.MarshalCBOR()
						c.eval()
						if err != nil || !bytes.Equal(out, received) {
							c.fail(failure{Op: "real-object", What: "a decoded message encodes to other bytes than those received (" + name + ")", Input: line + "|" + name,
								Observed: short(fmt.Sprintf("%x err=%v", out, err)), Expected: short(fmt.Sprintf("%x", received)), Case: line})
							return false
						}
						return true
					}
					if !bytes.Equal(data, received) {
						c.fail(failure{Op: "real-object", What: "decoding changed the caller's bytes", Input: line, Observed: short(fmt.Sprintf("%x", data)), Expected: short(fmt.Sprintf("%x", received)), Case: line})
					}
					switch hist {
					case 3: // the caller keeps one buffer for the external data and refills it between calls
						buf := append([]byte{}, ext...)
						if len(buf) == 0 {
							buf = []byte("session-0001")
							ext = append([]byte{}, buf...)
							data2, e2 := produceReal(kind, k, payload, ext)
							if e2 != nil || obj.UnmarshalCBOR(data2) != nil {
								break
							}
							data, received = data2, append([]byte{}, data2...)
						}
						okc := step("consume (external data in a caller's buffer)", k, buf, true)
						buf[len(buf)-1] ^= 0x03
						okc = okc && step("wrong external data (the same buffer, rewritten in place)", k, buf, false)
						buf[len(buf)-1] ^= 0x03
						_ = okc && step("consume again (buffer restored)", k, buf, true) && reenc("after the buffer history")
					case 0: // consume, encode, consume, encode
						_ = step("consume", k, ext, true) && reenc("after a successful consume") && step("consume again", k, ext, true) && reenc("after two consumes")
					case 1: // refused attempts first
						_ = step("wrong key", k2, ext, false) && reenc("after a refused consume") && step("wrong external data", k, append(append([]byte{}, ext...), 1), false) &&
							step("consume", k, ext, true) && reenc("after refused and successful consumes")
					default: // encode first, then twice
						_ = reenc("before any consume") && step("consume", k, ext, true) && step("wrong key", k2, ext, false) && step("consume again", k, ext, true) && reenc("at the end")
					}
					if !bytes.Equal(data, received) {
						c.fail(failure{Op: "real-object", What: "consuming a decoded message changed the bytes it was decoded from", Input: line, Observed: short(fmt.Sprintf("%x", data)), Expected: short(fmt.Sprintf("%x", received)), Case: line})
					}
					// the re-encoded bytes are a message of their own: accepted by a fresh object
					if out, err := obj.MarshalCBOR(); err == nil {
						var seen [][]byte
						got, _, cerr := consumeReal(kind, k, out, ext, &seen)
						c.eval()
						if cerr != nil || !bytes.Equal(got, payload) {
							c.fail(failure{Op: "real-object", What: "the re-encoding of a consumed message is not accepted", Input: line, Observed: short(fmt.Sprintf("err=%v payload=%x", cerr, got)), Expected: fmt.Sprintf("payload=%x", payload), Case: line})
						}
					}
				}
			}
		}
	}
}

func produceReal(kind string, k key.Key, payload, ext []byte) ([]byte, error) {
	switch kind {
	case "KSign1":
		s, e := k.Signer()
		if e != nil {
			return nil, e
		}
		return (&cose.Sign1Message[[]byte]{Payload: payload}).SignAndEncode(s, ext)
	case "KSign":
		s, e := k.Signer()
		if e != nil {
			return nil, e
		}
		return (&cose.SignMessage[[]byte]{Payload: payload}).SignAndEncode(key.Signers{s}, ext)
	case "KMac0":
		s, e := k.MACer()
		if e != nil {
			return nil, e
		}
		return (&cose.Mac0Message[[]byte]{Payload: payload}).ComputeAndEncode(s, ext)
	case "KMac":
		s, e := k.MACer()
		if e != nil {
			return nil, e
		}
		m := &cose.MacMessage[[]byte]{Payload: payload}
		m.AddRecipient(&cose.Recipient{Protected: cose.Headers{}, Unprotected: cose.Headers{iana.HeaderParameterAlg: iana.AlgorithmDirect}, Ciphertext: []byte{}})
		return m.ComputeAndEncode(s, ext)
	case "KEnc0":
		s, e := k.Encryptor()
		if e != nil {
			return nil, e
		}
		return (&cose.Encrypt0Message[[]byte]{Payload: payload}).EncryptAndEncode(s, ext)
	default:
		s, e := k.Encryptor()
		if e != nil {
			return nil, e
		}
		m := &cose.EncryptMessage[[]byte]{Payload: payload}
		m.AddRecipient(&cose.Recipient{Protected: cose.Headers{}, Unprotected: cose.Headers{iana.HeaderParameterAlg: iana.AlgorithmDirect}, Ciphertext: []byte{}})
		return m.EncryptAndEncode(s, ext)
	}
}

// newRealObj returns a fresh message object of the kind and a function that verifies / decrypts it with a key,
// returning the payload the object holds afterwards.
func newRealObj(kind string) (realObj, func(k key.Key, ext []byte) ([]byte, error)) {
	switch kind {
	case "KSign1":
		m := &cose.Sign1Message[[]byte]{}
		return m, func(k key.Key, ext []byte) ([]byte, error) {
			v, e := k.Verifier()
			if e != nil {
				return nil, e
			}
			if e := m.Verify(v, ext); e != nil {
				return nil, e
			}
			return m.Payload, nil
		}
	case "KSign":
		m := &cose.SignMessage[[]byte]{}
		return m, func(k key.Key, ext []byte) ([]byte, error) {
			v, e := k.Verifier()
			if e != nil {
				return nil, e
			}
			if e := m.Verify(key.Verifiers{v}, ext); e != nil {
				return nil, e
			}
			return m.Payload, nil
		}
	case "KMac0":
		m := &cose.Mac0Message[[]byte]{}
		return m, func(k key.Key, ext []byte) ([]byte, error) {
			v, e := k.MACer()
			if e != nil {
				return nil, e
			}
			if e := m.Verify(v, ext); e != nil {
				return nil, e
			}
			return m.Payload, nil
		}
	case "KMac":
		m := &cose.MacMessage[[]byte]{}
		return m, func(k key.Key, ext []byte) ([]byte, error) {
			v, e := k.MACer()
			if e != nil {
				return nil, e
			}
			if e := m.Verify(v, ext); e != nil {
				return nil, e
			}
			return m.Payload, nil
		}
	case "KEnc0":
		m := &cose.Encrypt0Message[[]byte]{}
		return m, func(k key.Key, ext []byte) ([]byte, error) {
			v, e := k.Encryptor()
			if e != nil {
				return nil, e
			}
			if e := m.Decrypt(v, ext); e != nil {
				return nil, e
			}
			return m.Payload, nil
		}
	default:
		m := &cose.EncryptMessage[[]byte]{}
		return m, func(k key.Key, ext []byte) ([]byte, error) {
			v, e := k.Encryptor()
			if e != nil {
				return nil, e
			}
			if e := m.Decrypt(v, ext); e != nil {
				return nil, e
			}
			return m.Payload, nil
		}
	}
}

// ---- C: COSE_Sign written by a peer

// protectedForms returns encodings of a signer's protected bucket {1: alg, ...} that are valid and pairwise different
// as byte strings.
func protectedForms(c *ctx, alg int) [][]byte {
	algItem := func(w int) *citem {
		if alg >= 0 {
			return &citem{kind: 0, n: uint64(alg), width: w}
		}
		return &citem{kind: 1, n: uint64(-1 - alg), width: w}
	}
	one := func(w int) *citem { return &citem{kind: 0, n: 1, width: w} }
	mk := func(m ...[2]*citem) []byte { return (&citem{kind: 5, m: m}).enc(nil) }
	ct := [2]*citem{{kind: 0, n: 3}, {kind: 0, n: 60}}
	crit := [2]*citem{{kind: 3, b: []byte("x")}, {kind: 2, b: c.r.bytes(3)}}
	return [][]byte{
		mk([2]*citem{one(0), algItem(0)}),
		mk([2]*citem{one(0), algItem(2)}),
		mk([2]*citem{one(1), algItem(0)}),
		mk([2]*citem{one(0), algItem(4)}, ct),
		mk(ct, [2]*citem{one(0), algItem(0)}),
		mk([2]*citem{one(0), algItem(0)}, crit),
		mk(crit, [2]*citem{one(2), algItem(8)}),
	}
}

func realPeerMultiSign(c *ctx) {
	n := c.n(24, 200)
	for i := 0; i < n; i++ {
		alg := pick(c.r, []int{-7, -35, -36, -8})
		forms := protectedForms(c, alg)
		nsig := 2 + c.r.intn(2)
		payload := c.r.bytes(pick(c.r, []int{0, 5, 40}))
		ext := c.r.bytes(c.r.intn(4))
		bodyProt := pick(c.r, emptyProtectedForms())
		if c.r.intn(3) == 0 {
			bodyProt = (&citem{kind: 5, m: [][2]*citem{{{kind: 0, n: 3}, {kind: 0, n: 0, width: 1}}}}).enc(nil)
		}
		var verifiers key.Verifiers
		var seen [][]byte
		var want [][]byte
		var sigItems []*citem
		var sps, kids, sigv [][]byte
		ok := true
		// signers use the same algorithm; most of the time distinct protected forms, sometimes the same form twice
		var used []int
		for j := 0; j < nsig; j++ {
			k, err := genKeyFor(alg)
			if err != nil {
				ok = false
				break
			}
			kid := []byte{byte('a' + j)}
			k[iana.KeyParameterKid] = kid
			s, err := k.Signer()
			if err != nil {
				ok = false
				break
			}
			fi := c.r.intn(len(forms))
			if j == 0 && c.r.bool() {
				fi = 0
			}
			used = append(used, fi)
			sp := forms[fi]
			tbs := rfcStructure("Signature", bodyProt, sp, ext, payload, true, true)
			sig, err := s.Sign(tbs)
			if err != nil {
				ok = false
				break
			}
			want = append(want, tbs)
			v, err := k.Verifier()
			if err != nil {
				ok = false
				break
			}
			verifiers = append(verifiers, recVerifier{v, &seen})
			sps, kids, sigv = append(sps, sp), append(kids, kid), append(sigv, sig)
			sigItems = append(sigItems, &citem{kind: 4, l: []*citem{{kind: 2, b: sp}, {kind: 5, m: [][2]*citem{{{kind: 0, n: 4}, {kind: 2, b: kid}}}}, {kind: 2, b: sig}}})
		}
		if !ok {
			continue
		}
		msg := (&citem{kind: 6, n: 98, v: &citem{kind: 4, l: []*citem{{kind: 2, b: bodyProt}, {kind: 5}, {kind: 2, b: payload}, {kind: 4, l: sigItems}}}}).enc(nil)
		line := short(fmt.Sprintf("realseq-peersign|alg=%d|signers=%d|protected forms=%v|%x|ext=%x", alg, nsig, used, msg, ext))
		var m *cose.SignMessage[[]byte]
		var verr error
		p, pm := catch(func() { m, verr = cose.VerifySignMessage[[]byte](verifiers, msg, ext) })
		c.eval()
		c.nontriv(fmt.Sprintf("peersign|%d|%v|%v", alg, used, verr == nil))
		c.count(fmt.Sprintf("peer COSE_Sign signers=%d accepted=%v", nsig, verr == nil && !p))
		if p || verr != nil {
			c.fail(failure{Op: "real-peer-sign", What: "a COSE_Sign message whose signers encoded their protected buckets validly but differently does not verify", Input: line,
				Observed: fmt.Sprintf("panic=%v %s err=%v", p, pm, verr), Expected: "verified", Case: line, Theorem: "C04_sign_verifier_recomputes_from_wire_bytes"})
			continue
		}
		if !bytes.Equal(m.Payload, payload) && len(payload) > 0 {
			c.fail(failure{Op: "real-peer-sign", What: "payload of a verified peer message differs", Input: line, Observed: fmt.Sprintf("%x", m.Payload), Expected: fmt.Sprintf("%x", payload), Case: line})
		}
		if len(seen) != len(want) {
			c.fail(failure{Op: "real-peer-sign", What: "not every signature was handed to its verifier", Input: line, Observed: fmt.Sprint(len(seen)), Expected: fmt.Sprint(len(want)), Case: line})
			continue
		}
		for j := range want {
			if !bytes.Equal(seen[j], want[j]) {
				c.fail(failure{Op: "real-peer-sign", What: fmt.Sprintf("signature %d was verified over bytes other than the Sig_structure of that signer's received protected bytes", j), Input: line,
					Observed: short(fmt.Sprintf("%x", seen[j])), Expected: short(fmt.Sprintf("%x", want[j])), Case: line, Theorem: "C04_sign_verifier_recomputes_from_wire_bytes"})
				break
			}
		}
		// a genuine entry repeated with OTHER protected bytes (another valid encoding of the same map, or a map with one more
		// parameter) under the same kid and the same signature octets, placed after, before or instead of the genuine one: the
		// signature does not cover those bytes, so the message must be refused wherever the entry stands
		{
			j := c.r.intn(nsig)
			var other []byte
			for _, f := range forms {
				if !bytes.Equal(f, sps[j]) {
					other = f
					break
				}
			}
			if other != nil {
				forged := &citem{kind: 4, l: []*citem{{kind: 2, b: other}, {kind: 5, m: [][2]*citem{{{kind: 0, n: 4}, {kind: 2, b: kids[j]}}}}, {kind: 2, b: sigv[j]}}}
				for pos, where := range []string{"appended", "right after the genuine entry", "before the genuine entry", "instead of the genuine entry"} {
					var items []*citem
					switch pos {
					case 0:
						items = append(append(items, sigItems...), forged)
					case 1:
						items = append(append(append(items, sigItems[:j+1]...), forged), sigItems[j+1:]...)
					case 2:
						items = append(append(append(items, sigItems[:j]...), forged), sigItems[j:]...)
					default:
						items = append(append(append(items, sigItems[:j]...), forged), sigItems[j+1:]...)
					}
					fm := (&citem{kind: 6, n: 98, v: &citem{kind: 4, l: []*citem{{kind: 2, b: bodyProt}, {kind: 5}, {kind: 2, b: payload}, {kind: 4, l: items}}}}).enc(nil)
					var ferr error
					fp, _ := catch(func() { _, ferr = cose.VerifySignMessage[[]byte](verifiers, fm, ext) })
					c.eval()
					c.count(fmt.Sprintf("peer COSE_Sign forged entry %s accepted=%v", where, ferr == nil && !fp))
					if ferr == nil && !fp {
						c.fail(failure{Op: "real-peer-sign", What: "a COSE_Sign message verified although it holds an entry whose protected bytes its signature does not cover (" + where + ")",
							Input:    short(fmt.Sprintf("realseq-peersign-forged|alg=%d|signers=%d|entry %d repeated with protected %x instead of %x|%x|ext=%x", alg, nsig, j, other, sps[j], fm, ext)),
							Observed: "verified", Expected: "refused", Case: line, Theorem: "C02_sign_binds"})
					}
				}
			}
		}
	}
}
