package main

import (
	"crypto/aes"
	"encoding/json"
	"fmt"
	"io"
	"math"
	"math/big"
	"runtime"
	"sort"
	"strings"
	"time"

	"github.com/fxamacker/cbor/v2"
	"github.com/ldclabs/cose/cose"
	"github.com/ldclabs/cose/cwt"
	"github.com/ldclabs/cose/iana"
	"github.com/ldclabs/cose/key"
	"github.com/ldclabs/cose/key/aesccm"
	"github.com/ldclabs/cose/key/aesgcm"
	"github.com/ldclabs/cose/key/aesmac"
	"github.com/ldclabs/cose/key/chacha20poly1305"
	"github.com/ldclabs/cose/key/ecdh"
	"github.com/ldclabs/cose/key/ecdsa"
	"github.com/ldclabs/cose/key/ed25519"
	"github.com/ldclabs/cose/key/hkdf"
	"github.com/ldclabs/cose/key/hmac"
)

func init() { streams["nopanic"] = streamNoPanic }

// C07: every decoding, verification, key and crypto entry point returns (a value or an error) on arbitrary input: no
// panic, and time and memory in proportion to the input. Targets are named after the translator's API inventory; the
// names covered are handed to Coq, which checks them against Gen/ApiGen.v.

type byteTarget struct {
	name string
	f    func(b []byte)
}
type keyTarget struct {
	name string
	f    func(k key.Key)
}

func decodeInto[T any](b []byte) { var v T; _ = key.UnmarshalCBOR(b, &v) }

func byteTargets(f fkey) []byteTarget {
	noKid := fkey{k: key.Key{iana.KeyParameterKty: 4}, secret: []byte{2}, nsize: 12}
	vs := key.Verifiers{f, noKid}
	return []byteTarget{
		{"cose.VerifySign1Message", func(b []byte) {
			cose.VerifySign1Message[[]byte](f, b, nil)
			cose.VerifySign1Message[cwt.Claims](f, b, nil)
			cose.VerifySign1Message[any](f, b, nil)
		}},
		{"cose.VerifySignMessage", func(b []byte) {
			cose.VerifySignMessage[[]byte](vs, b, nil)
			cose.VerifySignMessage[cwt.ClaimsMap](vs, b, nil)
		}},
		{"cose.VerifyMac0Message", func(b []byte) {
			cose.VerifyMac0Message[[]byte](f, b, nil)
			cose.VerifyMac0Message[cwt.Claims](f, b, nil)
		}},
		{"cose.VerifyMacMessage", func(b []byte) { cose.VerifyMacMessage[[]byte](f, b, nil); cose.VerifyMacMessage[any](f, b, nil) }},
		{"cose.DecryptEncrypt0Message", func(b []byte) {
			cose.DecryptEncrypt0Message[[]byte](f, b, nil)
			cose.DecryptEncrypt0Message[cwt.Claims](f, b, nil)
		}},
		{"cose.DecryptEncryptMessage", func(b []byte) {
			cose.DecryptEncryptMessage[[]byte](f, b, nil)
			cose.DecryptEncryptMessage[any](f, b, nil)
		}},
		{"cose.Sign1Message_UnmarshalCBOR", func(b []byte) {
			m := &cose.Sign1Message[[]byte]{}
			if m.UnmarshalCBOR(b) == nil {
				m.Verify(f, nil)
				m.MarshalCBOR()
				m.Bytesify()
				m.Signature()
			}
		}},
		{"cose.Sign1Message_Verify", func(b []byte) { m := &cose.Sign1Message[cbor.RawMessage]{}; m.UnmarshalCBOR(b); m.Verify(f, b) }},
		{"cose.SignMessage_UnmarshalCBOR", func(b []byte) {
			m := &cose.SignMessage[[]byte]{}
			if m.UnmarshalCBOR(b) == nil {
				m.Verify(vs, nil)
				m.MarshalCBOR()
				for _, s := range m.Signatures() {
					s.Kid()
					s.MarshalCBOR()
				}
			}
		}},
		{"cose.SignMessage_Verify", func(b []byte) {
			m := &cose.SignMessage[any]{}
			m.UnmarshalCBOR(b)
			m.Verify(vs, nil)
			m.Verify(nil, nil)
		}},
		{"cose.Mac0Message_UnmarshalCBOR", func(b []byte) {
			m := &cose.Mac0Message[[]byte]{}
			if m.UnmarshalCBOR(b) == nil {
				m.Verify(f, nil)
				m.MarshalCBOR()
				m.Tag()
			}
		}},
		{"cose.Mac0Message_Verify", func(b []byte) { m := &cose.Mac0Message[cwt.Claims]{}; m.UnmarshalCBOR(b); m.Verify(f, nil) }},
		{"cose.MacMessage_UnmarshalCBOR", func(b []byte) {
			m := &cose.MacMessage[[]byte]{}
			if m.UnmarshalCBOR(b) == nil {
				m.Verify(f, nil)
				m.MarshalCBOR()
				for _, r := range m.Recipients() {
					r.MarshalCBOR()
					r.Recipients()
				}
			}
		}},
		{"cose.MacMessage_Verify", func(b []byte) { m := &cose.MacMessage[any]{}; m.UnmarshalCBOR(b); m.Verify(f, nil) }},
		{"cose.Encrypt0Message_UnmarshalCBOR", func(b []byte) {
			m := &cose.Encrypt0Message[[]byte]{}
			if m.UnmarshalCBOR(b) == nil {
				m.Decrypt(f, nil)
				m.MarshalCBOR()
			}
		}},
		{"cose.Encrypt0Message_Decrypt", func(b []byte) { m := &cose.Encrypt0Message[cwt.Claims]{}; m.UnmarshalCBOR(b); m.Decrypt(f, nil) }},
		{"cose.EncryptMessage_UnmarshalCBOR", func(b []byte) {
			m := &cose.EncryptMessage[[]byte]{}
			if m.UnmarshalCBOR(b) == nil {
				m.Decrypt(f, nil)
				m.MarshalCBOR()
			}
		}},
		{"cose.EncryptMessage_Decrypt", func(b []byte) { m := &cose.EncryptMessage[any]{}; m.UnmarshalCBOR(b); m.Decrypt(f, nil) }},
		{"cose.Signature_UnmarshalCBOR", func(b []byte) {
			s := &cose.Signature{}
			s.UnmarshalCBOR(b)
			s.Kid()
			s.MarshalCBOR()
			decodeInto[cose.Signature](b)
		}},
		{"cose.Recipient_UnmarshalCBOR", func(b []byte) {
			r := &cose.Recipient{}
			r.UnmarshalCBOR(b)
			r.MarshalCBOR()
			decodeInto[cose.Recipient](b)
		}},
		{"cose.KDFContext_UnmarshalCBOR", func(b []byte) {
			k := &cose.KDFContext{}
			k.UnmarshalCBOR(b)
			k.MarshalCBOR()
			decodeInto[cose.KDFContext](b)
		}},
		{"cose.SuppPubInfo_UnmarshalCBOR", func(b []byte) {
			k := &cose.SuppPubInfo{}
			k.UnmarshalCBOR(b)
			k.MarshalCBOR()
			decodeInto[cose.SuppPubInfo](b)
		}},
		{"cose.Headers_UnmarshalCBOR", func(b []byte) { h := cose.Headers{}; h.UnmarshalCBOR(b); accessAll(key.CoseMap(h)) }},
		{"cose.HeadersFromBytes", func(b []byte) { h, _ := cose.HeadersFromBytes(b); accessAll(key.CoseMap(h)) }},
		{"cose.RemoveCBORTag", func(b []byte) { cose.RemoveCBORTag(b) }},
		{"cwt.ClaimsMap_UnmarshalCBOR", func(b []byte) {
			m := cwt.ClaimsMap{}
			if m.UnmarshalCBOR(b) == nil {
				accessAll(key.CoseMap(m))
				if v, err := cwt.NewValidator(&cwt.ValidatorOpts{ExpectedIssuer: "x", ExpectedAudience: "y"}); err == nil {
					v.ValidateMap(m)
				}
			}
		}},
		{"cwt.Claims_UnmarshalCBOR", func(b []byte) {
			cl := &cwt.Claims{Issuer: "stale", CWTID: []byte{1, 2, 3}}
			// (called through an interface: the harness also builds against trees in which the method does not exist)
			dec := func(b []byte) error { return key.UnmarshalCBOR(b, cl) }
			if u, ok := any(cl).(interface{ UnmarshalCBOR([]byte) error }); ok {
				dec = u.UnmarshalCBOR
			}
			if dec(b) == nil {
				cl.Bytesify()
				key.MarshalCBOR(cl)
			}
			var nilc *cwt.Claims
			_ = nilc
			decodeInto[cwt.Claims](b)
		}},
		{"cwt.Validator_Validate", func(b []byte) {
			var cl cwt.Claims
			if key.UnmarshalCBOR(b, &cl) == nil {
				if v, err := cwt.NewValidator(&cwt.ValidatorOpts{}); err == nil {
					v.Validate(&cl)
				}
			}
		}},
		{"cwt.Validator_ValidateMap", func(b []byte) {
			var m cwt.ClaimsMap
			if key.UnmarshalCBOR(b, &m) == nil {
				for _, o := range []cwt.ValidatorOpts{{ExpectedIssuer: "iss"}, {}, {AllowMissingExpiration: true}, {AllowMissingExpiration: true, ClockSkew: time.Second},
					{ExpectedIssuer: "iss", ExpectedAudience: "aud"}, {ExpectedAudience: "aud", AllowMissingExpiration: true, ExpectIssuedInThePast: true}, {ExpectedIssuer: "iss", AllowMissingExpiration: true, ExpectIssuedInThePast: true, ClockSkew: -time.Second}} {
					o := o
					if v, err := cwt.NewValidator(&o); err == nil {
						v.ValidateMap(m)
					}
				}
			}
		}},
		{"key.CoseMap_UnmarshalCBOR", func(b []byte) { m := key.CoseMap{}; m.UnmarshalCBOR(b); accessAll(m) }},
		{"key.CoseMap_UnmarshalJSON", func(b []byte) { m := key.CoseMap{}; m.UnmarshalJSON(b); json.Unmarshal(b, &m) }},
		{"key.CoseMap_UnmarshalText", func(b []byte) { m := key.CoseMap{}; m.UnmarshalText(b) }},
		{"key.Key_UnmarshalCBOR", func(b []byte) {
			k := key.Key{}
			if k.UnmarshalCBOR(b) == nil {
				useKey(k)
			}
		}},
		{"key.Key_UnmarshalJSON", func(b []byte) { k := key.Key{}; k.UnmarshalJSON(b) }},
		{"key.Key_UnmarshalText", func(b []byte) { k := key.Key{}; k.UnmarshalText(b) }},
		{"key.ByteStr_UnmarshalJSON", func(b []byte) { var s key.ByteStr; s.UnmarshalJSON(b); json.Unmarshal(b, &s) }},
		{"key.ByteStr_UnmarshalText", func(b []byte) { var s key.ByteStr; s.UnmarshalText(b) }},
		{"key.UnmarshalCBOR", func(b []byte) {
			decodeInto[any](b)
			decodeInto[key.KeySet](b)
			decodeInto[cwt.Claims](b)
			decodeInto[map[int]any](b)
			decodeInto[[]byte](b)
		}},
		{"key.ValidCBOR", func(b []byte) { key.ValidCBOR(b) }},
		{"key.KeySet_Signers", func(b []byte) {
			var ks key.KeySet
			if key.UnmarshalCBOR(b, &ks) == nil {
				ks.Signers()
				ks.Verifiers()
				ks.Lookup(b)
			}
		}},
		{"key.KeySet_Verifiers", func(b []byte) {
			var ks key.KeySet
			if key.UnmarshalCBOR(b, &ks) == nil {
				ks.Verifiers()
			}
		}},
		{"key.Base64Bytesify", func(b []byte) { key.Base64Bytesify(string(b)) }},
		{"key.HexBytesify", func(b []byte) { key.HexBytesify(string(b)) }},
		{"key/ecdsa.DecodeSignature", func(b []byte) {
			for _, a := range sigAlgs {
				ecdsa.DecodeSignature(a.curve, b)
			}
		}},
		{"key/ecdsa.EncodeSignature", func(b []byte) {
			for _, a := range sigAlgs {
				ecdsa.EncodeSignature(a.curve, new(big.Int).SetBytes(b), big.NewInt(int64(len(b))-3))
			}
		}},
		{"key/ed25519.KeyFromSeed", func(b []byte) { ed25519.KeyFromSeed(b) }},
		{"key/ed25519.KeyFromPrivate", func(b []byte) { ed25519.KeyFromPrivate(b) }},
		{"key/ed25519.KeyFromPublic", func(b []byte) { ed25519.KeyFromPublic(b) }},
		{"key/hmac.KeyFrom", func(b []byte) { hmac.KeyFrom(5, b); hmac.KeyFrom(len(b), b) }},
		{"key/aesmac.KeyFrom", func(b []byte) { aesmac.KeyFrom(14, b); aesmac.KeyFrom(len(b), b) }},
		{"key/aesgcm.KeyFrom", func(b []byte) { aesgcm.KeyFrom(1, b); aesgcm.KeyFrom(len(b), b) }},
		{"key/aesccm.KeyFrom", func(b []byte) { aesccm.KeyFrom(10, b); aesccm.KeyFrom(len(b), b) }},
		{"key/chacha20poly1305.KeyFrom", func(b []byte) { chacha20poly1305.KeyFrom(b) }},
		{"key/hkdf.HKDF256", func(b []byte) { hkdf.HKDF256(b, b, b, len(b)%70); hkdf.HKDF256(nil, nil, nil, 8161) }},
		{"key/hkdf.HKDF512", func(b []byte) { hkdf.HKDF512(b, nil, b, len(b)%130); hkdf.HKDF512(b, b, nil, 16321) }},
		{"key/hkdf.HKDFAES", func(b []byte) { hkdf.HKDFAES(b, b, 16); hkdf.HKDFAES(make([]byte, 16), b, len(b)%5000) }},
		{"key/hkdf.NewAES", func(b []byte) {
			if blk, err := aes.NewCipher(make([]byte, 16)); err == nil {
				io.ReadFull(hkdf.NewAES(blk, b), make([]byte, len(b)%100))
			}
		}},
		{"key.ComputeHash", func(b []byte) { key.ComputeHash(0, b); key.ComputeHash(5, b) }},
	}
}

func accessAll(m key.CoseMap) {
	if m == nil {
		return
	}
	for l := range m {
		m.Has(l)
		m.Get(l)
		m.GetBool(l)
		m.GetInt(l)
		m.GetInt64(l)
		m.GetUint64(l)
		m.GetBytes(l)
		m.GetString(l)
		m.GetMap(l)
		key.ToInt(m.Get(l))
	}
	for _, l := range []any{1, 3, 4, 5, 6, -1, "x"} {
		m.GetInt(l)
		m.GetBytes(l)
		cose.Headers(m).GetInt(l)
		cose.Headers(m).GetBytes(l)
		cose.Headers(m).GetBool(l)
		cose.Headers(m).GetInt64(l)
		cose.Headers(m).GetUint64(l)
		cose.Headers(m).GetString(l)
		cose.Headers(m).GetMap(l)
		cose.Headers(m).Get(l)
		cose.Headers(m).Has(l)
		cwt.ClaimsMap(m).GetInt(l)
		cwt.ClaimsMap(m).GetBytes(l)
		cwt.ClaimsMap(m).GetBool(l)
		cwt.ClaimsMap(m).GetInt64(l)
		cwt.ClaimsMap(m).GetUint64(l)
		cwt.ClaimsMap(m).GetString(l)
		cwt.ClaimsMap(m).GetMap(l)
		cwt.ClaimsMap(m).Get(l)
		cwt.ClaimsMap(m).Has(l)
	}
}

// useKey drives every key-to-implementation and key-conversion entry point with one key
func useKey(k key.Key) {
	if k == nil {
		return
	}
	accessAll(key.CoseMap(k))
	for l := range k {
		k.Has(l)
		k.Get(l)
		k.GetBool(l)
		k.GetInt(l)
		k.GetInt64(l)
		k.GetUint64(l)
		k.GetBytes(l)
		k.GetString(l)
	}
	k.Kty()
	k.Kid()
	k.Alg()
	k.Alg().HashFunc()
	k.Ops()
	k.Ops().Has(1)
	k.Ops().EmptyOrHas(2)
	k.BaseIV()
	data := []byte("data")
	if s, err := k.Signer(); err == nil {
		if sig, err := s.Sign(data); err == nil {
			if v, err := k.Verifier(); err == nil {
				v.Verify(data, sig)
			}
		}
		s.Key()
	}
	if v, err := k.Verifier(); err == nil {
		v.Verify(data, nil)
		v.Verify(nil, data)
		v.Key()
	}
	if m, err := k.MACer(); err == nil {
		m.MACCreate(nil)
		tag, _ := m.MACCreate(data)
		m.MACVerify(data, tag)
		m.MACVerify(data, nil)
		m.MACVerify(nil, data)
	}
	if e, err := k.Encryptor(); err == nil {
		for _, n := range []int{0, 1, 7, 12, 13, 16, 24} {
			e.Encrypt(make([]byte, n), data, nil)
			e.Decrypt(make([]byte, n), data, data)
		}
		nonce := make([]byte, e.NonceSize())
		if ct, err := e.Encrypt(nonce, nil, nil); err == nil {
			e.Decrypt(nonce, ct, nil)
			e.Decrypt(nonce, ct[:len(ct)/2], nil)
		}
		e.Decrypt(nonce, nil, nil)
	}
	hmac.CheckKey(k)
	hmac.New(k)
	aesmac.CheckKey(k)
	aesmac.New(k)
	aesgcm.CheckKey(k)
	aesgcm.New(k)
	aesccm.CheckKey(k)
	aesccm.New(k)
	chacha20poly1305.CheckKey(k)
	chacha20poly1305.New(k)
	ed25519.CheckKey(k)
	ed25519.NewSigner(k)
	ed25519.NewVerifier(k)
	ed25519.KeyToPrivate(k)
	ed25519.KeyToPublic(k)
	ed25519.ToPublicKey(k)
	ecdsa.CheckKey(k)
	ecdsa.NewSigner(k)
	ecdsa.NewVerifier(k)
	ecdsa.KeyToPrivate(k)
	ecdsa.KeyToPublic(k)
	ecdsa.ToPublicKey(k)
	ecdsa.ToCompressedKey(k)
	ecdh.CheckKey(k)
	ecdh.KeyToPrivate(k)
	ecdh.KeyToPublic(k)
	ecdh.ToPublicKey(k)
	ecdh.ToCompressedKey(k)
	if e, err := ecdh.NewECDHer(k); err == nil {
		e.ECDH(k)
		e.ECDH(key.Key{})
		e.Key()
	}
	if local, err := ecdh.GenerateKey(1); err == nil {
		if e, err := ecdh.NewECDHer(local); err == nil {
			e.ECDH(k)
		}
	}
	key.KeySet{k}.Signers()
	key.KeySet{k}.Verifiers()
	key.KeySet{k, nil}.Lookup(nil)
}

var keyTargetNames = []string{"key.Key_Signer", "key.Key_Verifier", "key.Key_MACer", "key.Key_Encryptor", "key.Key_Kty", "key.Key_Kid", "key.Key_Alg", "key.Key_Ops", "key.Key_BaseIV",
	"key.Key_Get", "key.Key_GetBool", "key.Key_GetBytes", "key.Key_GetInt", "key.Key_GetInt64", "key.Key_GetString", "key.Key_GetUint64", "key.Key_Has", "key.Alg_HashFunc", "key.Ops_Has", "key.Ops_EmptyOrHas",
	"key.CoseMap_Get", "key.CoseMap_GetBool", "key.CoseMap_GetBytes", "key.CoseMap_GetInt", "key.CoseMap_GetInt64", "key.CoseMap_GetMap", "key.CoseMap_GetString", "key.CoseMap_GetUint64", "key.CoseMap_Has", "key.ToInt",
	"cose.Headers_Get", "cose.Headers_GetBool", "cose.Headers_GetBytes", "cose.Headers_GetInt", "cose.Headers_GetInt64", "cose.Headers_GetMap", "cose.Headers_GetString", "cose.Headers_GetUint64", "cose.Headers_Has",
	"cwt.ClaimsMap_Get", "cwt.ClaimsMap_GetBool", "cwt.ClaimsMap_GetBytes", "cwt.ClaimsMap_GetInt", "cwt.ClaimsMap_GetInt64", "cwt.ClaimsMap_GetMap", "cwt.ClaimsMap_GetString", "cwt.ClaimsMap_GetUint64", "cwt.ClaimsMap_Has",
	"key/hmac.CheckKey", "key/hmac.New", "key/aesmac.CheckKey", "key/aesmac.New", "key/aesgcm.CheckKey", "key/aesgcm.New", "key/aesccm.CheckKey", "key/aesccm.New", "key/chacha20poly1305.CheckKey", "key/chacha20poly1305.New",
	"key/ed25519.CheckKey", "key/ed25519.NewSigner", "key/ed25519.NewVerifier", "key/ed25519.KeyToPrivate", "key/ed25519.KeyToPublic", "key/ed25519.ToPublicKey",
	"key/ecdsa.CheckKey", "key/ecdsa.NewSigner", "key/ecdsa.NewVerifier", "key/ecdsa.KeyToPrivate", "key/ecdsa.KeyToPublic", "key/ecdsa.ToPublicKey", "key/ecdsa.ToCompressedKey",
	"key/ecdh.CheckKey", "key/ecdh.KeyToPrivate", "key/ecdh.KeyToPublic", "key/ecdh.ToPublicKey", "key/ecdh.ToCompressedKey", "key/ecdh.NewECDHer", "key/ecdh.ECDHer_ECDH", "key/ecdh.ECDHer_Key",
	"key.KeySet_Lookup", "key.Signers_KeySet", "key.Signers_Lookup", "key.Verifiers_KeySet", "key.Verifiers_Lookup", "cose.Signature_Kid", "cwt.NewValidator", "key/aesccm.NewCCM", "key/aesccm.MaxNonceLength"}

func oddValues(c *ctx) []any {
	return []any{nil, "", "text", -1, 0, 1 << 40, uint64(1) << 63, []byte{}, []byte{0}, c.r.bytes(1), c.r.bytes(16), c.r.bytes(32), c.r.bytes(33), c.r.bytes(66), c.r.bytes(67), c.r.bytes(200), true, false, 3.14,
		c.r.bytes(31), c.r.bytes(48), c.r.bytes(64), c.r.bytes(65), c.r.bytes(96), c.r.bytes(128), c.r.bytes(132), math.NaN(), math.Inf(1), math.Inf(-1), float32(math.NaN()), -0.0, 1e300,
		[]any{}, []any{1, "x"}, []any{nil}, map[any]any{}, map[any]any{1: nil}, key.Ops{}, key.Ops(nil), key.Ops{1, 2, 3, 4, 5, 6, 7, 8, 9, 10, 11}, []int{1, 2}, []int64{1}, key.ByteStr(nil), key.Alg(-7),
		cbor.Tag{Number: 2, Content: []byte{1}}, int8(4), uint8(1), float32(1), struct{}{}, &struct{}{}, key.Key{}, (*big.Int)(nil), big.NewInt(5)}
}

func streamNoPanic(c *ctx) {
	c.beginCases("From Cose Require Import Model.NoPanic.", "np_case", "check_np_case")
	f := fkey{k: key.Key{iana.KeyParameterKty: 4, iana.KeyParameterKid: []byte("k")}, secret: []byte{1}, nsize: 12}
	targets := byteTargets(f)
	var ms runtime.MemStats
	run := func(name string, input string, inLen int, fn func()) {
		runtime.ReadMemStats(&ms)
		before := ms.TotalAlloc
		t0 := time.Now()
		p, pm := catch(fn)
		dt := time.Since(t0)
		runtime.ReadMemStats(&ms)
		alloc := ms.TotalAlloc - before
		c.eval()
		if p {
			c.fail(failure{Op: "panic", What: "an entry point panics", Input: name + "|" + short(input), Observed: "panic: " + pm, Expected: "a value or an error", Case: name})
			return
		}
		// proportionality: generous constants, so that only a blow-up (hostile counts, quadratic loops) is reported
		if alloc > uint64(64<<20)+uint64(inLen)*4096 || dt > 5*time.Second {
			c.fail(failure{Op: "resources", What: "an entry point takes time or memory out of proportion to its input", Input: name + "|" + short(input), Observed: fmt.Sprintf("%d bytes allocated, %v", alloc, dt), Expected: "proportional to the input", Case: name})
		}
	}
	// ---- byte inputs
	var inputs [][]byte
	add := func(b []byte, err error) {
		if err == nil {
			inputs = append(inputs, b)
		}
	}
	payload := []byte("payload")
	add((&cose.Sign1Message[[]byte]{Payload: payload}).SignAndEncode(f, nil))
	add((&cose.Mac0Message[[]byte]{Payload: payload}).ComputeAndEncode(f, nil))
	add((&cose.Encrypt0Message[[]byte]{Payload: payload}).EncryptAndEncode(f, nil))
	add((&cose.SignMessage[[]byte]{Payload: payload}).SignAndEncode(key.Signers{f}, nil))
	mm := &cose.MacMessage[[]byte]{Payload: payload}
	r1 := &cose.Recipient{Ciphertext: []byte{1}}
	r1.AddRecipient(&cose.Recipient{})
	mm.AddRecipient(r1)
	add(mm.ComputeAndEncode(f, nil))
	em := &cose.EncryptMessage[[]byte]{Payload: payload}
	em.AddRecipient(&cose.Recipient{Unprotected: cose.Headers{1: -6}})
	add(em.EncryptAndEncode(f, nil))
	add(key.MarshalCBOR(cwt.Claims{Issuer: "i", Expiration: 1 << 40, CWTID: []byte{1}}))
	add(key.MarshalCBOR(cose.KDFContext{AlgorithmID: -3, SuppPubInfo: cose.SuppPubInfo{KeyDataLength: 128, Protected: cose.Headers{1: -29}}, SuppPrivInfo: []byte{}}))
	add(r1.MarshalCBOR())
	var ks key.KeySet
	for _, a := range allAlgs {
		if k, err := genKeyFor(a.alg); err == nil {
			add(key.MarshalCBOR(k))
			ks = append(ks, k)
		}
	}
	for _, crv := range []int{1, 2, 3, 4} {
		if k, err := ecdh.GenerateKey(crv); err == nil {
			add(key.MarshalCBOR(k))
		}
	}
	add(key.MarshalCBOR(ks))
	base := len(inputs)
	for i := 0; i < base; i++ {
		for j := 0; j < c.n(6, 120); j++ {
			m, _ := mutate(c, inputs[i])
			inputs = append(inputs, m)
		}
	}
	// well-formed CBOR of odd shapes: null and odd-typed members everywhere
	for _, h := range []string{"", "f6", "80", "a0", "84f6f6f6f6", "83f6f6f6", "85f6f6f6f6f6", "8440a0f6f6", "8440a0f680", "8440a0f681f6", "8440a0f68183f6f6f6", "8440a04081f6", "8540a0404081f6", "8540a0404080",
		"8540a04040818440a0f681f6", "8540a04040818440a0f6818440a0f68183f6f6f6", "8340a0f6", "8340f640", "84a0a0a0a0", "8401020304", "84f5f5f5f5", "d28440a0f6f6", "d8628440a0f6f6", "d83dd28440a04040", "d18440a0f6f6",
		"a101f6", "a103f6", "a104f6", "a105f6", "a106f6", "a1016161", "a201010101", "a10182", "a1f600", "a1800000", "a101a101a101a101f6", "a4010203f604f620f6", "a301f620f621f6", "a5010220012158f6225820",
		"a5010220f62140224023f6", "a401022001215820" + strings.Repeat("00", 32) + "22f5", "a301012006214100", "a3010120062158" + "21" + strings.Repeat("ff", 33),
		"8402f6f6f6", "8422f6f6f6", "83f64040", "82f6f6", "8218804100", "8318804100f6", "81a0", "9a00020001", "ba00020001", "5b8000000000000000", "9bffffffffffffffff", "c2", "c240", "c1f6", "d9d9f7f6", "d9d9f7d9d9f780",
		strings.Repeat("81", 40) + "00", strings.Repeat("a100", 40) + "00", strings.Repeat("d8ff", 40) + "00", "7f6161ff", "9f01ff", "bf0102ff", "5f4100ff", "fb7ff8000000000000", "f97e00", "1bffffffffffffffff", "3bffffffffffffffff",
		"a11bffffffffffffffff00", "a13bffffffffffffffff00", "a1fb000000000000000000",
		// claim sets and header maps with floats that are not numbers, infinite, negative zero, huge, under the time claims and alg
		"a104f97e00", "a105f97e00", "a106f97e00", "a104fb7ff8000000000000", "a204f97c00051a00010000", "a104f9fc00", "a105fa7fc00000", "a106fb7ff0000000000000", "a104f98000", "a104fb7e37e43c8800759c",
		"a304f97e0005f97e0006f97e00", "a2041a7fffffff05f97e00", "a2041a7fffffff06fb7ff8000000000000", "a101f97e00", "a104c249010000000000000000", "a105c349010000000000000000", "8440a0f6" + "5a00ffffff", "8440a0f6" + "5affffffff00"} {
		inputs = append(inputs, key.HexBytesify(h))
	}
	// claim sets in which one claim (iss, sub, aud, exp, nbf, iat, cti) holds a value of every kind: arrays whose members
	// are null / integers / byte strings / maps / arrays before or after a text member, maps, tags, booleans ...; the
	// other claims valid, so that the validators reach the claim
	for _, lab := range []string{"01", "02", "03", "04", "05", "06", "07"} {
		for _, v := range []string{"80", "81f6", "82f663617564", "826361756401", "8163617564", "82016369737383", "8140", "81a0", "8180", "82a0636973", "a0", "a10101", "f6", "f5", "40", "4101", "00", "20", "c101", "c074323032302d30312d30315430303a30303a30305a", "d8184101", "6369737363617564", "fb3ff8000000000000"} {
			rest := ""
			n := 1
			for _, o := range [][2]string{{"01", "63697373"}, {"03", "63617564"}, {"04", "1b00000004a817c800"}} {
				if o[0] != lab {
					rest += o[0] + o[1]
					n++
				}
			}
			inputs = append(inputs, key.HexBytesify(fmt.Sprintf("a%d", n)+lab+v+rest), key.HexBytesify("a1"+lab+v))
		}
	}
	// nested map values whose keys are anything CBOR allows (null, booleans, byte strings, floats, bignums, tagged and
	// huge integers), under every label an accessor might be asked for, bare and inside the buckets of a message
	for _, lab := range []string{"01", "03", "04", "05", "06", "07", "1821", "20", "6178"} {
		for _, k := range []string{"f6", "f7", "f5", "40", "4101", "fb3ff0000000000000", "f97e00", "c24101", "c34100", "d86401", "1bffffffffffffffff", "3bffffffffffffffff", "1a80000000", "60", "6161"} {
			nested := "a1" + lab + "a1" + k + "01"
			inputs = append(inputs, key.HexBytesify(nested), key.HexBytesify("a1"+lab+"a201"+"a1"+k+"f6"+k[:0]+"0203"),
				key.HexBytesify("8440"+nested+"f6f6"), key.HexBytesify("84"+fmt.Sprintf("%02x", 0x40+len(nested)/2)+nested+"a0f6f6"), key.HexBytesify("8340"+nested+"40"),
				key.HexBytesify("8540"+nested+"404080"), key.HexBytesify("81"+nested))
		}
	}
	for i := 0; i < c.n(150, 3000); i++ {
		inputs = append(inputs, genItem(c, 3, false).enc(nil))
		inputs = append(inputs, c.r.bytes(c.r.intn(40)))
	}
	// text inputs for the JSON / text decoders
	for _, s := range []string{"", `"`, `""`, `"00"`, `"zz"`, `h'00'`, `{}`, `{"1":2}`, `[`, `null`, `"` + strings.Repeat("ab", 100) + `"`, "a", "\xff"} {
		inputs = append(inputs, []byte(s))
	}
	var covered []string
	for _, t := range targets {
		covered = append(covered, t.name)
		for _, in := range inputs {
			in := in
			run(t.name, fmt.Sprintf("%x", in), len(in), func() { t.f(append([]byte{}, in...)) })
		}
		c.nontriv("target|" + t.name)
	}
	c.count(fmt.Sprintf("byte targets=%d inputs=%d", len(targets), len(inputs)))
	// ---- key inputs: valid keys of every type with each member replaced by odd values or dropped, and odd maps
	var keys []key.Key
	for _, a := range allAlgs {
		if k, err := genKeyFor(a.alg); err == nil {
			keys = append(keys, k)
		}
	}
	for _, crv := range []int{1, 2, 3, 4} {
		if k, err := ecdh.GenerateKey(crv); err == nil {
			keys = append(keys, k)
			if pk, err := ecdh.ToPublicKey(k); err == nil {
				keys = append(keys, pk)
				if ck, err := ecdh.ToCompressedKey(pk); err == nil {
					keys = append(keys, ck)
				}
			}
		}
	}
	// the public forms of the signature keys
	for _, a := range []int{-7, -35, -36, -8} {
		if k, err := genKeyFor(a); err == nil {
			if v, err := k.Verifier(); err == nil {
				keys = append(keys, v.Key())
			}
			if a != -8 {
				if ck, err := ecdsa.ToCompressedKey(k); err == nil {
					keys = append(keys, ck)
				}
			}
		}
	}
	nk := len(keys)
	for i := 0; i < nk; i++ {
		var labels []any
		for l := range keys[i] {
			labels = append(labels, l)
		}
		sort.Slice(labels, func(a, b int) bool { return fmt.Sprint(labels[a]) < fmt.Sprint(labels[b]) })
		labels = append(labels, iana.KeyParameterKeyOps, iana.KeyParameterBaseIV, iana.EC2KeyParameterY, iana.EC2KeyParameterD, "extra")
		for _, l := range labels {
			odd := oddValues(c)
			picks := c.n(8, len(odd))
			for j := 0; j < picks; j++ {
				v := odd[(j*7+c.r.intn(len(odd)))%len(odd)]
				if j < 4 { // always: nil, the empty string, the empty byte string, a one-byte string
					v = []any{nil, "", []byte{}, []byte{0}}[j]
				}
				k2 := cloneKey(keys[i])
				k2[l] = v
				keys = append(keys, k2)
			}
			k3 := cloneKey(keys[i])
			delete(k3, l)
			keys = append(keys, k3)
			// byte-string members (scalars, coordinates, symmetric keys, Base IV): every length that is the size of some
			// key, scalar, seed, expanded key or coordinate anywhere, and their neighbours
			if li, ok := l.(int); ok && li < 0 || l == iana.KeyParameterBaseIV {
				for _, n := range []int{15, 16, 17, 24, 31, 32, 33, 47, 48, 49, 56, 57, 63, 64, 65, 66, 67, 96, 128, 132, 133} {
					k4 := cloneKey(keys[i])
					k4[l] = c.r.bytes(n)
					keys = append(keys, k4)
				}
			}
		}
	}
	// every curve number (those of the other families included) with the algorithm absent or naming any signature /
	// key-agreement algorithm, on each key that has a curve: the constructors of every family get all of them
	for i := 0; i < nk; i++ {
		if !keys[i].Has(iana.EC2KeyParameterCrv) {
			continue
		}
		for crv := 0; crv <= 9; crv++ {
			for _, av := range []any{nil, -7, -35, -36, -8, -47, -25, 1} {
				k2 := cloneKey(keys[i])
				k2[iana.EC2KeyParameterCrv] = crv
				if av == nil {
					delete(k2, iana.KeyParameterAlg)
				} else {
					k2[iana.KeyParameterAlg] = av
				}
				keys = append(keys, k2)
				if crv >= 6 && av == nil { // and with the other key type
					k3 := cloneKey(k2)
					k3[iana.KeyParameterKty] = 3 - toIntOr(k3[iana.KeyParameterKty], 1)
					keys = append(keys, k3)
				}
			}
		}
	}
	// key_ops lists with members of every kind (byte strings, arrays, maps, floats ... among or instead of integers)
	for i := 0; i < nk; i++ {
		for _, l := range [][]any{{[]byte{9}}, {9, []any{}}, {map[any]any{}, 1}, {1, []byte{}}, {[]any{1}}, {1.5, 2}, {"1", 1}, {nil, 1}, {true}, {int64(1), uint64(2), []byte("x")}, {cbor.Tag{Number: 2, Content: []byte{1}}}} {
			k2 := cloneKey(keys[i])
			k2[iana.KeyParameterKeyOps] = l
			keys = append(keys, k2)
			if b, err := key.MarshalCBOR(k2); err == nil { // and as it arrives from CBOR
				var k3 key.Key
				if key.UnmarshalCBOR(b, &k3) == nil {
					keys = append(keys, k3)
				}
			}
		}
	}
	keys = append(keys, key.Key{}, key.Key{1: nil}, key.Key{"1": 4}, key.Key{int64(1): 4, 3: 5}, key.Key{1: 4, -1: nil}, key.Key{1: 2, -1: 1, -2: nil, -3: nil}, key.Key{1: 1, -1: 6, -4: nil})
	for _, k := range keys {
		k := k
		run("key-entry-points", describe(k), 64, func() { useKey(k) })
	}
	covered = append(covered, keyTargetNames...)
	c.count(fmt.Sprintf("key inputs=%d", len(keys)))
	c.nontriv("keys")
	// ---- primitive operations with arguments of any length
	lens := []int{0, 1, 15, 16, 17, 31, 32, 33, 255, 4096}
	if c.thorough() {
		lens = append(lens, 65535, 65536, 70000)
	}
	for _, a := range allAlgs {
		k, err := genKeyFor(a.alg)
		if err != nil {
			continue
		}
		algLens := lens
		if (a.alg >= 10 && a.alg <= 13) || (a.alg >= 30 && a.alg <= 33) {
			algLens = append(append([]int{}, lens...), 65535, 65536) // around the CCM message-length limit
		}
		for _, n := range algLens {
			data := c.r.bytes(n)
			name := fmt.Sprintf("primitive alg=%d len=%d", a.alg, n)
			run(name, "", n, func() {
				if s, err := k.Signer(); err == nil {
					sig, _ := s.Sign(data)
					if v, err := k.Verifier(); err == nil {
						v.Verify(data, sig)
						v.Verify(data, data)
						v.Verify(sig, data)
					}
				}
				if m, err := k.MACer(); err == nil {
					tag, _ := m.MACCreate(data)
					m.MACVerify(data, tag)
					m.MACVerify(data, data)
					m.MACVerify(tag, data)
				}
				if e, err := k.Encryptor(); err == nil {
					nonce := make([]byte, e.NonceSize())
					ct, _ := e.Encrypt(nonce, data, data)
					e.Decrypt(nonce, ct, data)
					e.Decrypt(nonce, data, ct)
					e.Decrypt(data, ct, nonce)
					e.Encrypt(data, nonce, ct)
				}
			})
		}
	}
	c.nontriv("primitives")
	// Base IV of any length with a Partial IV, through the real AEADs and the message layer
	for _, alg := range []int{1, 3, 10, 12, 30, 24} {
		for _, bl := range []int{0, 1, 6, 7, 8, 12, 13, 14, 16, 20, 64} {
			for _, pl := range []int{1, 2, 6, 7, 11, 12, 13, 16} {
				k, err := genKeyFor(alg)
				if err != nil {
					continue
				}
				if bl > 0 {
					k[iana.KeyParameterBaseIV] = c.r.bytes(bl)
				}
				piv := c.r.bytes(pl)
				run(fmt.Sprintf("partial-iv alg=%d base=%d partial=%d", alg, bl, pl), describe(k), 64, func() {
					e, err := k.Encryptor()
					if err != nil {
						return
					}
					m := &cose.Encrypt0Message[[]byte]{Unprotected: cose.Headers{iana.HeaderParameterPartialIV: piv}, Payload: []byte("p")}
					if data, err := m.EncryptAndEncode(e, nil); err == nil {
						cose.DecryptEncrypt0Message[[]byte](e, data, nil)
					}
					// a message a peer made, carrying only a Partial IV
					raw := key.MustMarshalCBOR([]any{[]byte{}, map[any]any{iana.HeaderParameterPartialIV: piv}, make([]byte, 20)})
					cose.DecryptEncrypt0Message[[]byte](e, raw, nil)
					em := &cose.EncryptMessage[[]byte]{Unprotected: cose.Headers{iana.HeaderParameterPartialIV: piv}, Payload: []byte("p")}
					em.AddRecipient(&cose.Recipient{})
					if data, err := em.EncryptAndEncode(e, nil); err == nil {
						cose.DecryptEncryptMessage[[]byte](e, data, nil)
					}
					raw2 := key.MustMarshalCBOR([]any{[]byte{}, map[any]any{iana.HeaderParameterPartialIV: piv}, make([]byte, 20), []any{[]any{[]byte{}, map[any]any{}, nil}}})
					cose.DecryptEncryptMessage[[]byte](e, raw2, nil)
				})
			}
		}
	}
	c.nontriv("partial-iv")
	// one more large input per decoder: time and memory stay proportional
	bigInput := append([]byte{0x5a, 0x00, 0x10, 0x00, 0x00}, make([]byte, 1<<20)...)
	bigArr := append([]byte{0x9a, 0x00, 0x01, 0x00, 0x00}, make([]byte, 1<<16)...)
	for _, t := range targets {
		for _, in := range [][]byte{bigInput, bigArr, append([]byte{0xd2, 0x84, 0x40, 0xa0}, bigInput...)} {
			in := in
			run(t.name, fmt.Sprintf("large input of %d bytes", len(in)), len(in), func() { t.f(in) })
		}
	}
	var q []string
	for _, n := range covered {
		q = append(q, `"`+n+`"`)
	}
	c.addCase("ApiCovered ["+strings.Join(q, "; ")+"]%string", "coverage of the API inventory")
}

func toIntOr(v any, d int) int {
	if i, ok := v.(int); ok {
		return i
	}
	return d
}
