package main

import (
	"bytes"
	goed "crypto/ed25519"
	"encoding/json"
	"fmt"

	"github.com/ldclabs/cose/iana"
	"github.com/ldclabs/cose/key"
	_ "github.com/ldclabs/cose/key/aesccm"
	_ "github.com/ldclabs/cose/key/aesgcm"
	_ "github.com/ldclabs/cose/key/aesmac"
	_ "github.com/ldclabs/cose/key/chacha20poly1305"
	"github.com/ldclabs/cose/key/ecdh"
	_ "github.com/ldclabs/cose/key/ecdsa"
	_ "github.com/ldclabs/cose/key/ed25519"
	_ "github.com/ldclabs/cose/key/hmac"
)

func init() { streams["dispatch"] = streamDispatch }

var rfcSigLen = map[int]int{-7: 64, -35: 96, -36: 132, -8: 64}
var rfcTagLen = map[int]int{4: 8, 5: 32, 6: 48, 7: 64, 14: 8, 15: 8, 25: 16, 26: 16}
var rfcNonce = map[int]int{1: 12, 2: 12, 3: 12, 24: 12, 10: 13, 11: 13, 12: 7, 13: 7, 30: 13, 31: 13, 32: 7, 33: 7}
var rfcAeadTag = map[int]int{1: 16, 2: 16, 3: 16, 24: 16, 10: 8, 11: 8, 12: 8, 13: 8, 30: 16, 31: 16, 32: 16, 33: 16}

// roundTrip sends a key through one of the serialisations
func roundTrip(k key.Key, form int) (key.Key, error) {
	switch form {
	case 1:
		b, err := key.MarshalCBOR(k)
		if err != nil {
			return nil, err
		}
		var k2 key.Key
		if len(b)%2 == 0 {
			// the destination already holds another key: decoding must replace it, not merge into it
			k2 = key.Key{iana.KeyParameterKty: iana.KeyTypeEC2, iana.KeyParameterAlg: iana.AlgorithmES384, iana.EC2KeyParameterCrv: 2,
				iana.EC2KeyParameterD: make([]byte, 48), iana.EC2KeyParameterX: make([]byte, 48), iana.EC2KeyParameterY: make([]byte, 48), iana.KeyParameterBaseIV: []byte{1}}
		}
		return k2, key.UnmarshalCBOR(b, &k2)
	case 2:
		b, err := json.Marshal(k)
		if err != nil {
			return nil, err
		}
		var k2 key.Key
		return k2, json.Unmarshal(b, &k2)
	case 3:
		b, err := k.MarshalText()
		if err != nil {
			return nil, err
		}
		var k2 key.Key
		return k2, k2.UnmarshalText(b)
	}
	return k, nil
}

func obtainAll(k key.Key) (s key.Signer, v key.Verifier, m key.MACer, e key.Encryptor, errs [4]error) {
	catch(func() { s, errs[0] = k.Signer() })
	catch(func() { v, errs[1] = k.Verifier() })
	catch(func() { m, errs[2] = k.MACer() })
	catch(func() { e, errs[3] = k.Encryptor() })
	return
}

func streamDispatch(c *ctx) {
	c.beginCases("From Cose Require Import Model.GoVal Model.Key Model.KeyCorr Model.Dispatch Model.DispatchCorr.", "dispatch_case", "check_dispatch_case")
	kinds := []string{"Signer", "Verifier", "MACer", "Encryptor"}
	data := []byte("dispatch-data")
	emit := func(k key.Key, orc oracleVals, tag string) [4]bool {
		_, _, _, _, errs := obtainAll(k)
		var oks [4]bool
		var outs []string
		for i := range errs {
			oks[i] = errs[i] == nil
			outs = append(outs, qB(oks[i]))
		}
		line := fmt.Sprintf("dispatch|%s|key=%s => %v", tag, describe(map[any]any(k)), oks)
		c.addCase(fmt.Sprintf("DObtain %s %s %s", orc.coq(), qMap(k), qList(outs)), line)
		c.nontriv(fmt.Sprintf("%s|%v", tag, oks))
		return oks
	}
	// 1. every registered algorithm, real keys, alg present/absent, four forms
	n := c.n(260, 3000)
	for i := 0; i < n; i++ {
		a := pick(c.r, allAlgs)
		var k key.Key
		var orc oracleVals
		switch {
		case a.kty == 4:
			k = key.Key{iana.KeyParameterKty: 4, iana.KeyParameterAlg: a.alg, iana.SymmetricKeyParameterK: c.r.bytes(symKeySize[a.alg])}
		case a.kty == 1:
			k, orc = edKey(c, c.r.bool())
		default:
			k, orc = ecdsaKey(c, c.r.bool())
			for k[iana.EC2KeyParameterCrv].(int) != a.crv {
				k, orc = ecdsaKey(c, c.r.bool())
			}
		}
		if c.r.intn(3) == 0 {
			k[iana.KeyParameterKid] = c.r.bytes(5)
		} else if c.r.intn(2) == 0 {
			k[iana.KeyParameterKid] = []byte("rotated-key") // different keys and algorithms under one key id
		}
		if c.r.intn(4) == 0 {
			fam := []int{1, 2}
			if a.kty == 4 {
				fam = []int{9, 10}
				if _, ok := rfcNonce[a.alg]; ok {
					fam = []int{3, 4}
				}
			}
			if c.r.intn(3) == 0 { // a key restricted to one operation of the pair (verify-only, decrypt-only, ...)
				fam = []int{fam[c.r.intn(2)], fam[c.r.intn(2)]}
			}
			// in each Go form a constructed key may hold the list
			switch c.r.intn(4) {
			case 0:
				k[iana.KeyParameterKeyOps] = append([]int{}, fam...)
			case 1:
				k[iana.KeyParameterKeyOps] = []any{fam[0], int64(fam[1])}
			default:
				k[iana.KeyParameterKeyOps] = key.Ops(fam)
			}
		} else if c.r.intn(6) == 0 {
			// key_ops present and empty (what ecdh.ToPublicKey writes into the public key of a restricted private key): no
			// restriction, in the constructed form and after every round trip
			k[iana.KeyParameterKeyOps] = key.Ops{}
		}
		orc.onCurve = true
		base := emit(k, orc, fmt.Sprintf("alg=%d form=original", a.alg))
		// oracle: the implementation realises the key's algorithm (lengths from the registry)
		s, v, m, e, _ := obtainAll(k)
		if s != nil {
			if sig, err := s.Sign(data); err == nil && len(sig) != rfcSigLen[a.alg] {
				c.fail(failure{Op: "dispatch", What: "signature length differs from the registry", Input: describe(map[any]any(k)), Observed: fmt.Sprint(len(sig)), Expected: fmt.Sprint(rfcSigLen[a.alg]), Theorem: "C17_impl_realises_alg"})
			}
		}
		if m != nil {
			if tag, err := m.MACCreate(data); err == nil && len(tag) != rfcTagLen[a.alg] {
				c.fail(failure{Op: "dispatch", What: "tag length differs from the registry", Input: describe(map[any]any(k)), Observed: fmt.Sprint(len(tag)), Expected: fmt.Sprint(rfcTagLen[a.alg]), Theorem: "C17_impl_realises_alg"})
			}
		}
		if e != nil {
			if e.NonceSize() != rfcNonce[a.alg] {
				c.fail(failure{Op: "dispatch", What: "nonce size differs from the registry", Input: describe(map[any]any(k)), Observed: fmt.Sprint(e.NonceSize()), Expected: fmt.Sprint(rfcNonce[a.alg]), Theorem: "C17_impl_realises_alg"})
			} else if ct, err := e.Encrypt(make([]byte, e.NonceSize()), data, nil); err == nil && len(ct) != len(data)+rfcAeadTag[a.alg] {
				c.fail(failure{Op: "dispatch", What: "ciphertext length differs from plaintext + registry tag length", Input: describe(map[any]any(k)), Observed: fmt.Sprint(len(ct)), Expected: fmt.Sprint(len(data) + rfcAeadTag[a.alg]), Theorem: "C17_impl_realises_alg"})
			}
		}
		wantKind := map[int]int{1: 0, 2: 0}[a.kty]
		_ = wantKind
		for form := 1; form <= 3; form++ {
			k2, err := roundTrip(k, form)
			if err != nil {
				c.fail(failure{Op: "dispatch", What: "key does not survive serialisation", Input: describe(map[any]any(k)), Observed: err.Error(), Expected: "round trip", Theorem: "C17_obtain_meq"})
				continue
			}
			got := emit(k2, orc, fmt.Sprintf("alg=%d form=%d", a.alg, form))
			if got != base {
				c.fail(failure{Op: "dispatch", What: "round-tripped key dispatches differently", Input: fmt.Sprintf("form=%d key=%s", form, describe(map[any]any(k))), Observed: fmt.Sprint(got), Expected: fmt.Sprint(base), Theorem: "C17_obtain_meq"})
				continue
			}
			// behavioural interchangeability
			s2, v2, m2, e2, _ := obtainAll(k2)
			if s != nil && v2 != nil {
				if sig, err := s.Sign(data); err == nil {
					if err := v2.Verify(data, sig); err != nil {
						c.fail(failure{Op: "dispatch", What: "signature by the original does not verify under the round-tripped key", Input: fmt.Sprintf("form=%d key=%s", form, describe(map[any]any(k))), Observed: err.Error(), Expected: "verifies", Theorem: "C17_obtain_meq"})
					}
				}
			}
			if s2 != nil && v != nil {
				if sig, err := s2.Sign(data); err == nil {
					if err := v.Verify(data, sig); err != nil {
						c.fail(failure{Op: "dispatch", What: "signature by the round-tripped key does not verify under the original", Input: fmt.Sprintf("form=%d key=%s", form, describe(map[any]any(k))), Observed: err.Error(), Expected: "verifies", Theorem: "C17_obtain_meq"})
					}
				}
			}
			if m != nil && m2 != nil {
				t1, e1 := m.MACCreate(data)
				t2, e2 := m2.MACCreate(data)
				if (e1 == nil) != (e2 == nil) || !bytes.Equal(t1, t2) {
					c.fail(failure{Op: "dispatch", What: "MAC tags differ after the round trip", Input: fmt.Sprintf("form=%d key=%s", form, describe(map[any]any(k))), Observed: hx(t2), Expected: hx(t1), Theorem: "C17_obtain_meq"})
				}
			}
			if e != nil && e2 != nil {
				iv := make([]byte, e.NonceSize())
				c1, x1 := e.Encrypt(iv, data, nil)
				c2, x2 := e2.Encrypt(iv, data, nil)
				if (x1 == nil) != (x2 == nil) || !bytes.Equal(c1, c2) {
					c.fail(failure{Op: "dispatch", What: "AEAD output differs after the round trip", Input: fmt.Sprintf("form=%d key=%s", form, describe(map[any]any(k))), Observed: hx(c2), Expected: hx(c1), Theorem: "C17_obtain_meq"})
				}
			}
		}
		if i < 3 {
			c.sample(fmt.Sprintf("alg=%d key=%s => %v", a.alg, describe(map[any]any(k)), base))
		}
	}
	// 1b. key-agreement keys: a round-tripped private or public key derives the same public key and the same secrets
	for rep := 0; rep < c.n(3, 40); rep++ {
		for _, crv := range []int{iana.EllipticCurveP_256, iana.EllipticCurveP_384, iana.EllipticCurveP_521, iana.EllipticCurveX25519} {
			k, err1 := ecdh.GenerateKey(crv)
			peer, err2 := ecdh.GenerateKey(crv)
			if err1 != nil || err2 != nil {
				c.fail(failure{Op: "dispatch-ecdh", What: "GenerateKey failed", Input: fmt.Sprint(crv), Observed: fmt.Sprint(err1, err2), Expected: "keys"})
				continue
			}
			if rep%2 == 1 {
				k[iana.KeyParameterKid] = []byte("rotated-key")
				peer[iana.KeyParameterKid] = []byte("rotated-key")
			}
			// the optional alg member naming each of the ten key-agreement algorithms in turn (-25 .. -34), on both keys
			if rep%3 != 0 {
				av := -25 - (rep*4+crv)%10
				k[iana.KeyParameterAlg] = av
				peer[iana.KeyParameterAlg] = -25 - (rep*4+crv+3)%10
			}
			pub, errP := ecdh.ToPublicKey(k)
			peerPub, errQ := ecdh.ToPublicKey(peer)
			own, errE := ecdh.NewECDHer(k)
			other, errO := ecdh.NewECDHer(peer)
			if errP != nil || errQ != nil || errE != nil || errO != nil {
				c.fail(failure{Op: "dispatch-ecdh", What: "a generated key is not usable", Input: describe(map[any]any(k)), Observed: fmt.Sprint(errP, errQ, errE, errO), Expected: "public keys and ECDH objects"})
				continue
			}
			secret, errS := own.ECDH(peerPub)
			for form := 1; form <= 3; form++ {
				in := fmt.Sprintf("crv=%d form=%d key=%s", crv, form, describe(map[any]any(k)))
				c.eval()
				k2, err := roundTrip(k, form)
				pub2, errR := roundTrip(pub, form)
				if err != nil || errR != nil {
					c.fail(failure{Op: "dispatch-ecdh", What: "key does not survive serialisation", Input: in, Observed: fmt.Sprint(err, errR), Expected: "round trip", Theorem: "C17_key_roundtrip_interchangeable"})
					continue
				}
				// the public key derived from the round-tripped private key
				d2, errD := ecdh.ToPublicKey(k2)
				if errD != nil || !bytes.Equal(d2.Bytesify(), pub.Bytesify()) {
					c.fail(failure{Op: "dispatch-ecdh", What: "the public key of a round-tripped private key differs from the original's", Input: in, Observed: fmt.Sprintf("%x err=%v", d2.Bytesify(), errD), Expected: fmt.Sprintf("%x", pub.Bytesify()), Theorem: "C17_key_roundtrip_interchangeable"})
				}
				// secrets: round-tripped private key with the peer's public key; peer with each form of our public key
				if own2, errN := ecdh.NewECDHer(k2); errN != nil {
					c.fail(failure{Op: "dispatch-ecdh", What: "a round-tripped private key is refused", Input: in, Observed: errN.Error(), Expected: "an ECDH object", Theorem: "C17_key_roundtrip_interchangeable"})
				} else if s2, errT := own2.ECDH(peerPub); (errT == nil) != (errS == nil) || !bytes.Equal(s2, secret) {
					c.fail(failure{Op: "dispatch-ecdh", What: "ECDH secret differs after the round trip of the private key", Input: in, Observed: fmt.Sprintf("%x err=%v", s2, errT), Expected: fmt.Sprintf("%x err=%v", secret, errS), Theorem: "C17_key_roundtrip_interchangeable"})
				}
				for name, p := range map[string]key.Key{"round-tripped public key": pub2, "public key of the round-tripped private key": d2} {
					if p == nil {
						continue
					}
					if s3, errT := other.ECDH(p); errT != nil || !bytes.Equal(s3, secret) {
						c.fail(failure{Op: "dispatch-ecdh", What: "the peer does not agree on the secret with the " + name, Input: in, Observed: fmt.Sprintf("%x err=%v", s3, errT), Expected: fmt.Sprintf("%x", secret), Theorem: "C17_key_roundtrip_interchangeable"})
					}
				}
			}
			c.count(fmt.Sprintf("ecdh round trips crv=%d", crv))
		}
	}
	// 2. grid of (kty, alg, crv) triples, registered and not: bare maps
	ktys := []any{0, 1, 2, 3, 4, 5, int64(4), uint64(2), "4", nil}
	algs := []any{nil, 0, -7, -8, -35, -36, -47, 1, 4, 5, 10, 24, 26, 33, 34, 99, int64(-7), uint64(5), "ES256", 1 << 40}
	crvs := []any{nil, 0, 1, 2, 3, 4, 6, 7, 8, int64(1), "P-256"}
	ng := c.n(700, 6000)
	for i := 0; i < ng; i++ {
		k := key.Key{}
		if v := pick(c.r, ktys); v != nil || c.r.intn(8) == 0 {
			k[iana.KeyParameterKty] = v
		}
		if v := pick(c.r, algs); v != nil {
			k[iana.KeyParameterAlg] = v
		}
		if v := pick(c.r, crvs); v != nil {
			k[iana.EC2KeyParameterCrv] = v
		}
		var orc oracleVals
		switch c.r.intn(4) {
		case 0:
			k[iana.SymmetricKeyParameterK] = c.r.bytes(pick(c.r, []int{16, 24, 32, 48, 64}))
			delete(k, iana.EC2KeyParameterCrv)
		case 1:
			seed := c.r.bytes(32)
			k[iana.OKPKeyParameterD] = seed
			orc.edPub = goed.NewKeyFromSeed(seed).Public().(goed.PublicKey)
		case 2:
			kk, o := ecdsaKey(c, false)
			k[iana.EC2KeyParameterD] = kk[iana.EC2KeyParameterD]
			if c.r.bool() {
				k[iana.EC2KeyParameterCrv] = kk[iana.EC2KeyParameterCrv]
			}
			orc = o
		}
		orc.onCurve = true
		oks := emit(k, orc, "grid")
		// oracle: never more than one kind obtainable for a symmetric key, none for unregistered triples
		kt, _ := k.GetInt(iana.KeyParameterKty)
		if kt != 1 && kt != 2 && kt != 4 && (oks[0] || oks[1] || oks[2] || oks[3]) {
			c.fail(failure{Op: "dispatch", What: "implementation obtained for an unregistered key type", Input: describe(map[any]any(k)), Observed: fmt.Sprint(oks), Expected: "all errors", Theorem: "C17_dispatch_registered_only"})
		}
	}
	// 2b. integer twins of the registered identifiers: values that collapse onto a registered algorithm only when an
	// integer conversion wraps (2^64 + alg as uint64, alg +/- 2^32 as int64 / uint64, alg + 2^16 ...) are not that algorithm
	for _, a := range allAlgs {
		var twins []any
		if a.alg < 0 {
			twins = append(twins, ^uint64(0)-uint64(-a.alg)+1, uint64(1<<32)-uint64(-a.alg), uint32(1<<32-uint64(-a.alg)), uint16(1<<16-uint64(-a.alg)))
		}
		twins = append(twins, int64(a.alg)+(1<<32), int64(a.alg)-(1<<32), int64(a.alg)+(1<<31), int64(a.alg)+(1<<16), int64(a.alg)+256, int64(a.alg)-256)
		if a.alg > 0 {
			twins = append(twins, uint64(a.alg)+(1<<32), uint64(a.alg)+(1<<63))
		}
		for _, tw := range twins {
			var k key.Key
			var orc oracleVals
			switch {
			case a.kty == 4:
				k = key.Key{iana.KeyParameterKty: 4, iana.SymmetricKeyParameterK: c.r.bytes(symKeySize[a.alg])}
			case a.kty == 1:
				k, orc = edKey(c, false)
			default:
				k, orc = ecdsaKey(c, false)
				for k[iana.EC2KeyParameterCrv].(int) != a.crv {
					k, orc = ecdsaKey(c, false)
				}
			}
			orc.onCurve = true
			genuine := key.Key{}
			for x, y := range k {
				genuine[x] = y
			}
			genuine[iana.KeyParameterAlg] = a.alg
			k[iana.KeyParameterAlg] = tw
			oks := emit(k, orc, fmt.Sprintf("twin of alg=%d", a.alg))
			if oks[0] || oks[1] || oks[2] || oks[3] {
				obs := fmt.Sprint(oks)
				if s, _, _, _, _ := obtainAll(k); s != nil {
					if _, v, _, _, _ := obtainAll(genuine); v != nil {
						if sig, err := s.Sign(data); err == nil && v.Verify(data, sig) == nil {
							obs += fmt.Sprintf("; its signature verifies under the genuine alg=%d key", a.alg)
						}
					}
				}
				c.fail(failure{Op: "dispatch", What: "a key whose alg is not a registered identifier (it only wraps onto one) yields an implementation", Input: fmt.Sprintf("alg=%T(%v) key=%s", tw, tw, describe(map[any]any(k))),
					Observed: obs, Expected: "all errors", Theorem: "C17_dispatch_registered_only"})
			}
			// the same through CBOR, as a peer would send it
			if b, err := key.MarshalCBOR(k); err == nil {
				var k2 key.Key
				if key.UnmarshalCBOR(b, &k2) == nil {
					oks2 := emit(k2, orc, fmt.Sprintf("twin of alg=%d decoded", a.alg))
					if oks2[0] || oks2[1] || oks2[2] || oks2[3] {
						c.fail(failure{Op: "dispatch", What: "a decoded key whose alg is not a registered identifier (it only wraps onto one) yields an implementation", Input: fmt.Sprintf("alg=%T(%v) cbor=%x", tw, tw, b),
							Observed: fmt.Sprint(oks2), Expected: "all errors", Theorem: "C17_dispatch_registered_only"})
					}
				}
			}
		}
	}
	// 3. nil key
	var nk key.Key
	_, _, _, _, errs := obtainAll(nk)
	for i, e := range errs {
		if e == nil {
			c.fail(failure{Op: "dispatch", What: "nil key yields an implementation", Input: kinds[i], Observed: "nil error", Expected: "error", Theorem: "C17_dispatch_nil_key"})
		}
		c.eval()
	}
	// 4. lookup by key id: exact match or none
	for i := 0; i < c.n(300, 3000); i++ {
		var ks key.KeySet
		nk := 1 + c.r.intn(5)
		for j := 0; j < nk; j++ {
			kk := key.Key{iana.KeyParameterKty: 4}
			switch c.r.intn(5) {
			case 0:
			case 1:
				kk[iana.KeyParameterKid] = []byte{}
			case 2:
				kk[iana.KeyParameterKid] = "text"
			default:
				kk[iana.KeyParameterKid] = c.r.bytes(1 + c.r.intn(3))
			}
			ks = append(ks, kk)
		}
		var q []byte
		switch c.r.intn(4) {
		case 0:
			q = nil
		case 1:
			q = []byte{}
		case 2:
			q = c.r.bytes(1 + c.r.intn(3))
		default:
			q = append([]byte{}, pick(c.r, ks).Kid()...)
			if c.r.intn(3) == 0 && len(q) > 0 {
				q[0] ^= 0x20
			}
		}
		got := ks.Lookup(q)
		var terms []string
		for _, kk := range ks {
			terms = append(terms, qMap(kk))
		}
		idx := -1
		for j, kk := range ks {
			if got != nil && fmt.Sprintf("%p", got) == fmt.Sprintf("%p", kk) {
				idx = j
				break
			}
		}
		line := fmt.Sprintf("lookup|q=%x|n=%d => idx=%d", q, nk, idx)
		c.addCase(fmt.Sprintf("DLookup %s %s %s", qList(terms), qHex(q), qZ(int64(idx))), line)
		if got != nil && !bytes.Equal(got.Kid(), q) {
			c.fail(failure{Op: "lookup", What: "KeySet.Lookup returned a key whose id is not exactly the requested one", Input: line, Observed: hx(got.Kid()), Expected: hx(q), Theorem: "C17_lookup_exact"})
		}
		if got == nil {
			for _, kk := range ks {
				if bytes.Equal(kk.Kid(), q) {
					c.fail(failure{Op: "lookup", What: "KeySet.Lookup missed a key with exactly the requested id", Input: line, Observed: "nil", Expected: hx(q), Theorem: "C17_lookup_exact"})
				}
			}
		}
		c.nontriv(fmt.Sprintf("lookup|%v|%d", got != nil, len(q)))
	}
	// Signers / Verifiers lookup use the same rule
	var vs key.Verifiers
	var ss key.Signers
	for _, id := range []string{"alice@example.com", "Alice@Example.com", "\xff\x01", "\xfe\x01", ""} {
		kk := key.Key{iana.KeyParameterKty: 4}
		if id != "" {
			kk[iana.KeyParameterKid] = []byte(id)
		}
		vs = append(vs, fakeVerifier{k: kk})
		ss = append(ss, fakeSigner{k: kk})
	}
	for _, q := range []string{"alice@example.com", "ALICE@EXAMPLE.COM", "Alice@Example.com", "\xfe\x01", "\xff\x01", "bob", ""} {
		v := vs.Lookup([]byte(q))
		s := ss.Lookup([]byte(q))
		c.eval()
		if v != nil && string(v.Key().Kid()) != q || s != nil && string(s.Key().Kid()) != q {
			c.fail(failure{Op: "lookup", What: "Signers/Verifiers.Lookup returned an entry whose key id is not exactly the requested one", Input: fmt.Sprintf("%q", q), Observed: "inexact match", Expected: "exact or none", Theorem: "C17_lookup_exact"})
		}
		if (v == nil || s == nil) && q != "bob" && q != "ALICE@EXAMPLE.COM" {
			c.fail(failure{Op: "lookup", What: "Signers/Verifiers.Lookup missed an exact key id", Input: fmt.Sprintf("%q", q), Observed: "nil", Expected: "entry", Theorem: "C17_lookup_exact"})
		}
	}
	// lists of every small size (none, exactly one, two entries), entries with and without a key id, every kind of query
	// (nil, empty, the id, a prefix, another id): an entry whose id is exactly the query, or none
	ids := [][]byte{nil, {}, []byte("a"), []byte("ab"), []byte("b")}
	for n := 0; n <= 2; n++ {
		for combo := 0; combo < 25; combo++ {
			var vl key.Verifiers
			var sl key.Signers
			var have [][]byte
			for j := 0; j < n; j++ {
				id := ids[(combo/pow5(j))%5]
				kk := key.Key{iana.KeyParameterKty: 4}
				if id != nil {
					kk[iana.KeyParameterKid] = id
				}
				vl = append(vl, fakeVerifier{k: kk})
				sl = append(sl, fakeSigner{k: kk})
				have = append(have, id)
			}
			if n < 2 && combo >= pow5(n) {
				break
			}
			for _, q := range ids {
				v := vl.Lookup(q)
				sg := sl.Lookup(q)
				c.eval()
				c.nontriv(fmt.Sprintf("lookup-small|%d|%v|%d", n, v != nil, len(q)))
				exact := false
				for _, h := range have {
					if bytes.Equal(h, q) {
						exact = true
					}
				}
				in := fmt.Sprintf("list of %d entries with key ids %q, query %q", n, have, q)
				if v != nil && !bytes.Equal(v.Key().Kid(), q) || sg != nil && !bytes.Equal(sg.Key().Kid(), q) {
					c.fail(failure{Op: "lookup", What: "Signers/Verifiers.Lookup returned an entry whose key id is not exactly the requested one", Input: in, Observed: "inexact match", Expected: "exact or none", Theorem: "C17_lookup_exact"})
				}
				if (v == nil || sg == nil) && exact {
					c.fail(failure{Op: "lookup", What: "Signers/Verifiers.Lookup missed an exact key id", Input: in, Observed: "nil", Expected: "entry", Theorem: "C17_lookup_exact"})
				}
			}
		}
	}
}

func pow5(j int) int {
	r := 1
	for ; j > 0; j-- {
		r *= 5
	}
	return r
}
