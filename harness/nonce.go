package main

import (
	"bytes"
	"crypto/rand"
	"fmt"
	"io"
	"sync"

	"github.com/ldclabs/cose/cose"
	"github.com/ldclabs/cose/iana"
	"github.com/ldclabs/cose/key"
	"github.com/ldclabs/cose/key/aesccm"
	"github.com/ldclabs/cose/key/aesgcm"
	"github.com/ldclabs/cose/key/chacha20poly1305"
)

func init() { streams["nonce"] = streamNonce }

// counterReader: a known entropy stream substituted for crypto/rand.Reader
type counterReader struct{ next []byte }

func (r *counterReader) Read(p []byte) (int, error) {
	for i := range p {
		p[i] = r.next[i%len(r.next)]
	}
	return len(p), nil
}

func realEncryptor(alg int, k []byte) (key.Encryptor, error) {
	// every key carries the same key id: an implementation must not identify key material by kid
	kk := key.Key{iana.KeyParameterKty: iana.KeyTypeSymmetric, iana.KeyParameterAlg: alg, iana.SymmetricKeyParameterK: k, iana.KeyParameterKid: []byte("kid-shared-by-all-keys")}
	switch {
	case alg >= 1 && alg <= 3:
		return aesgcm.New(kk)
	case alg == 24:
		return chacha20poly1305.New(kk)
	default:
		return aesccm.New(kk)
	}
}

func streamNonce(c *ctx) {
	c.beginCases("From Cose Require Import Model.GoVal Model.Key Model.Nonce Model.MsgCorr Model.NonceCorr.", "nonce_case", "check_nonce_case")
	saved := rand.Reader
	defer func() { rand.Reader = saved }()
	sizes := []int{7, 12, 13}
	n := c.n(1800, 20000)
	lens := []int{0, 1, 2, 6, 7, 8, 11, 12, 13, 14, 16}
	for i := 0; i < n; i++ {
		nsize := pick(c.r, sizes)
		kind := pick(c.r, []string{"Encrypt0", "Encrypt"})
		k := key.Key{iana.KeyParameterKty: 4, iana.KeyParameterAlg: 1}
		switch c.r.intn(6) {
		case 0: // no Base IV
		case 1:
			k[iana.KeyParameterBaseIV] = []byte{}
		case 2:
			k[iana.KeyParameterBaseIV] = "not-bytes"
		default:
			k[iana.KeyParameterBaseIV] = c.r.bytes(pick(c.r, []int{1, 6, 7, 8, 12, 13, 16, 20}))
		}
		un := cose.Headers{}
		switch c.r.intn(7) {
		case 0:
		case 1:
			un[iana.HeaderParameterIV] = c.r.bytes(nsize)
		case 2:
			un[iana.HeaderParameterIV] = c.r.bytes(pick(c.r, lens))
		case 3:
			un[iana.HeaderParameterIV] = 7
		default:
		}
		switch c.r.intn(5) {
		case 0:
		case 1:
			un[iana.HeaderParameterPartialIV] = "x"
		case 2:
			// sequence numbers with leading zero octets, and zero itself: the header value is used (and published) as given
			pv := c.r.bytes(pick(c.r, []int{1, 2, 3, 6}))
			pv[0] = 0
			if c.r.bool() {
				for j := range pv {
					pv[j] = 0
				}
			}
			un[iana.HeaderParameterPartialIV] = pv
		default:
			un[iana.HeaderParameterPartialIV] = c.r.bytes(pick(c.r, lens))
		}
		if c.r.intn(3) == 0 {
			// a parameter the nonce logic does not read, its label held in any Go integer type (a bucket a caller filled
			// from decoded or typed values): the published nonce must still be in the message that goes out
			un[pick(c.r, []any{iana.HeaderParameterKid, int64(iana.HeaderParameterKid), uint64(iana.HeaderParameterKid), uint(iana.HeaderParameterKid)})] = []byte("k")
		}
		draw := c.r.bytes(nsize)
		rand.Reader = &counterReader{next: draw}
		unTerm := qMap(un)
		var nonces, aads [][]byte
		enc := fakeEncryptor{k: k, nsize: nsize, nonces: &nonces, aads: &aads}
		var err error
		var data []byte
		var after cose.Headers
		p, msg := catch(func() {
			if kind == "Encrypt0" {
				m := &cose.Encrypt0Message[[]byte]{Unprotected: un, Payload: []byte("p")}
				data, err = m.EncryptAndEncode(enc, nil)
				after = m.Unprotected
			} else {
				m := &cose.EncryptMessage[[]byte]{Unprotected: un, Payload: []byte("p")}
				m.AddRecipient(&cose.Recipient{})
				data, err = m.EncryptAndEncode(enc, nil)
				after = m.Unprotected
			}
		})
		line := fmt.Sprintf("nonce-encrypt|kind=%s|nsize=%d|unprot=%s|key=%s|draw=%x", kind, nsize, unTerm, describe(map[any]any(k)), draw)
		if p {
			c.fail(failure{Op: "nonce", What: "Encrypt panics", Input: line, Observed: "panic: " + msg, Expected: "error or ciphertext", Case: line, Theorem: "C06_xor_iv_no_panic"})
			continue
		}
		var nonce []byte
		if len(nonces) > 0 {
			nonce = nonces[0]
		}
		reached := err == nil && len(nonces) == 1
		c.addCase(fmt.Sprintf("NEncrypt %s %s %d %s %s %s %s", unTerm, qMap(k), nsize, qHex(draw), qB(reached), qHex(nonce), qMap(after)), line+fmt.Sprintf(" => ok=%v nonce=%x", reached, nonce))
		// property-directed oracle
		iv, _ := un.GetBytes(iana.HeaderParameterIV)
		_, ivErr := un.GetBytes(iana.HeaderParameterIV)
		piv, pivErr := un.GetBytes(iana.HeaderParameterPartialIV)
		base, baseErr := k.GetBytes(iana.KeyParameterBaseIV)
		switch {
		case ivErr != nil || pivErr != nil:
			if reached {
				c.fail(failure{Op: "nonce", What: "malformed IV / Partial IV not refused", Input: line, Observed: "encrypted", Expected: "error", Case: line, Theorem: "C06_refusals"})
			}
		case len(piv) > 0:
			refuse := len(iv) > 0 || len(piv) >= nsize || baseErr != nil || len(base) == 0
			if refuse == reached {
				c.fail(failure{Op: "nonce", What: "Partial IV refusal rules", Input: line, Observed: fmt.Sprintf("encrypted=%v", reached), Expected: fmt.Sprintf("encrypted=%v", !refuse), Case: line, Theorem: "C06_refusals"})
			} else if reached {
				want := make([]byte, nsize)
				copy(want[nsize-len(piv):], piv)
				for j := 0; j < nsize && j < len(base); j++ {
					want[j] ^= base[j]
				}
				if !bytes.Equal(want, nonce) {
					c.fail(failure{Op: "nonce", What: "Partial IV nonce is not Base IV xor left-padded Partial IV", Input: line, Observed: hx(nonce), Expected: hx(want), Case: line, Theorem: "C06_partial_iv_rfc"})
				}
			}
		case len(iv) > 0:
			if !reached || !bytes.Equal(nonce, iv) {
				c.fail(failure{Op: "nonce", What: "caller IV not used verbatim", Input: line, Observed: hx(nonce), Expected: hx(iv), Case: line, Theorem: "C06_iv_verbatim"})
			}
		default:
			pub, _ := after.GetBytes(iana.HeaderParameterIV)
			if !reached || !bytes.Equal(nonce, draw) || !bytes.Equal(pub, draw) || len(nonce) != nsize {
				c.fail(failure{Op: "nonce", What: "random nonce not drawn at full length or not published", Input: line, Observed: fmt.Sprintf("nonce=%x published=%x", nonce, pub), Expected: hx(draw), Case: line, Theorem: "C06_random_published"})
			}
		}
		c.nontriv(fmt.Sprintf("enc|%s|%d|%v|%d|%d|%d", kind, nsize, reached, len(iv), len(piv), len(base)))
		c.count(fmt.Sprintf("encrypt reached=%v", reached))
		if i < 4 {
			c.sample(line)
		}
		if !reached {
			continue
		}
		// Decrypt must derive the identical nonce from the encoded message
		var dn, da [][]byte
		dec := fakeEncryptor{k: k, nsize: nsize, nonces: &dn, aads: &da}
		var derr error
		var decodedUn cose.Headers
		p, msg = catch(func() {
			if kind == "Encrypt0" {
				m2 := &cose.Encrypt0Message[[]byte]{}
				if derr = m2.UnmarshalCBOR(data); derr == nil {
					decodedUn = m2.Unprotected
					derr = m2.Decrypt(dec, nil)
				}
			} else {
				m2 := &cose.EncryptMessage[[]byte]{}
				if derr = m2.UnmarshalCBOR(data); derr == nil {
					decodedUn = m2.Unprotected
					derr = m2.Decrypt(dec, nil)
				}
			}
		})
		if p {
			c.fail(failure{Op: "nonce", What: "Decrypt panics", Input: line, Observed: "panic: " + msg, Expected: "error or plaintext", Case: line, Theorem: "C06_xor_iv_no_panic"})
			continue
		}
		var dnonce []byte
		if len(dn) > 0 {
			dnonce = dn[0]
		}
		if decodedUn != nil {
			c.addCase(fmt.Sprintf("NDecrypt %s %s %d %s %s", qMap(decodedUn), qMap(k), nsize, qB(derr == nil && len(dn) == 1), qHex(dnonce)), line+fmt.Sprintf(" => decrypt nonce=%x", dnonce))
		}
		if derr != nil || !bytes.Equal(dnonce, nonce) {
			c.fail(failure{Op: "nonce", What: "Decrypt derives a different nonce than Encrypt used", Input: line, Observed: fmt.Sprintf("%x err=%v", dnonce, derr), Expected: hx(nonce), Case: line, Theorem: "C06_decrypt_same_nonce"})
		}
	}
	rand.Reader = saved
	// the real AEADs refuse every nonce of another length
	for _, alg := range []int{1, 2, 3, 24, 10, 11, 12, 13, 30, 31, 32, 33} {
		e, err := realEncryptor(alg, make([]byte, symKeySize[alg]))
		if err != nil {
			c.fail(failure{Op: "nonce", What: "cannot build encryptor", Input: fmt.Sprint(alg), Observed: err.Error(), Expected: "encryptor"})
			continue
		}
		for l := 0; l <= 33; l++ {
			var eerr, derr error
			var ct []byte
			catch(func() { ct, eerr = e.Encrypt(make([]byte, l), []byte("pt"), nil) })
			catch(func() { _, derr = e.Decrypt(make([]byte, l), make([]byte, 32), nil) })
			line := fmt.Sprintf("nonce-aead|alg=%d|ivlen=%d => encrypt ok=%v", alg, l, eerr == nil)
			c.addCase(fmt.Sprintf("NAead %s %d %s %d", qZ(int64(alg)), l, qB(eerr == nil), e.NonceSize()), line)
			if (eerr == nil) != (l == e.NonceSize()) || (l != e.NonceSize() && derr == nil) {
				c.fail(failure{Op: "nonce", What: "AEAD accepts a nonce of another length", Input: line, Observed: fmt.Sprintf("encrypt err=%v", eerr), Expected: "error iff length differs", Case: line, Theorem: "C06_nonce_len"})
			}
			_ = ct
			c.nontriv(fmt.Sprintf("aead|%d|%v", alg, eerr == nil))
		}
	}
	// every byte of the entropy draw reaches the nonce: two fresh messages whose draws differ in one byte get different nonces
	// (the hypothesis of C06_fresh_nonces_distinct is that draws are distinct; a library that keeps only part of the draw repeats nonces)
	for _, kind := range []string{"Encrypt0", "Encrypt"} {
		for _, nsize := range sizes {
			base := c.r.bytes(nsize)
			chosen := func(draw []byte) []byte {
				rand.Reader = &counterReader{next: draw}
				defer func() { rand.Reader = saved }()
				var nonces, aads [][]byte
				enc := fakeEncryptor{k: key.Key{iana.KeyParameterKty: 4, iana.KeyParameterAlg: 1}, nsize: nsize, nonces: &nonces, aads: &aads}
				if kind == "Encrypt0" {
					m := &cose.Encrypt0Message[[]byte]{Payload: []byte("p")}
					m.EncryptAndEncode(enc, nil)
				} else {
					m := &cose.EncryptMessage[[]byte]{Payload: []byte("p")}
					m.AddRecipient(&cose.Recipient{})
					m.EncryptAndEncode(enc, nil)
				}
				if len(nonces) != 1 {
					return nil
				}
				return nonces[0]
			}
			n0 := chosen(base)
			for i := 0; i < nsize; i++ {
				d := append([]byte{}, base...)
				d[i] ^= byte(1 + c.r.intn(255))
				n1 := chosen(d)
				c.eval()
				if n0 == nil || n1 == nil || bytes.Equal(n0, n1) {
					line := fmt.Sprintf("nonce-entropy|kind=%s|nsize=%d|draw1=%x|draw2=%x", kind, nsize, base, d)
					c.fail(failure{Op: "nonce", What: "two fresh messages with different entropy draws were encrypted under the same nonce", Input: line,
						Observed: fmt.Sprintf("nonce1=%x nonce2=%x", n0, n1), Expected: "different nonces (the draw is used at full length)", Case: line, Theorem: "C06_fresh_nonces_distinct"})
				}
			}
			c.count(fmt.Sprintf("entropy-bytes %s nsize=%d", kind, nsize))
		}
	}
	// freshness: library-chosen nonces of distinct fresh messages, real entropy (7-, 12- and 13-byte nonces, both kinds)
	for fi, alg := range []int{1, 10, 24, 12, 12} {
		e, _ := realEncryptor(alg, make([]byte, symKeySize[alg]))
		seen := map[string]bool{}
		cnt := c.n(4000, 200000)
		if e.NonceSize() == 7 {
			cnt = c.n(30000, 400000)
		}
		rep := 0
		for j := 0; j < cnt; j++ {
			var un cose.Headers
			var eerr error
			if fi%2 == 0 {
				m := &cose.Encrypt0Message[[]byte]{Payload: []byte("p")}
				eerr = m.Encrypt(e, nil)
				un = m.Unprotected
			} else {
				m := &cose.EncryptMessage[[]byte]{Payload: []byte("p")}
				m.AddRecipient(&cose.Recipient{})
				eerr = m.Encrypt(e, nil)
				un = m.Unprotected
			}
			if eerr != nil {
				c.fail(failure{Op: "nonce", What: "fresh Encrypt failed", Input: fmt.Sprint(alg), Observed: eerr.Error(), Expected: "ok"})
				break
			}
			iv, _ := un.GetBytes(iana.HeaderParameterIV)
			if len(iv) != e.NonceSize() {
				c.fail(failure{Op: "nonce", What: "library nonce has wrong length", Input: fmt.Sprint(alg), Observed: fmt.Sprint(len(iv)), Expected: fmt.Sprint(e.NonceSize()), Theorem: "C06_nonce_len"})
				break
			}
			if seen[string(iv)] {
				rep++
			}
			seen[string(iv)] = true
			c.eval()
		}
		if rep > 0 {
			c.fail(failure{Op: "nonce", What: "library-chosen nonces repeat across fresh messages", Input: fmt.Sprintf("alg=%d messages=%d", alg, cnt), Observed: fmt.Sprintf("%d repeats", rep), Expected: "0 (12/13-byte nonces from crypto/rand)", Theorem: "C06_fresh_nonces_distinct"})
		}
		c.count(fmt.Sprintf("fresh alg=%d n=%d repeats=%d", alg, cnt, rep))
	}
	// the same under parallel callers: 16 goroutines, each with its own encryptor of one key, encrypt fresh messages at
	// the same time; no nonce occurs twice across all of them
	for _, alg := range []int{3, 24, 10} {
		per := c.n(2500, 40000)
		ivs := make([][]string, 16)
		var wg sync.WaitGroup
		var panicMu sync.Mutex
		panics := ""
		for g := 0; g < 16; g++ {
			wg.Add(1)
			go func(g int) {
				defer wg.Done()
				e, err := realEncryptor(alg, make([]byte, symKeySize[alg]))
				if err != nil {
					return
				}
				for j := 0; j < per; j++ {
					m := &cose.Encrypt0Message[[]byte]{Payload: []byte("p")}
					var eerr error
					if p, pm := catch(func() { eerr = m.Encrypt(e, nil) }); p {
						panicMu.Lock()
						if panics == "" {
							panics = pm
						}
						panicMu.Unlock()
						return
					}
					if eerr != nil {
						return
					}
					iv, _ := m.Unprotected.GetBytes(iana.HeaderParameterIV)
					ivs[g] = append(ivs[g], string(iv))
				}
			}(g)
		}
		wg.Wait()
		seen := map[string]bool{}
		rep, total := 0, 0
		for _, l := range ivs {
			for _, iv := range l {
				total++
				if seen[iv] {
					rep++
				}
				seen[iv] = true
			}
		}
		c.evals += total
		c.nontriv(fmt.Sprintf("fresh-parallel|%d", alg))
		if panics != "" {
			c.fail(failure{Op: "nonce", What: "Encrypt of a fresh message panics when 16 goroutines draw their nonces at the same time", Input: fmt.Sprintf("alg=%d goroutines=16 messages each=%d (no IV given)", alg, per), Observed: short(panics), Expected: "a fresh nonce for every message", Theorem: "C06_fresh_nonces_distinct"})
		}
		if rep > 0 || total != 16*per {
			c.fail(failure{Op: "nonce", What: "library-chosen nonces repeat across fresh messages encrypted by parallel callers", Input: fmt.Sprintf("alg=%d goroutines=16 messages=%d", alg, total), Observed: fmt.Sprintf("%d repeats", rep), Expected: fmt.Sprintf("0 repeats over %d messages", 16*per), Theorem: "C06_fresh_nonces_distinct"})
		}
		c.count(fmt.Sprintf("fresh-parallel alg=%d n=%d repeats=%d", alg, total, rep))
	}
	_ = io.EOF
}
