package main

import (
	"bytes"
	"encoding/hex"
	"fmt"

	"github.com/ldclabs/cose/cwt"
	"github.com/ldclabs/cose/key"
)

func init() { streams["claims"] = streamClaims }

func qClaims(c cwt.Claims) string {
	return fmt.Sprintf("(Build_wclaims %s %s %s %s %s %s %s)", qStr(c.Issuer), qStr(c.Subject), qStr(c.Audience), qU(c.Expiration), qU(c.NotBefore), qU(c.IssuedAt), qHex(c.CWTID))
}

// Stream claims: the CBOR form of cwt.Claims (keyasint, omitempty members 1..7) against Model/CwtCodec.v:
// what MarshalCBOR writes, and what UnmarshalCBOR does with produced, mutated and hand-made claim maps.
func streamClaims(c *ctx) {
	c.beginCases("From Cose Require Import Model.GoVal Model.CwtCodec Model.CwtCodecCorr.", "claims_case", "check_claims_case")
	texts := []string{"", "a", "iss", "coap://as.example.com", "é", "日本", "\xff", "a\x80", string(make([]byte, 24)), string(bytes.Repeat([]byte("x"), 256))}
	nums := []uint64{0, 0, 1, 23, 24, 255, 256, 65535, 65536, 1 << 32, 1444064944, 1<<63 - 1, 1 << 63, 1<<64 - 1}
	dec := func(d []byte, tag string) {
		var out cwt.Claims
		var err error
		p, pm := catch(func() { err = key.UnmarshalCBOR(d, &out) })
		line := short(fmt.Sprintf("claims-dec|%s|%x", tag, d))
		if p {
			c.fail(failure{Op: "claims", What: "panic while decoding a claim set", Input: line, Observed: "panic: " + pm, Expected: "value or error", Case: line})
			return
		}
		t := qClaims(out)
		if err != nil {
			t = qClaims(cwt.Claims{})
		} else if dup, _, wf := cborHasDupKey(d); wf && dup {
			c.fail(failure{Op: "claims-dup-key", What: "a claim set holding a duplicate map key (at some depth) is accepted in struct form", Input: line, Observed: "decoded without error", Expected: "an error", Case: line})
		}
		c.addCase(fmt.Sprintf("ClDec %s %s %s", qHex(d), qB(err == nil), t), line+fmt.Sprintf(" => ok=%v", err == nil))
		c.nontriv(fmt.Sprintf("claims-dec|%s|%v", tag, err == nil))
		c.count(fmt.Sprintf("claims-dec %s ok=%v", tag, err == nil))
	}
	n := c.n(300, 4000)
	for i := 0; i < n; i++ {
		cl := cwt.Claims{Issuer: pick(c.r, texts), Subject: pick(c.r, texts), Audience: pick(c.r, texts),
			Expiration: pick(c.r, nums), NotBefore: pick(c.r, nums), IssuedAt: pick(c.r, nums)}
		switch c.r.intn(4) {
		case 0:
		case 1:
			cl.CWTID = key.ByteStr{}
		default:
			cl.CWTID = c.r.bytes(1 + c.r.intn(30))
		}
		b1, e1 := key.MarshalCBOR(&cl)
		b2, e2 := key.MarshalCBOR(cl)
		if e1 != nil || e2 != nil || !bytes.Equal(b1, b2) || !bytes.Equal(b1, cl.Bytesify()) {
			c.fail(failure{Op: "claims", What: "pointer, value and Bytesify encodings differ or fail", Input: fmt.Sprintf("%+v", cl), Observed: fmt.Sprintf("%x %v / %x %v", b1, e1, b2, e2), Expected: "one encoding"})
			continue
		}
		c.addCase(fmt.Sprintf("ClEnc %s %s", qClaims(cl), qHex(b1)), short(fmt.Sprintf("claims-enc|%+v => %x", cl, b1)))
		c.count("claims-enc")
		dec(b1, "produced")
		m, tag := mutate(c, b1)
		dec(m, tag)
		if i%3 == 0 {
			dec(append([]byte{0xd8, 0x3d}, b1...), "cwt-tagged")
			dec(append([]byte{0xd9, 0xd9, 0xf7}, b1...), "self-described")
		}
		// hand-made maps: member and foreign keys of several types, values of several types, repetitions
		var ents [][2]*citem
		for j, ne := 0, c.r.intn(5); j < ne; j++ {
			var k *citem
			switch c.r.intn(10) {
			case 0:
				k = &citem{kind: 3, b: []byte(pick(c.r, []string{"1", "4", "7", "01", "8", "iss", "", "+1"}))}
			case 1:
				k = &citem{kind: 0, n: uint64(c.r.intn(9)), width: pick(c.r, []int{0, 1, 2, 8})}
			case 2:
				k = &citem{kind: 1, n: uint64(c.r.intn(3))}
			case 3:
				k = pick(c.r, []*citem{{kind: 7, n: 20}, {kind: 7, n: 21}, {kind: 7, n: 22}, {kind: 7, n: 23}, {kind: 2, b: []byte{1}}, {kind: 4}, {kind: 5},
					{kind: 8, ai: 25, n: 0x3c00}, {kind: 6, n: 1, v: &citem{kind: 0, n: 4}}, {kind: 7, n: 0}, {kind: 1, n: 1 << 63}})
			default:
				k = &citem{kind: 0, n: uint64(1 + c.r.intn(7))}
			}
			var v *citem
			switch c.r.intn(12) {
			case 0:
				v = &citem{kind: 3, b: []byte(pick(c.r, texts))}
			case 1:
				v = &citem{kind: 0, n: pick(c.r, nums), width: pick(c.r, []int{0, 0, 8})}
			case 2:
				v = &citem{kind: 2, b: c.r.bytes(c.r.intn(5))}
			case 3:
				v = &citem{kind: 7, n: uint64(20 + c.r.intn(4))}
			case 4:
				v = &citem{kind: 1, n: uint64(c.r.intn(5))}
			case 5:
				v = &citem{kind: 8, ai: 27, n: 0x4008000000000000}
			case 6:
				v = &citem{kind: 4, l: []*citem{{kind: 0, n: uint64(c.r.intn(300))}, {kind: 0, n: 7}}}
			case 7:
				// (tag 0 only on other content than text: RFC 3339 parsing of tag-0 text is outside the model)
				tn := pick(c.r, []uint64{0, 1, 2, 3, 24, 55799, 99})
				v = &citem{kind: 6, n: tn, v: pick(c.r, []*citem{{kind: 0, n: 5}, {kind: 3, b: []byte("t")}, {kind: 2, b: []byte{9}}})}
				if tn == 0 && v.v.kind == 3 {
					v.v = &citem{kind: 0, n: 5}
				}
			case 8:
				v = &citem{kind: 5, m: [][2]*citem{{{kind: 0, n: 1}, {kind: 0, n: 1}}, {{kind: 0, n: 1, width: 1}, {kind: 0, n: 2}}}} // a repeated key inside a value
			default:
				v = genItem(c, 1, true)
			}
			ents = append(ents, [2]*citem{k, v})
		}
		dec((&citem{kind: 5, m: ents}).enc(nil), "hand-made")
	}
	for _, h := range []string{"a0", "f6", "f7", "80", "01", "40", "a10163697373", "a1613163697373", "a20163697373016161", "a201616161316162", "a2613161610161 62", "a2186301186302",
		"a104c101", "a104c24101", "a1041bffffffffffffffff", "a10783010203", "a107c2410a", "a2f601f702", "a2f501f502", "a2f90000 01f9800002", "a11863a201010102",
		"a101c16161", "a121a20101180102", "a1187ba1187ca20101180102", "a104c161 61", "a1c10161 61", "bf016161ff", "a1017f6161ff", "a1" + "3b8000000000000000" + "01", "a201616118016162", "a10161ff", "a161ff01"} {
		b, err := hex.DecodeString(stripSp(h))
		if err != nil {
			panic(h)
		}
		dec(b, "special")
	}
}

func stripSp(s string) string {
	out := []byte{}
	for i := 0; i < len(s); i++ {
		if s[i] != ' ' {
			out = append(out, s[i])
		}
	}
	return string(out)
}

// cborHasDupKey walks a well-formed definite-length item and reports whether any map, at any depth, holds a key twice
// (integers compared by value whatever their head width, other keys by their bytes). Independent of the CBOR library.
func cborHasDupKey(b []byte) (dup bool, rest []byte, ok bool) {
	if len(b) == 0 {
		return false, nil, false
	}
	mt, ai := b[0]>>5, b[0]&31
	b = b[1:]
	var n uint64
	switch {
	case ai < 24:
		n = uint64(ai)
	case ai == 24 && len(b) >= 1:
		n, b = uint64(b[0]), b[1:]
	case ai == 25 && len(b) >= 2:
		n, b = uint64(b[0])<<8|uint64(b[1]), b[2:]
	case ai == 26 && len(b) >= 4:
		n, b = uint64(b[0])<<24|uint64(b[1])<<16|uint64(b[2])<<8|uint64(b[3]), b[4:]
	case ai == 27 && len(b) >= 8:
		for i := 0; i < 8; i++ {
			n = n<<8 | uint64(b[i])
		}
		b = b[8:]
	default:
		return false, nil, false
	}
	switch mt {
	case 0, 1, 7:
		return false, b, true
	case 2, 3:
		if uint64(len(b)) < n {
			return false, nil, false
		}
		return false, b[n:], true
	case 4:
		for i := uint64(0); i < n; i++ {
			d, r, k := cborHasDupKey(b)
			if !k {
				return false, nil, false
			}
			dup = dup || d
			b = r
		}
		return dup, b, true
	case 5:
		seen := map[string]bool{}
		for i := uint64(0); i < n; i++ {
			start := b
			d, r, k := cborHasDupKey(b)
			if !k {
				return false, nil, false
			}
			kb := start[:len(start)-len(r)]
			id := string(kb)
			if len(kb) > 0 && kb[0]>>5 <= 1 { // integer key: by value
				var v uint64
				for _, x := range kb[1:] {
					v = v<<8 | uint64(x)
				}
				if kb[0]&31 < 24 {
					v = uint64(kb[0] & 31)
				}
				id = fmt.Sprintf("int%d:%d", kb[0]>>5, v)
			}
			if seen[id] {
				dup = true
			}
			seen[id] = true
			dup = dup || d
			b = r
			d, r, k = cborHasDupKey(b)
			if !k {
				return false, nil, false
			}
			dup = dup || d
			b = r
		}
		return dup, b, true
	default: // tag
		return cborHasDupKey(b)
	}
}
