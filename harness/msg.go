package main

import (
	"bytes"
	"crypto/rand"
	"encoding/binary"
	"encoding/hex"
	"errors"
	"fmt"
	"strings"

	"github.com/fxamacker/cbor/v2"
	"github.com/ldclabs/cose/cose"
	"github.com/ldclabs/cose/cwt"
	"github.com/ldclabs/cose/iana"
	"github.com/ldclabs/cose/key"
)

func init() {
	streams["msg"] = streamMsg
	streams["c08probe"] = streamC08Probe
	streams["msgparts"] = func(c *ctx) {
		c.beginCases("From Cose Require Import Lib.Cbor Model.GoVal Model.Key Model.Msg Model.MsgWireCorr.", "msg_case", "check_msg_case")
		c.maxCases = 120
		streamMsgParts(c)
	}
}

// after a failed Decrypt the message object holds no plaintext
func checkNoPlaintext(c *ctx, kind string, f fkey, data, ext []byte, line string) {
	var payload []byte
	var derr error
	switch kind {
	case "KEnc0":
		m := &cose.Encrypt0Message[[]byte]{}
		if m.UnmarshalCBOR(data) != nil {
			return
		}
		derr = m.Decrypt(f, ext)
		payload = m.Payload
	case "KEnc":
		m := &cose.EncryptMessage[[]byte]{}
		if m.UnmarshalCBOR(data) != nil {
			return
		}
		derr = m.Decrypt(f, ext)
		payload = m.Payload
	default:
		return
	}
	c.eval()
	if derr != nil && payload != nil {
		c.fail(failure{Op: "decrypt", What: "plaintext left in the message after a failed Decrypt", Input: line, Observed: fmt.Sprintf("Payload=%x err=%v", payload, derr), Expected: "nil Payload", Case: line})
	}
}

// Transparent fake primitives: signature / tag = secret || data; ciphertext = secret || len(nonce) || nonce ||
// be32 len(aad) || aad || plaintext. The Coq side (Model/MsgWireCorr.v) computes the same functions, so the
// produced bytes expose exactly what the library handed to the primitive.
type fkey struct {
	k      key.Key
	secret []byte
	nsize  int
	fail   bool
}

func (f fkey) coq() string {
	return fmt.Sprintf("(Build_fkey %s %s %d%%nat %s)", qMap(f.k), qHex(f.secret), f.nsize, qB(f.fail))
}
func (f fkey) Key() key.Key { return f.k }
func (f fkey) Sign(data []byte) ([]byte, error) {
	if f.fail {
		return nil, errors.New("fake: refused")
	}
	return append(append([]byte{}, f.secret...), data...), nil
}
func (f fkey) Verify(data, sig []byte) error {
	if !bytes.Equal(sig, append(append([]byte{}, f.secret...), data...)) {
		return errors.New("fake: invalid signature")
	}
	return nil
}
func (f fkey) MACCreate(data []byte) ([]byte, error) { return f.Sign(data) }
func (f fkey) MACVerify(data, mac []byte) error      { return f.Verify(data, mac) }
func (f fkey) hdr(nonce, aad []byte) []byte {
	h := append([]byte{}, f.secret...)
	h = append(h, byte(len(nonce)))
	h = append(h, nonce...)
	h = binary.BigEndian.AppendUint32(h, uint32(len(aad)))
	return append(h, aad...)
}
func (f fkey) NonceSize() int { return f.nsize }
func (f fkey) Encrypt(nonce, plaintext, aad []byte) ([]byte, error) {
	if f.fail || len(nonce) != f.nsize {
		return nil, errors.New("fake: refused")
	}
	return append(f.hdr(nonce, aad), plaintext...), nil
}
func (f fkey) Decrypt(nonce, ciphertext, aad []byte) ([]byte, error) {
	if len(nonce) != f.nsize {
		return nil, errors.New("fake: nonce size")
	}
	h := f.hdr(nonce, aad)
	if !bytes.HasPrefix(ciphertext, h) {
		return nil, errors.New("fake: authentication failed")
	}
	return ciphertext[len(h):], nil
}

// ---- generators

func genLabel(c *ctx, variants bool) any {
	n := 8
	if variants {
		n = 10
	}
	switch c.r.intn(n) {
	case 8: // other Go integer types: int64 / uint64 / uint are normalised, the narrow ones are refused
		v := 1 + c.r.intn(9)
		return pick(c.r, []any{int64(v), uint64(v), uint(v), int64(-v), int8(v), uint16(v), int32(v), int64(1) << 31, uint64(1) << 31})
	case 9: // the same small labels again, so that collisions after normalisation happen
		return 1 + c.r.intn(9)
	case 0:
		return pick(c.r, []string{"", "a", "b", "aa", "text-label", "z", "é"})
	case 1:
		return -1 - c.r.intn(40)
	case 2:
		return pick(c.r, []int{23, 24, 255, 256, 65535, 65536, -24, -25, -256, -257, 2147483647, -2147483648})
	default:
		return 7 + c.r.intn(60)
	}
}

var lenClasses = []int{0, 1, 5, 23, 24, 25, 255, 256, 300}

func genHeaderValue(c *ctx, depth int) any {
	switch c.r.intn(11) {
	case 0:
		return c.r.intn(100)
	case 1:
		return -1 - c.r.intn(100000)
	case 2:
		return pick(c.r, []any{int64(1) << 40, uint64(1) << 63, int8(-3), uint16(500), int32(-70000), int64(-1) << 62, uint8(24)})
	case 3:
		return c.r.bytes(pick(c.r, lenClasses))
	case 4:
		return pick(c.r, []string{"", "txt", "application/cwt", "ünï", strings.Repeat("s", 24), strings.Repeat("t", 256)})
	case 5:
		return c.r.bool()
	case 6:
		if depth <= 0 {
			return []any{}
		}
		n := c.r.intn(4)
		l := make([]any, 0, n)
		for i := 0; i < n; i++ {
			l = append(l, genHeaderValue(c, depth-1))
		}
		return l
	case 7:
		if depth <= 0 {
			return map[any]any{}
		}
		return map[any]any(genHeadersAt(c, depth-1, c.r.intn(4), false))
	case 8:
		return nil
	case 9:
		return key.ByteStr(c.r.bytes(c.r.intn(6)))
	default:
		return c.r.intn(5)
	}
}

func genHeaders(c *ctx, depth, n int) cose.Headers { return genHeadersAt(c, depth, n, true) }

// top-level header maps also use labels of other Go integer types (CoseMap.MarshalCBOR normalises or refuses them);
// nested map values keep plain int / string labels: a nested map[any]any goes to the CBOR library as it is (finding F17)
func genHeadersAt(c *ctx, depth, n int, variants bool) cose.Headers {
	h := cose.Headers{}
	for i := 0; i < n; i++ {
		h[genLabel(c, variants)] = genHeaderValue(c, depth)
	}
	return h
}

func qOptMap(h cose.Headers) string {
	if h == nil {
		return "None"
	}
	return "(Some " + qMap(h) + ")"
}

func genPayload(c *ctx) (any, string, string) { // value, coq `pay`, kind
	switch c.r.intn(9) {
	case 0:
		return []byte(nil), "PNil", "bytes"
	case 1:
		return []byte{}, "(PBytes [])", "bytes"
	case 2:
		n := pick(c.r, []int{1, 23, 24, 255, 256, 65535, 65536, 70000})
		if !c.thorough() && n > 300 && c.r.intn(6) != 0 {
			n = 300
		}
		seed := c.r.next()
		b := genBytes(seed, n)
		if n >= 64 {
			hexSub, hexSubTerm, hexSubDef = b, "BIGP", qGen(seed, n)
			return b, "(PBytes BIGP)", "bytes"
		}
		return b, fmt.Sprintf("(PBytes %s)", qGen(seed, n)), "bytes"
	case 3:
		b := key.MustMarshalCBOR(genHeaderValue(c, 2))
		return cbor.RawMessage(b), fmt.Sprintf("(PBytes %s)", qHex(b)), "raw"
	case 4:
		v := genHeaderValue(c, 2)
		if b, ok := v.([]byte); ok { // a []byte inside an `any` payload is taken verbatim, like T = []byte
			if b == nil {
				return v, "PNil", "any"
			}
			return v, fmt.Sprintf("(PBytes %s)", qHex(b)), "any"
		}
		return v, fmt.Sprintf("(PAny %s)", qGval(v)), "any"
	default:
		b := c.r.bytes(1 + c.r.intn(40))
		return b, fmt.Sprintf("(PBytes %s)", qHex(b)), "bytes"
	}
}

func genExt(c *ctx) ([]byte, string) {
	switch c.r.intn(4) {
	case 0:
		return nil, "None"
	case 1:
		return []byte{}, "(Some [])"
	default:
		b := c.r.bytes(pick(c.r, []int{1, 8, 23, 24, 255, 256}))
		return b, "(Some " + qHex(b) + ")"
	}
}

func genFkey(c *ctx, alg int) fkey {
	k := key.Key{iana.KeyParameterKty: iana.KeyTypeSymmetric}
	if alg != 0 {
		k[iana.KeyParameterAlg] = alg
	}
	switch c.r.intn(4) {
	case 0:
	case 1:
		k[iana.KeyParameterKid] = []byte{}
	default:
		k[iana.KeyParameterKid] = c.r.bytes(1 + c.r.intn(4))
	}
	nsize := pick(c.r, []int{7, 12, 13})
	if c.r.intn(3) == 0 {
		k[iana.KeyParameterBaseIV] = c.r.bytes(pick(c.r, []int{6, 12, 13, nsize, nsize, nsize}))
	}
	return fkey{k: k, secret: c.r.bytes(1 + c.r.intn(5)), nsize: nsize, fail: c.r.intn(25) == 0}
}

func genLeaf(c *ctx) (*cose.Recipient, string) {
	r := &cose.Recipient{}
	if c.r.intn(4) != 0 {
		r.Protected = genHeaders(c, 1, c.r.intn(3))
	}
	if c.r.intn(4) != 0 {
		r.Unprotected = genHeaders(c, 1, c.r.intn(3))
	}
	ct := "None"
	if c.r.intn(4) != 0 {
		r.Ciphertext = c.r.bytes(c.r.intn(30))
		ct = "(Some " + qHex(r.Ciphertext) + ")"
	}
	return r, fmt.Sprintf("(Build_rleaf %s %s %s)", qOptMap(r.Protected), qOptMap(r.Unprotected), ct)
}

func genRecip(c *ctx) (*cose.Recipient, string) {
	r, leaf := genLeaf(c)
	var subs []string
	if c.r.intn(3) == 0 {
		for i := 1 + c.r.intn(2); i > 0; i-- {
			s, st := genLeaf(c)
			if err := r.AddRecipient(s); err != nil {
				panic(err)
			}
			subs = append(subs, st)
		}
	}
	return r, fmt.Sprintf("(Build_recip %s %s)", leaf, qList(subs))
}

func qLeafSeen(r *cose.Recipient) string {
	ct := "None"
	if r.Ciphertext != nil {
		ct = "(Some " + qHex(r.Ciphertext) + ")"
	}
	return fmt.Sprintf("(Build_rleaf %s %s %s)", qOptMap(r.Protected), qOptMap(r.Unprotected), ct)
}
func qRecipSeen(r *cose.Recipient) string {
	var subs []string
	for _, s := range r.Recipients() {
		subs = append(subs, qLeafSeen(s))
	}
	return fmt.Sprintf("(Build_recip %s %s)", qLeafSeen(r), qList(subs))
}
func qRecipsSeen(rs []*cose.Recipient) string {
	var l []string
	for _, r := range rs {
		l = append(l, qRecipSeen(r))
	}
	return qList(l)
}

func qPayloadSeen(v any) string {
	switch b := v.(type) {
	case []byte:
		if b == nil {
			return "VNil"
		}
		return "(VBytes " + qHex(b) + ")"
	case cbor.RawMessage:
		if b == nil {
			return "VNil"
		}
		return "(VBytes " + qHex(b) + ")"
	}
	return qGval(v)
}

func qSeen(prot, unprot cose.Headers, payload any, recips []*cose.Recipient, sigs []*cose.Signature) string {
	var sl []string
	for _, s := range sigs {
		sg := "None"
		if s.Signature != nil {
			sg = "(Some " + qHex(s.Signature) + ")"
		}
		sl = append(sl, fmt.Sprintf("(%s, %s, %s)", qMap(s.Protected), qOptMap(s.Unprotected), sg))
	}
	return fmt.Sprintf("(Some (Build_seen %s %s %s %s %s))", qMap(prot), qOptMap(unprot), qPayloadSeen(payload), qRecipsSeen(recips), qList(sl))
}

var kindNames = []string{"KSign1", "KMac0", "KMac", "KEnc0", "KEnc"}

// produce one message of a single-key kind; T is the payload type
func produce1[T any](kind string, f fkey, prot, unprot cose.Headers, payload T, ext []byte, recips []*cose.Recipient) ([]byte, error) {
	switch kind {
	case "KSign1":
		m := &cose.Sign1Message[T]{Protected: prot, Unprotected: unprot, Payload: payload}
		return m.SignAndEncode(f, ext)
	case "KMac0":
		m := &cose.Mac0Message[T]{Protected: prot, Unprotected: unprot, Payload: payload}
		return m.ComputeAndEncode(f, ext)
	case "KEnc0":
		m := &cose.Encrypt0Message[T]{Protected: prot, Unprotected: unprot, Payload: payload}
		return m.EncryptAndEncode(f, ext)
	case "KMac":
		m := &cose.MacMessage[T]{Protected: prot, Unprotected: unprot, Payload: payload}
		for _, r := range recips {
			if err := m.AddRecipient(r); err != nil {
				return nil, err
			}
		}
		return m.ComputeAndEncode(f, ext)
	default:
		m := &cose.EncryptMessage[T]{Protected: prot, Unprotected: unprot, Payload: payload}
		for _, r := range recips {
			if err := m.AddRecipient(r); err != nil {
				return nil, err
			}
		}
		return m.EncryptAndEncode(f, ext)
	}
}

func produceS[T any](fs []fkey, prot, unprot cose.Headers, payload T, ext []byte) ([]byte, error) {
	m := &cose.SignMessage[T]{Protected: prot, Unprotected: unprot, Payload: payload}
	signers := key.Signers{}
	for _, f := range fs {
		signers = append(signers, f)
	}
	return m.SignAndEncode(signers, ext)
}

// consume with the entry points a user calls; returns the Coq `option seen`
func consume1[T any](kind string, f fkey, data, ext []byte) (string, error) {
	switch kind {
	case "KSign1":
		m, err := cose.VerifySign1Message[T](f, data, ext)
		if err != nil {
			return "None", err
		}
		return qSeen(m.Protected, m.Unprotected, any(m.Payload), nil, nil), nil
	case "KMac0":
		m, err := cose.VerifyMac0Message[T](f, data, ext)
		if err != nil {
			return "None", err
		}
		return qSeen(m.Protected, m.Unprotected, any(m.Payload), nil, nil), nil
	case "KEnc0":
		m, err := cose.DecryptEncrypt0Message[T](f, data, ext)
		if err != nil {
			return "None", err
		}
		return qSeen(m.Protected, m.Unprotected, any(m.Payload), nil, nil), nil
	case "KMac":
		m, err := cose.VerifyMacMessage[T](f, data, ext)
		if err != nil {
			return "None", err
		}
		return qSeen(m.Protected, m.Unprotected, any(m.Payload), m.Recipients(), nil), nil
	default:
		m, err := cose.DecryptEncryptMessage[T](f, data, ext)
		if err != nil {
			return "None", err
		}
		return qSeen(m.Protected, m.Unprotected, any(m.Payload), m.Recipients(), nil), nil
	}
}

func consumeS[T any](fs []fkey, data, ext []byte) (string, error) {
	vs := key.Verifiers{}
	for _, f := range fs {
		vs = append(vs, f)
	}
	m, err := cose.VerifySignMessage[T](vs, data, ext)
	if err != nil {
		return "None", err
	}
	return qSeen(m.Protected, m.Unprotected, any(m.Payload), nil, m.Signatures()), nil
}

func reencode(kind string, data []byte) ([]byte, error) {
	switch kind {
	case "KSign1":
		m := &cose.Sign1Message[[]byte]{}
		if err := m.UnmarshalCBOR(data); err != nil {
			return nil, err
		}
		return m.MarshalCBOR()
	case "KMac0":
		m := &cose.Mac0Message[[]byte]{}
		if err := m.UnmarshalCBOR(data); err != nil {
			return nil, err
		}
		return m.MarshalCBOR()
	case "KEnc0":
		m := &cose.Encrypt0Message[[]byte]{}
		if err := m.UnmarshalCBOR(data); err != nil {
			return nil, err
		}
		return m.MarshalCBOR()
	case "KMac":
		m := &cose.MacMessage[[]byte]{}
		if err := m.UnmarshalCBOR(data); err != nil {
			return nil, err
		}
		return m.MarshalCBOR()
	case "KEnc":
		m := &cose.EncryptMessage[[]byte]{}
		if err := m.UnmarshalCBOR(data); err != nil {
			return nil, err
		}
		return m.MarshalCBOR()
	default:
		m := &cose.SignMessage[[]byte]{}
		if err := m.UnmarshalCBOR(data); err != nil {
			return nil, err
		}
		return m.MarshalCBOR()
	}
}

// one message object used for two messages in a row: the second outcome must be that of a fresh object
func reuseSeq(kind string, f fkey, a, b, extA, extB []byte) (payload []byte, err error) {
	switch kind {
	case "KSign1":
		m := &cose.Sign1Message[[]byte]{}
		if m.UnmarshalCBOR(a) == nil {
			m.Verify(f, extA)
		}
		if err = m.UnmarshalCBOR(b); err == nil {
			err = m.Verify(f, extB)
		}
		return m.Payload, err
	case "KMac0":
		m := &cose.Mac0Message[[]byte]{}
		if m.UnmarshalCBOR(a) == nil {
			m.Verify(f, extA)
		}
		if err = m.UnmarshalCBOR(b); err == nil {
			err = m.Verify(f, extB)
		}
		return m.Payload, err
	case "KMac":
		m := &cose.MacMessage[[]byte]{}
		if m.UnmarshalCBOR(a) == nil {
			m.Verify(f, extA)
		}
		if err = m.UnmarshalCBOR(b); err == nil {
			err = m.Verify(f, extB)
		}
		return m.Payload, err
	case "KEnc0":
		m := &cose.Encrypt0Message[[]byte]{}
		if m.UnmarshalCBOR(a) == nil {
			m.Decrypt(f, extA)
		}
		if err = m.UnmarshalCBOR(b); err == nil {
			err = m.Decrypt(f, extB)
		}
		return m.Payload, err
	case "KEnc":
		m := &cose.EncryptMessage[[]byte]{}
		if m.UnmarshalCBOR(a) == nil {
			m.Decrypt(f, extA)
		}
		if err = m.UnmarshalCBOR(b); err == nil {
			err = m.Decrypt(f, extB)
		}
		return m.Payload, err
	default:
		m := &cose.SignMessage[[]byte]{}
		vs := key.Verifiers{f}
		if m.UnmarshalCBOR(a) == nil {
			m.Verify(vs, extA)
		}
		if err = m.UnmarshalCBOR(b); err == nil {
			err = m.Verify(vs, extB)
		}
		return m.Payload, err
	}
}

// one decoded object, two calls with (possibly) different external data; the outcome of the second
func reverifySeq(kind string, f fkey, a, ext1, ext2 []byte) (payload []byte, err error) {
	switch kind {
	case "KSign1":
		m := &cose.Sign1Message[[]byte]{}
		if err = m.UnmarshalCBOR(a); err == nil {
			m.Verify(f, ext1)
			err = m.Verify(f, ext2)
		}
		return m.Payload, err
	case "KMac0":
		m := &cose.Mac0Message[[]byte]{}
		if err = m.UnmarshalCBOR(a); err == nil {
			m.Verify(f, ext1)
			err = m.Verify(f, ext2)
		}
		return m.Payload, err
	case "KMac":
		m := &cose.MacMessage[[]byte]{}
		if err = m.UnmarshalCBOR(a); err == nil {
			m.Verify(f, ext1)
			err = m.Verify(f, ext2)
		}
		return m.Payload, err
	case "KEnc0":
		m := &cose.Encrypt0Message[[]byte]{}
		if err = m.UnmarshalCBOR(a); err == nil {
			m.Decrypt(f, ext1)
			m.Payload = nil
			err = m.Decrypt(f, ext2)
		}
		return m.Payload, err
	default:
		m := &cose.EncryptMessage[[]byte]{}
		if err = m.UnmarshalCBOR(a); err == nil {
			m.Decrypt(f, ext1)
			m.Payload = nil
			err = m.Decrypt(f, ext2)
		}
		return m.Payload, err
	}
}

// the producing object: sign / compute / encrypt with extP, then verify / decrypt on the same object with extC
func producerSeq(kind string, f fkey, prot, unprot cose.Headers, payload, extP, extC []byte, recips []*cose.Recipient) (enc, pl []byte, err, perr error) {
	switch kind {
	case "KSign1":
		m := &cose.Sign1Message[[]byte]{Protected: prot, Unprotected: unprot, Payload: payload}
		if enc, perr = m.SignAndEncode(f, extP); perr != nil {
			return
		}
		err = m.Verify(f, extC)
		return enc, m.Payload, err, nil
	case "KMac0":
		m := &cose.Mac0Message[[]byte]{Protected: prot, Unprotected: unprot, Payload: payload}
		if enc, perr = m.ComputeAndEncode(f, extP); perr != nil {
			return
		}
		err = m.Verify(f, extC)
		return enc, m.Payload, err, nil
	case "KMac":
		m := &cose.MacMessage[[]byte]{Protected: prot, Unprotected: unprot, Payload: payload}
		for _, r := range recips {
			if perr = m.AddRecipient(r); perr != nil {
				return
			}
		}
		if enc, perr = m.ComputeAndEncode(f, extP); perr != nil {
			return
		}
		err = m.Verify(f, extC)
		return enc, m.Payload, err, nil
	case "KEnc0":
		m := &cose.Encrypt0Message[[]byte]{Protected: prot, Unprotected: unprot, Payload: payload}
		if enc, perr = m.EncryptAndEncode(f, extP); perr != nil {
			return
		}
		m.Payload = nil
		err = m.Decrypt(f, extC)
		return enc, m.Payload, err, nil
	default:
		m := &cose.EncryptMessage[[]byte]{Protected: prot, Unprotected: unprot, Payload: payload}
		for _, r := range recips {
			if perr = m.AddRecipient(r); perr != nil {
				return
			}
		}
		if enc, perr = m.EncryptAndEncode(f, extP); perr != nil {
			return
		}
		m.Payload = nil
		err = m.Decrypt(f, extC)
		return enc, m.Payload, err, nil
	}
}

func plainLabels(h cose.Headers) bool {
	for k := range h {
		switch k.(type) {
		case int, string:
		default:
			return false
		}
	}
	return true
}

func cloneHeaders(h cose.Headers) cose.Headers {
	if h == nil {
		return nil
	}
	out := cose.Headers{}
	for k, v := range h {
		out[k] = v
	}
	return out
}

// recipients are rebuilt from their encoding (AddRecipient marks them as attached)
func cloneRecips(rs []*cose.Recipient) []*cose.Recipient {
	var out []*cose.Recipient
	for _, r := range rs {
		b, err := r.MarshalCBOR()
		if err != nil {
			return nil
		}
		n := &cose.Recipient{}
		if n.UnmarshalCBOR(b) != nil {
			return nil
		}
		out = append(out, n)
	}
	return out
}

func freshSeq(kind string, f fkey, b, extB []byte) (payload []byte, err error) {
	return reuseSeq(kind, f, []byte{0xff}, b, nil, extB)
}

func optOut(b []byte, err error) string {
	if err != nil {
		return "None"
	}
	return "(Some " + qHex(b) + ")"
}

func short(s string) string {
	if len(s) > 400 {
		return s[:400] + "..."
	}
	return s
}

// mutations of an encoding: the malformations C08 lists and the tampering C02 / C03 quantify over
// mpos picks the position of a mutation; in a very long encoding (large payload) it stays in the head, so that the
// case files can still name the payload by its generator term
func mpos(c *ctx, n int) int {
	if n > 4000 {
		return c.r.intn(48)
	}
	return c.r.intn(n)
}

func mutate(c *ctx, data []byte) ([]byte, string) {
	d := append([]byte{}, data...)
	if len(d) == 0 {
		return d, "empty"
	}
	switch c.r.intn(13) {
	case 12: // a well-formed array with one member more (null, an empty array, an empty string, an empty map) or one less
		if parts, ok := topElems(d); ok && len(parts) >= 1 && len(parts) < 22 {
			if c.r.intn(3) == 0 {
				return joinElems(parts[:len(parts)-1]), "one-member-less"
			}
			extra := pick(c.r, [][]byte{{0xf6}, {0x80}, {0x40}, {0xa0}, {0x81, 0x83, 0x40, 0xa0, 0x40}})
			out := joinElems(append(append([]cbor.RawMessage{}, parts...), extra))
			if c.r.bool() && len(data) > 2 && (data[0] == 0xd8 || data[0]&0xe0 == 0xc0) {
				// keep the tag the message had
				tl := 1
				if data[0] == 0xd8 {
					tl = 2
				}
				out = append(append([]byte{}, data[:tl]...), out...)
			}
			return out, "one-member-more"
		}
		return append(d, 0xf6), "trailing"
	case 0:
		pos := mpos(c, len(d))
		d[pos] ^= 1 << uint(c.r.intn(8))
		return d, "bitflip"
	case 1:
		if len(d) > 4000 {
			return d[:len(d)-1-c.r.intn(3)], "truncate"
		}
		return d[:c.r.intn(len(d))], "truncate"
	case 2:
		return append(d, byte(c.r.intn(256))), "trailing"
	case 3:
		pos := mpos(c, len(d))
		d[pos] = d[pos]&0xe0 | 31
		return d, "indefinite"
	case 4: // wrong arity: change the array head after the tag
		for i := 0; i < len(d) && i < 4; i++ {
			if d[i]&0xe0 == 0x80 {
				d[i] = 0x80 | byte(c.r.intn(8))
				break
			}
		}
		return d, "arity"
	case 5: // splice: duplicate a span somewhere else
		if len(d) > 6 {
			a, b := mpos(c, len(d)-3), mpos(c, len(d)-3)
			copy(d[a:a+3], data[b:b+3])
		}
		return d, "splice"
	case 6: // self-described tag in front
		return append([]byte{0xd9, 0xd9, 0xf7}, d...), "self-described"
	case 7: // CWT tag in front
		return append([]byte{0xd8, 0x3d}, d...), "cwt-tag"
	case 8: // some other tag in front
		return append([]byte{0xc0 | byte(c.r.intn(24))}, d...), "other-tag"
	case 9: // replace a byte by null
		d[mpos(c, len(d))] = 0xf6
		return d, "null"
	case 10: // replace one byte arbitrarily
		d[mpos(c, len(d))] = byte(c.r.intn(256))
		return d, "byte"
	default: // drop one byte
		pos := mpos(c, len(d))
		return append(d[:pos], d[pos+1:]...), "drop"
	}
}

// a foreign but valid encoding of a message: fields written with non-shortest heads, unsorted maps
func foreignMessage(c *ctx, kind string, f fkey, ext []byte, typedBad bool) ([]byte, string) {
	enc := func(it *citem) []byte { return it.enc(nil) }
	bstr := func(b []byte) *citem {
		return &citem{kind: 2, b: b, width: pick(c.r, []int{0, 0, 1, 2, 4, 8})}
	}
	alg := 0
	if a, err := f.k.GetInt(iana.KeyParameterAlg); err == nil {
		alg = a
	}
	// protected bucket: a map in a non-canonical form
	pm := &citem{kind: 5, width: pick(c.r, []int{0, 1, 2})}
	if alg != 0 && c.r.intn(4) != 0 {
		a := &citem{kind: 0, n: uint64(alg), width: pick(c.r, []int{0, 1, 2, 4})}
		if alg < 0 {
			a = &citem{kind: 1, n: uint64(-1 - alg), width: pick(c.r, []int{0, 1, 2, 4})}
		}
		pm.m = append(pm.m, [2]*citem{{kind: 0, n: 1, width: pick(c.r, []int{0, 1, 8})}, a})
	}
	for i := c.r.intn(3); i > 0; i-- {
		pm.m = append(pm.m, [2]*citem{{kind: 0, n: uint64(40 + len(pm.m)*7 + c.r.intn(5)), width: pick(c.r, []int{0, 2})}, genItem(c, 1, false)})
	}
	c.r.shuffleItems(pm.m)
	var prot []byte
	switch {
	case len(pm.m) == 0 && c.r.bool():
		prot = []byte{}
	default:
		prot = enc(pm)
	}
	um := &citem{kind: 5, width: pick(c.r, []int{0, 1})}
	if kid := f.k.Kid(); len(kid) > 0 || c.r.bool() {
		um.m = append(um.m, [2]*citem{{kind: 0, n: 4}, bstr(kid)})
	}
	payload := c.r.bytes(c.r.intn(30))
	if typedBad {
		// a typed payload whose own encoding is not strict CBOR: duplicate keys (also nested, also 01 vs 1801), indefinite length
		payload = pick(c.r, [][]byte{{0xa2, 0x01, 0x02, 0x01, 0x03}, {0xa2, 0x01, 0x02, 0x18, 0x01, 0x03}, {0x81, 0xa2, 0x61, 0x61, 0x01, 0x61, 0x61, 0x02},
			{0x9f, 0x01, 0xff}, {0xbf, 0x01, 0x02, 0xff}, {0x5f, 0x41, 0x00, 0xff}, {0xa1, 0x01, 0x9f, 0xff}, {0xa1, 0x01, 0x02, 0x00}, {0xa1, 0x01, 0xa2, 0x02, 0x00, 0x02, 0x01}})
	}
	ctx := map[string]string{"KSign1": "Signature1", "KMac0": "MAC0", "KMac": "MAC", "KEnc0": "Encrypt0", "KEnc": "Encrypt"}[kind]
	e := ext
	if e == nil {
		e = []byte{}
	}
	var tb []any
	if kind == "KEnc0" || kind == "KEnc" {
		tb = []any{ctx, prot, e}
	} else {
		tb = []any{ctx, prot, e, payload}
	}
	structure := key.MustMarshalCBOR(tb)
	arr := &citem{kind: 4, width: pick(c.r, []int{0, 0, 1})}
	arr.l = []*citem{bstr(prot)}
	var auth []byte
	if kind == "KEnc0" || kind == "KEnc" {
		nonce := c.r.bytes(f.nsize)
		um.m = append(um.m, [2]*citem{{kind: 0, n: 5}, bstr(nonce)})
		auth = append(f.hdr(nonce, structure), payload...)
		arr.l = append(arr.l, um, bstr(auth))
	} else {
		auth = append(append([]byte{}, f.secret...), structure...)
		arr.l = append(arr.l, um, bstr(payload), bstr(auth))
	}
	if kind == "KMac" || kind == "KEnc" {
		rec := &citem{kind: 4, l: []*citem{bstr([]byte{}), {kind: 5}, bstr(c.r.bytes(3))}}
		arr.l = append(arr.l, &citem{kind: 4, l: []*citem{rec}, width: pick(c.r, []int{0, 1})})
	}
	tag := map[string]uint64{"KSign1": 18, "KMac0": 17, "KMac": 97, "KEnc0": 16, "KEnc": 96}[kind]
	form := c.r.intn(4)
	switch form {
	case 0:
		return enc(arr), "foreign-untagged"
	case 1:
		return enc(&citem{kind: 6, n: tag, v: arr}), "foreign-tagged"
	case 2:
		return enc(&citem{kind: 6, n: 61, v: &citem{kind: 6, n: tag, v: arr}}), "foreign-cwt"
	default:
		return enc(&citem{kind: 6, n: tag, v: arr, width: pick(c.r, []int{1, 2, 4})}), "foreign-widetag"
	}
}

func consumeCase(c *ctx, kind string, f fkey, data, ext []byte, extT, tag string, ptype string) {
	var term string
	var err error
	line := short(fmt.Sprintf("consume|%s|%s|%s|key=%s|ext=%x|%x", kind, tag, ptype, describe(f.k), ext, data))
	p, pm := catch(func() {
		switch ptype {
		case "any":
			term, err = consume1[any](kind, f, data, ext)
		case "raw":
			term, err = consume1[cbor.RawMessage](kind, f, data, ext)
		default:
			term, err = consume1[[]byte](kind, f, data, ext)
		}
	})
	if p {
		c.fail(failure{Op: "consume", What: "panic while consuming a message", Input: line, Observed: "panic: " + pm, Expected: "value or error", Case: line})
		return
	}
	c.addCase(fmt.Sprintf("MCons %s %s %s %s %s %s", kind, qB(ptype == "any"), f.coq(), qHex(data), extT, term), line+fmt.Sprintf(" => ok=%v", err == nil))
	if err != nil {
		checkNoPlaintext(c, kind, f, data, ext, line)
	}
	c.nontriv(fmt.Sprintf("consume|%s|%s|%v", kind, tag, err == nil))
	c.count(fmt.Sprintf("consume %s %s ok=%v", kind, tag, err == nil))
}

func streamMsg(c *ctx) {
	c.beginCases("From Cose Require Import Lib.Cbor Model.GoVal Model.Key Model.Msg Model.MsgWireCorr.", "msg_case", "check_msg_case")
	c.maxCases = 120
	typedPayloadProduced(c) // (oracle: typed and pre-encoded payloads produced and accepted back, all six kinds)
	saved := rand.Reader
	defer func() { rand.Reader = saved }()
	var pool [][]byte // produced encodings, for splices
	consumeAll := func(kind string, f fkey, data, ext []byte, extT, tag string, ptype string) {
		consumeCase(c, kind, f, data, ext, extT, tag, ptype)
	}
	n := c.n(260, 4000)
	for i := 0; i < n; i++ {
		kind := kindNames[i%5]
		alg := pick(c.r, []int{0, 1, 5, 10, 24, -7, 14})
		f := genFkey(c, alg)
		var prot, unprot cose.Headers
		switch c.r.intn(5) {
		case 0:
		case 1:
			prot = cose.Headers{}
		case 2:
			prot = genHeaders(c, 2, 1+c.r.intn(3))
			if alg != 0 {
				prot[iana.HeaderParameterAlg] = alg
			}
		default:
			prot = genHeaders(c, 2, c.r.intn(4))
		}
		if c.r.intn(3) != 0 {
			unprot = genHeaders(c, 2, c.r.intn(4))
			if kid := f.k.Kid(); len(kid) > 0 && c.r.bool() {
				unprot[iana.HeaderParameterKid] = []byte(kid)
			}
			if (kind == "KEnc0" || kind == "KEnc") && c.r.intn(3) == 0 {
				unprot[iana.HeaderParameterIV] = c.r.bytes(f.nsize)
			}
			if (kind == "KEnc0" || kind == "KEnc") && (c.r.intn(6) == 0 || f.k.Has(iana.KeyParameterBaseIV) && !unprot.Has(iana.HeaderParameterIV) && c.r.bool()) {
				unprot[iana.HeaderParameterPartialIV] = c.r.bytes(1 + c.r.intn(5))
			}
		}
		hexSub = nil
		payload, payT, ptype := genPayload(c)
		ext, extT := genExt(c)
		var recips []*cose.Recipient
		var recT []string
		if kind == "KMac" || kind == "KEnc" {
			for j := c.r.intn(4); j > 0; j-- {
				r, t := genRecip(c)
				recips = append(recips, r)
				recT = append(recT, t)
			}
		}
		draw := c.r.bytes(f.nsize)
		prot0, unprot0 := cloneHeaders(prot), cloneHeaders(unprot)
		recips0 := cloneRecips(recips)
		rand.Reader = &counterReader{next: draw}
		protT, unprotT := qOptMap(prot), qOptMap(unprot) // before the library fills them in
		fT, keyT := f.coq(), qMap(f.k)                   // and before it could touch the key
		var data []byte
		var err error
		p, pm := catch(func() {
			switch v := payload.(type) {
			case []byte:
				data, err = produce1[[]byte](kind, f, prot, unprot, v, ext, recips)
			case cbor.RawMessage:
				data, err = produce1[cbor.RawMessage](kind, f, prot, unprot, v, ext, recips)
			default:
				data, err = produce1[any](kind, f, prot, unprot, payload, ext, recips)
			}
		})
		rand.Reader = saved
		line := short(fmt.Sprintf("produce|%s|key=%s|prot=%s|unprot=%s|payload=%s|ext=%x", kind, describe(f.k), protT, unprotT, payT, ext))
		if p {
			c.fail(failure{Op: "produce", What: "panic while producing a message", Input: line, Observed: "panic: " + pm, Expected: "bytes or error", Case: line})
			continue
		}
		if qMap(f.k) != keyT {
			c.fail(failure{Op: "produce", What: "producing a message changed the caller's key", Input: line, Observed: qMap(f.k), Expected: keyT, Case: line})
		}
		c.addCase(fmt.Sprintf("MProd %s %s %s %s %s %s %s %s %s", kind, fT, protT, unprotT, payT, extT, qHex(draw), qList(recT), optOut(data, err)),
			line+fmt.Sprintf(" => %s", short(fmt.Sprintf("%x err=%v", data, err))))
		c.nontriv(fmt.Sprintf("produce|%s|%s|%v", kind, ptype, err == nil))
		c.count(fmt.Sprintf("produce %s payload=%s ok=%v", kind, ptype, err == nil))
		if i < 3 {
			c.sample(fmt.Sprintf("%s %x", kind, data))
		}
		if err != nil {
			continue
		}
		pool = append(pool, data)
		// consume: as produced, untagged, CWT-tagged
		forms := [][]byte{data, cose.RemoveCBORTag(data), append([]byte{0xd8, 0x3d}, data...)}
		form := c.r.intn(3)
		consumeAll(kind, f, forms[form], ext, extT, []string{"tagged", "untagged", "cwt"}[form], ptype)
		c.addCase(fmt.Sprintf("MUntag %s %s", qHex(forms[2]), qHex(cose.RemoveCBORTag(forms[2]))), "untag")
		// re-encode
		if ptype != "any" {
			out, rerr := reencode(kind, forms[c.r.intn(3)])
			c.addCase(fmt.Sprintf("MReenc %s %s %s", kind, qHex(data), optOut(out, rerr)), short(fmt.Sprintf("reencode|%s|%x", kind, data)))
			if rerr != nil || !bytes.Equal(out, data) {
				c.fail(failure{Op: "reencode", What: "decoding a produced message and encoding it again changed the bytes", Input: line,
					Observed: fmt.Sprintf("%x err=%v", out, rerr), Expected: fmt.Sprintf("%x", data), Case: line})
			}
		}
		// wrong key / wrong external data / mutated encodings
		switch c.r.intn(5) {
		case 0:
			g := f
			g.secret = append([]byte{0x55}, f.secret...)
			consumeAll(kind, g, data, ext, extT, "wrong-key", ptype)
		case 1:
			e2 := append(append([]byte{}, ext...), 1)
			consumeAll(kind, f, data, e2, "(Some "+qHex(e2)+")", "wrong-ext", ptype)
		case 2:
			g := f
			g.k = key.Key{iana.KeyParameterKty: 4, iana.KeyParameterAlg: pick(c.r, []int{0, 1, 5, 7, -8}), iana.KeyParameterKid: []byte("other")}
			consumeAll(kind, g, data, ext, extT, "other-alg-key", ptype)
		case 3:
			other := kindNames[c.r.intn(5)]
			consumeAll(other, f, data, ext, extT, "as-"+other, ptype)
		default:
		}
		for j := 0; j < 2; j++ {
			m, tag := mutate(c, data)
			consumeAll(kind, f, m, ext, extT, tag, ptype)
			if j == 0 {
				out, rerr := reencode(kind, m)
				c.addCase(fmt.Sprintf("MReenc %s %s %s", kind, qHex(m), optOut(out, rerr)), short(fmt.Sprintf("reencode|%s|%s|%x", kind, tag, m)))
			}
		}
		// the same object used for this message and then for a forged / another one
		if !f.fail {
			e0 := ext
			if e0 == nil {
				e0 = []byte{}
			}
			var forged []byte
			other := c.r.bytes(1 + c.r.intn(20))
			if parts, ok := topElems(data); ok && len(parts) >= 3 && (kind == "KSign1" || kind == "KMac0" || kind == "KMac") {
				sp := append([]cbor.RawMessage{}, parts...)
				sp[2] = key.MustMarshalCBOR(other) // another payload under the first message's protected bucket and signature
				forged = joinElems(sp)
			} else {
				forged, _ = mutate(c, data)
			}
			for _, second := range [][]byte{forged, data} {
				pl1, err1 := reuseSeq(kind, f, data, second, ext, ext)
				pl2, err2 := freshSeq(kind, f, second, ext)
				c.eval()
				if (err1 == nil) != (err2 == nil) || err1 == nil && !bytes.Equal(pl1, pl2) {
					c.fail(failure{Op: "object-reuse", What: "a message object that already verified one message treats the next one differently from a fresh object", Input: line + short(fmt.Sprintf("|second=%x", second)),
						Observed: short(fmt.Sprintf("reused: payload=%x err=%v", pl1, err1)), Expected: short(fmt.Sprintf("fresh: payload=%x err=%v", pl2, err2)), Case: line})
				}
			}
		}
		// one decoded object asked twice with different external data, and the producing object asked to verify / decrypt:
		// every call must answer as a fresh object would
		if !f.fail {
			e2 := append(append([]byte{}, ext...), 0x5a)
			for _, pair := range [][2][]byte{{ext, e2}, {e2, ext}, {ext, nil}, {ext, ext}} {
				pl1, err1 := reverifySeq(kind, f, data, pair[0], pair[1])
				pl2, err2 := freshSeq(kind, f, data, pair[1])
				c.eval()
				if (err1 == nil) != (err2 == nil) || err1 == nil && !bytes.Equal(pl1, pl2) {
					c.fail(failure{Op: "object-reuse", What: "the second Verify / Decrypt on one decoded object answers differently from a fresh object", Input: line + short(fmt.Sprintf("|ext1=%x|ext2=%x", pair[0], pair[1])),
						Observed: short(fmt.Sprintf("second call: payload=%x err=%v", pl1, err1)), Expected: short(fmt.Sprintf("fresh: payload=%x err=%v", pl2, err2)), Case: line})
				}
			}
			// (header labels of a Go type other than int read differently before and after encoding: outside the CoseMap contract)
			if pb, ok := payload.([]byte); ok && plainLabels(prot0) && plainLabels(unprot0) {
				for _, e := range [][]byte{e2, ext} {
					rand.Reader = &counterReader{next: draw}
					enc, pl1, err1, perr := producerSeq(kind, f, cloneHeaders(prot0), cloneHeaders(unprot0), pb, ext, e, recips0)
					rand.Reader = saved
					if perr != nil {
						continue
					}
					pl2, err2 := freshSeq(kind, f, enc, e)
					c.eval()
					if (err1 == nil) != (err2 == nil) || err1 == nil && !bytes.Equal(pl1, pl2) {
						c.fail(failure{Op: "object-reuse", What: "Verify / Decrypt on the producing object answers differently from a fresh object decoding its encoding", Input: line + short(fmt.Sprintf("|ext-produce=%x|ext-consume=%x", ext, e)),
							Observed: short(fmt.Sprintf("producer object: payload=%x err=%v", pl1, err1)), Expected: short(fmt.Sprintf("fresh: payload=%x err=%v", pl2, err2)), Case: line})
					}
				}
			}
			if qMap(f.k) != keyT {
				c.fail(failure{Op: "consume", What: "consuming messages changed the caller's key", Input: line, Observed: qMap(f.k), Expected: keyT, Case: line})
			}
		}
		// foreign encodings that must verify, and their re-encoding
		fk := f
		fk.fail = false
		fm, ftag := foreignMessage(c, kind, fk, ext, false)
		consumeAll(kind, fk, fm, ext, extT, ftag, "bytes")
		if c.r.intn(3) == 0 {
			bm, btag := foreignMessage(c, kind, fk, ext, true)
			consumeAll(kind, fk, bm, ext, extT, btag+"-payload-not-strict", "any")
		}
		out, rerr := reencode(kind, fm)
		c.addCase(fmt.Sprintf("MReenc %s %s %s", kind, qHex(fm), optOut(out, rerr)), short(fmt.Sprintf("reencode|%s|%s|%x", kind, ftag, fm)))
		if rerr == nil {
			consumeAll(kind, fk, out, ext, extT, ftag+"-reencoded", "bytes")
		}
	}
	hexSub = nil
	streamMsgSign(c, &pool)
	hexSub = nil
	streamMsgParts(c)
}

// COSE_Sign with several signers
func streamMsgSign(c *ctx, pool *[][]byte) {
	n := c.n(120, 1500)
	for i := 0; i < n; i++ {
		var fs []fkey
		var ft []string
		shared := c.r.intn(4) == 0
		for j := c.r.intn(4); j > 0 || (len(fs) == 0 && c.r.intn(8) != 0); j-- {
			f := genFkey(c, pick(c.r, []int{0, -7, -8, -35}))
			if shared {
				f.k[iana.KeyParameterKid] = []byte("same")
			}
			fs = append(fs, f)
			ft = append(ft, f.coq())
		}
		var prot, unprot cose.Headers
		if c.r.intn(3) != 0 {
			prot = genHeaders(c, 2, c.r.intn(3))
		}
		if c.r.intn(3) != 0 {
			unprot = genHeaders(c, 2, c.r.intn(3))
		}
		hexSub = nil
		payload, payT, ptype := genPayload(c)
		ext, extT := genExt(c)
		protT, unprotT := qOptMap(prot), qOptMap(unprot)
		var data []byte
		var err error
		p, pm := catch(func() {
			switch v := payload.(type) {
			case []byte:
				data, err = produceS[[]byte](fs, prot, unprot, v, ext)
			case cbor.RawMessage:
				data, err = produceS[cbor.RawMessage](fs, prot, unprot, v, ext)
			default:
				data, err = produceS[any](fs, prot, unprot, payload, ext)
			}
		})
		line := short(fmt.Sprintf("produce|KSign|signers=%d|prot=%s|unprot=%s|payload=%s|ext=%x", len(fs), protT, unprotT, payT, ext))
		if p {
			c.fail(failure{Op: "produce", What: "panic while producing a message", Input: line, Observed: "panic: " + pm, Expected: "bytes or error", Case: line})
			continue
		}
		c.addCase(fmt.Sprintf("MProdS %s %s %s %s %s %s", qList(ft), protT, unprotT, payT, extT, optOut(data, err)), line+short(fmt.Sprintf(" => %x err=%v", data, err)))
		c.nontriv(fmt.Sprintf("produce|KSign|%d|%v", len(fs), err == nil))
		c.count(fmt.Sprintf("produce KSign signers=%d ok=%v", len(fs), err == nil))
		if err != nil {
			continue
		}
		cons := func(vs []fkey, d []byte, e []byte, eT, tag string) {
			var vt []string
			for _, v := range vs {
				vt = append(vt, v.coq())
			}
			var term string
			var cerr error
			l := short(fmt.Sprintf("consume|KSign|%s|verifiers=%d|ext=%x|%x", tag, len(vs), e, d))
			p, pm := catch(func() {
				if ptype == "any" {
					term, cerr = consumeS[any](vs, d, e)
				} else {
					term, cerr = consumeS[[]byte](vs, d, e)
				}
			})
			if p {
				c.fail(failure{Op: "consume", What: "panic while consuming a message", Input: l, Observed: "panic: " + pm, Expected: "value or error", Case: l})
				return
			}
			c.addCase(fmt.Sprintf("MConsS %s %s %s %s %s", qB(ptype == "any"), qList(vt), qHex(d), eT, term), l+fmt.Sprintf(" => ok=%v", cerr == nil))
			c.nontriv(fmt.Sprintf("consume|KSign|%s|%v", tag, cerr == nil))
			c.count(fmt.Sprintf("consume KSign %s ok=%v", tag, cerr == nil))
		}
		forms := [][]byte{data, cose.RemoveCBORTag(data), append([]byte{0xd8, 0x3d}, data...)}
		cons(fs, forms[c.r.intn(3)], ext, extT, "produced")
		if len(fs) > 1 {
			cons(fs[1:], data, ext, extT, "missing-verifier")
			rev := []fkey{}
			for j := len(fs) - 1; j >= 0; j-- {
				rev = append(rev, fs[j])
			}
			cons(rev, data, ext, extT, "reordered-verifiers")
		}
		cons(nil, data, ext, extT, "no-verifiers")
		m, tag := mutate(c, data)
		cons(fs, m, ext, extT, tag)
		out, rerr := reencode("KSign", data)
		c.addCase(fmt.Sprintf("MReenc KSign %s %s", qHex(data), optOut(out, rerr)), short(fmt.Sprintf("reencode|KSign|%x", data)))
		if rerr != nil || !bytes.Equal(out, data) {
			c.fail(failure{Op: "reencode", What: "decoding a produced message and encoding it again changed the bytes", Input: line,
				Observed: fmt.Sprintf("%x err=%v", out, rerr), Expected: fmt.Sprintf("%x", data), Case: line})
		}
		out, rerr = reencode("KSign", m)
		c.addCase(fmt.Sprintf("MReenc KSign %s %s", qHex(m), optOut(out, rerr)), short(fmt.Sprintf("reencode|KSign|%s|%x", tag, m)))
		// a foreign COSE_Sign: per-signer protected bucket in a non-canonical form, empty signature list, null entries
		if len(fs) > 0 {
			f := fs[0]
			f.fail = false
			alg, _ := f.k.GetInt(iana.KeyParameterAlg)
			sp := &citem{kind: 5, width: pick(c.r, []int{0, 1, 2})}
			if alg != 0 {
				a := &citem{kind: 1, n: uint64(-1 - alg), width: pick(c.r, []int{0, 1, 2})}
				if alg > 0 {
					a = &citem{kind: 0, n: uint64(alg), width: pick(c.r, []int{0, 1, 2})}
				}
				sp.m = append(sp.m, [2]*citem{{kind: 0, n: 1, width: pick(c.r, []int{0, 1})}, a})
			}
			if c.r.bool() {
				sp.m = append([][2]*citem{{{kind: 3, b: []byte("zz")}, {kind: 0, n: 1}}}, sp.m...)
			}
			spb := sp.enc(nil)
			body := []byte{}
			pl := c.r.bytes(c.r.intn(20))
			e := ext
			if e == nil {
				e = []byte{}
			}
			tbs := key.MustMarshalCBOR([]any{"Signature", body, spb, e, pl})
			sig := append(append([]byte{}, f.secret...), tbs...)
			um := &citem{kind: 5}
			if kid := f.k.Kid(); len(kid) > 0 {
				um.m = append(um.m, [2]*citem{{kind: 0, n: 4}, {kind: 2, b: kid}})
			}
			se := &citem{kind: 4, l: []*citem{{kind: 2, b: spb}, um, {kind: 2, b: sig}}}
			sigs := &citem{kind: 4, l: []*citem{se}}
			variant := c.r.intn(5)
			switch variant {
			case 1:
				sigs.l = nil
			case 2:
				sigs.l = append(sigs.l, &citem{kind: 7, n: 22})
			case 3:
				sigs = &citem{kind: 7, n: 22}
			}
			msg := &citem{kind: 6, n: 98, v: &citem{kind: 4, l: []*citem{{kind: 2, b: body}, {kind: 5}, {kind: 2, b: pl}, sigs}}}
			d := msg.enc(nil)
			ptypeSaved := ptype
			ptype = "bytes"
			cons([]fkey{f}, d, ext, extT, fmt.Sprintf("foreign-%d", variant))
			out, rerr := reencode("KSign", d)
			c.addCase(fmt.Sprintf("MReenc KSign %s %s", qHex(d), optOut(out, rerr)), short(fmt.Sprintf("reencode|KSign|foreign-%d|%x", variant, d)))
			if rerr == nil {
				cons([]fkey{f}, out, ext, extT, fmt.Sprintf("foreign-%d-reencoded", variant))
			}
			ptype = ptypeSaved
		}
		*pool = append(*pool, data)
	}
}

func qOptB(b []byte) string {
	if b == nil {
		return "None"
	}
	return "(Some " + qHex(b) + ")"
}

func qParty(p cose.PartyInfo) string {
	return fmt.Sprintf("(Build_party %s %s %s)", qOptB(p.Identity), qOptB(p.Nonce), qOptB(p.Other))
}
func qKdf(k cose.KDFContext) string {
	return fmt.Sprintf("(Build_kdf_ctx %s %s %s (Build_supp_pub %s %s %s) %s)", qZ(int64(k.AlgorithmID)), qParty(k.PartyUInfo), qParty(k.PartyVInfo),
		qU(uint64(k.SuppPubInfo.KeyDataLength)), qOptMap(k.SuppPubInfo.Protected), qOptB(k.SuppPubInfo.Other), qOptB(k.SuppPrivInfo))
}

// probes for the member-type and nested-label rules of C08 (findings F16, F17 are reported from here)
func streamC08Probe(c *ctx) {
	c.beginCases("From Cose Require Import Lib.Cbor Model.GoVal Model.Key Model.Msg Model.MsgWireCorr.", "msg_case", "check_msg_case")
	// typed payloads whose own encoding is not strict CBOR, in every message kind
	for rep := 0; rep < c.n(6, 40); rep++ {
		for _, kind := range kindNames {
			f := genFkey(c, pick(c.r, []int{0, 1, 5}))
			f.fail = false
			d, tag := foreignMessage(c, kind, f, nil, true)
			consumeCase(c, kind, f, d, nil, "None", tag+"-payload-not-strict", "any")
		}
	}
	typedPayloadProbes(c)
	// the text and JSON forms of a key / map: the hex of one complete map and nothing else
	for _, a := range []int{-7, -8, 5, 1} {
		k, err := genKeyFor(a)
		if err != nil {
			continue
		}
		kb, err := key.MarshalCBOR(k)
		if err != nil {
			continue
		}
		for _, tail := range []string{"00", "ff", "a0", hex.EncodeToString(kb), "zz", "0"} {
			txt := hex.EncodeToString(kb) + tail
			for form := 0; form < 4; form++ {
				var derr error
				var what string
				p, pm := catch(func() {
					switch form {
					case 0:
						var k2 key.Key
						derr, what = k2.UnmarshalText([]byte(txt)), "Key.UnmarshalText"
					case 1:
						var k2 key.Key
						derr, what = k2.UnmarshalJSON([]byte(`"`+txt+`"`)), "Key.UnmarshalJSON"
					case 2:
						var m2 key.CoseMap
						derr, what = m2.UnmarshalText([]byte(txt)), "CoseMap.UnmarshalText"
					default:
						var m2 key.CoseMap
						derr, what = m2.UnmarshalJSON([]byte(`"`+txt+`"`)), "CoseMap.UnmarshalJSON"
					}
				})
				c.eval()
				c.nontriv("text-trailing|" + what + "|" + tail[:1])
				if p || derr == nil {
					c.fail(failure{Op: "text-form", What: what + " accepts the hex of a map followed by more", Input: short(txt), Observed: fmt.Sprintf("panic=%v %s accepted", p, pm), Expected: "an error (trailing data)", Case: "text-trailing"})
				}
			}
		}
	}
	// pre-encoded members (cbor.RawMessage, also nested) whose bytes hold an indefinite-length item: whatever object
	// they sit in, the encoder refuses or the output passes the library's own strict validator
	for _, raw := range [][]byte{{0x9f, 0x01, 0xff}, {0xbf, 0x01, 0x02, 0xff}, {0x5f, 0x41, 0x01, 0xff}, {0x7f, 0x61, 0x61, 0xff}, {0x81, 0x9f, 0xff}} {
		rm := cbor.RawMessage(raw)
		objs := map[string]func() ([]byte, error){
			"Headers":        func() ([]byte, error) { return cose.Headers{1: 5, 99: rm}.MarshalCBOR() },
			"Headers nested": func() ([]byte, error) { return cose.Headers{99: []any{1, rm}}.MarshalCBOR() },
			"Key":            func() ([]byte, error) { return key.Key{1: 4, 3: 5, -1: []byte{1}, 99: rm}.MarshalCBOR() },
			"KeySet":         func() ([]byte, error) { return key.MarshalCBOR(key.KeySet{key.Key{1: 4, 99: rm}}) },
			"ClaimsMap":      func() ([]byte, error) { return cwt.ClaimsMap{1: "i", 99: map[any]any{1: rm}}.MarshalCBOR() },
			"Recipient": func() ([]byte, error) {
				return key.MarshalCBOR(&cose.Recipient{Protected: cose.Headers{}, Unprotected: cose.Headers{99: rm}, Ciphertext: []byte{}})
			},
			"Sign1 unprotected": func() ([]byte, error) {
				return (&cose.Sign1Message[[]byte]{Unprotected: cose.Headers{99: rm}, Payload: []byte("p")}).SignAndEncode(genFkeyOK(c), nil)
			},
		}
		for name, f := range objs {
			var out []byte
			var err error
			p, pm := catch(func() { out, err = f() })
			c.eval()
			c.nontriv("raw-member|" + name)
			if p {
				c.fail(failure{Op: "encode", What: "encoding " + name + " with a pre-encoded member panics", Input: fmt.Sprintf("%x", raw), Observed: pm, Expected: "bytes or an error", Case: "raw-member"})
			} else if err == nil && key.ValidCBOR(out) != nil {
				c.fail(failure{Op: "encode", What: name + " is written with an indefinite-length item inside (a pre-encoded member is copied unchecked)", Input: fmt.Sprintf("member %x", raw), Observed: short(fmt.Sprintf("%x", out)), Expected: "an error, or output that the library's own strict decoder accepts", Case: "raw-member", Theorem: "C08_indefinite_refused"})
			}
		}
	}
	// one label held under two Go integer types, for every pair of types: refused, never merged or written twice
	// (the encoder is asked several times: a merge picks its survivor by map iteration order)
	intOf := []func(v int) any{
		func(v int) any { return v }, func(v int) any { return int8(v) }, func(v int) any { return int16(v) }, func(v int) any { return int32(v) }, func(v int) any { return int64(v) },
		func(v int) any { return uint(v) }, func(v int) any { return uint8(v) }, func(v int) any { return uint16(v) }, func(v int) any { return uint32(v) }, func(v int) any { return uint64(v) }}
	for a := 0; a < len(intOf); a++ {
		for b := a + 1; b < len(intOf); b++ {
			v := pick(c.r, []int{1, 4, 5, 23, 24, 100})
			h := cose.Headers{intOf[a](v): []byte("first"), intOf[b](v): []byte("second"), 33: true}
			outs := map[string]bool{}
			var hb []byte
			var herr error
			for rep := 0; rep < 8; rep++ {
				hb, herr = h.Bytes()
				outs[fmt.Sprintf("%x %v", hb, herr == nil)] = true
				kb, kerr := key.Key(h).MarshalCBOR()
				outs[fmt.Sprintf("%x %v", kb, kerr == nil)] = true
			}
			c.addCase(fmt.Sprintf("MHdrEnc %s %s", qMap(h), optOut(hb, herr)), short(fmt.Sprintf("label-twins|%T|%T|%d", intOf[a](v), intOf[b](v), v)))
			c.count("label-twins")
			if len(outs) != 1 {
				c.fail(failure{Op: "label-twins", What: "a map holding one label under two Go integer types encodes differently from call to call", Input: describe(h),
					Observed: fmt.Sprint(outs), Expected: "one outcome (an error)", Case: fmt.Sprintf("label-twins|%T|%T|%d", intOf[a](v), intOf[b](v), v)})
			}
		}
	}
	for i := 0; i < 12; i++ {
		// a nested map value holding one label under two Go integer types (finding F17)
		if i == 0 {
			nested := cose.Headers{7: map[any]any{int(1): 1, int64(1): 2}}
			nb, nerr := nested.Bytes()
			c.eval()
			if nerr == nil {
				if _, derr := cose.HeadersFromBytes(nb); derr != nil {
					c.fail(failure{Op: "nested-map-labels", What: "a nested map value with one label under two integer types is encoded with duplicate keys", Input: describe(nested),
						Observed: fmt.Sprintf("%x, own decoder: %v", nb, derr), Expected: "an error from MarshalCBOR, or one entry", Case: "nested-map-labels"})
				}
			}
		}
		// members of a wrong type: a COSE_Mac0 whose payload member is not a byte string
		if i < 12 {
			f := fkey{k: key.Key{iana.KeyParameterKty: 4}, secret: []byte{0x51}, nsize: 12}
			content := []byte{1, 2, 3}
			wrong := []*citem{
				{kind: 4, l: []*citem{{kind: 0, n: 1}, {kind: 0, n: 2}, {kind: 0, n: 3}}}, // array of small integers (F16)
				{kind: 3, b: content}, {kind: 0, n: 7}, {kind: 5}, {kind: 7, n: 21}, {kind: 8, ai: 27, n: 0x3ff0000000000000},
				{kind: 4, l: []*citem{{kind: 0, n: 256}}}, {kind: 4, l: []*citem{{kind: 3, b: []byte("a")}}}, {kind: 6, n: 24, v: &citem{kind: 2, b: content}},
				{kind: 1, n: 0}, {kind: 4, l: []*citem{{kind: 1, n: 0}}}, {kind: 6, n: 2, v: &citem{kind: 2, b: content}},
			}[i]
			tbm := key.MustMarshalCBOR([]any{"MAC0", []byte{}, []byte{}, content})
			tag := append([]byte{0x51}, tbm...)
			msg := &citem{kind: 4, l: []*citem{{kind: 2, b: []byte{}}, {kind: 5}, wrong, {kind: 2, b: tag}}}
			d := msg.enc(nil)
			_, verr := cose.VerifyMac0Message[[]byte](f, d, nil)
			c.eval()
			c.addCase(fmt.Sprintf("MCons KMac0 false %s %s None %s", f.coq(), qHex(d), func() string {
				t, _ := consume1[[]byte]("KMac0", f, d, nil)
				return t
			}()), short(fmt.Sprintf("consume|KMac0|wrong-typed-payload-%d|%x => ok=%v", i, d, verr == nil)))
			// a tag in front of a byte string does not change its type: 8 and 11 are accepted by design of the CBOR library
			if verr == nil && i != 8 && i != 11 {
				what := "a member of a wrong type is accepted"
				if i == 0 {
					what = "a byte-string member given as an array of small integers is accepted"
				}
				c.fail(failure{Op: "wrong-typed-member", What: what, Input: fmt.Sprintf("COSE_Mac0 %x", d), Observed: "verified", Expected: "an error", Case: fmt.Sprintf("wrong-typed-payload-%d", i)})
			}
		}
	}
}

// recipients, KDF contexts and header maps on their own
func streamMsgParts(c *ctx) {
	optBytes := func() []byte {
		switch c.r.intn(3) {
		case 0:
			return nil
		case 1:
			return []byte{}
		}
		return c.r.bytes(1 + c.r.intn(30))
	}
	n := c.n(150, 2500)
	for i := 0; i < n; i++ {
		party := func() cose.PartyInfo {
			return cose.PartyInfo{Identity: optBytes(), Nonce: optBytes(), Other: optBytes()}
		}
		k := cose.KDFContext{AlgorithmID: pick(c.r, []int{1, 3, -3, 25, -27, 100000, 0}), PartyUInfo: party(), PartyVInfo: party(),
			SuppPubInfo: cose.SuppPubInfo{KeyDataLength: uint(pick(c.r, []int{128, 256, 0, 23, 24, 65536})), Other: optBytes()}, SuppPrivInfo: optBytes()}
		switch c.r.intn(3) {
		case 0:
		case 1:
			k.SuppPubInfo.Protected = cose.Headers{}
		default:
			k.SuppPubInfo.Protected = cose.Headers{iana.HeaderParameterAlg: pick(c.r, []int{-29, -3, 1})}
		}
		data, err := key.MarshalCBOR(k)
		c.addCase(fmt.Sprintf("MKdfEnc %s %s", qKdf(k), optOut(data, err)), short(fmt.Sprintf("kdf|%x", data)))
		c.nontriv(fmt.Sprintf("kdf-enc|%v|%v|%v", k.SuppPrivInfo == nil, k.SuppPubInfo.Other == nil, err == nil))
		dec := func(d []byte, tag string) {
			var out cose.KDFContext
			var derr error
			p, pm := catch(func() { derr = key.UnmarshalCBOR(d, &out) })
			l := short(fmt.Sprintf("kdf-dec|%s|%x", tag, d))
			if p {
				c.fail(failure{Op: "kdf", What: "panic while decoding a KDF context", Input: l, Observed: "panic: " + pm, Expected: "value or error", Case: l})
				return
			}
			t := "None"
			if derr == nil {
				t = "(Some " + qKdf(out) + ")"
			}
			c.addCase(fmt.Sprintf("MKdfDec %s %s", qHex(d), t), l+fmt.Sprintf(" => ok=%v", derr == nil))
			c.nontriv(fmt.Sprintf("kdf-dec|%s|%v", tag, derr == nil))
			c.count(fmt.Sprintf("kdf-dec %s ok=%v", tag, derr == nil))
		}
		if err == nil {
			dec(data, "produced")
			m, tag := mutate(c, data)
			dec(m, tag)
		}
		// recipients
		r, rt := genRecip(c)
		rd, rerr := r.MarshalCBOR()
		c.addCase(fmt.Sprintf("MRecEnc %s %s", rt, optOut(rd, rerr)), short(fmt.Sprintf("recipient|%x", rd)))
		c.nontriv(fmt.Sprintf("rec-enc|%d|%v", len(r.Recipients()), rerr == nil))
		rdec := func(d []byte, tag string) {
			out := &cose.Recipient{}
			var derr error
			p, pm := catch(func() { derr = out.UnmarshalCBOR(d) })
			l := short(fmt.Sprintf("rec-dec|%s|%x", tag, d))
			if p {
				c.fail(failure{Op: "recipient", What: "panic while decoding a recipient", Input: l, Observed: "panic: " + pm, Expected: "value or error", Case: l})
				return
			}
			t := "None"
			if derr == nil {
				t = "(Some " + qRecipSeen(out) + ")"
			}
			c.addCase(fmt.Sprintf("MRecDec %s %s", qHex(d), t), l+fmt.Sprintf(" => ok=%v", derr == nil))
			c.nontriv(fmt.Sprintf("rec-dec|%s|%v", tag, derr == nil))
			c.count(fmt.Sprintf("rec-dec %s ok=%v", tag, derr == nil))
		}
		if rerr == nil {
			rdec(rd, "produced")
			m, tag := mutate(c, rd)
			rdec(m, tag)
			// two nesting levels are refused
			inner := append([]byte{0x84, 0x40, 0xa0, 0xf6, 0x81}, rd...)
			rdec(append([]byte{0x84, 0x40, 0xa0, 0xf6, 0x81}, inner...), "nested-twice")
		}
		// header maps
		h := genHeaders(c, 2, c.r.intn(5))
		hb, herr := h.Bytes()
		c.addCase(fmt.Sprintf("MHdrEnc %s %s", qMap(h), optOut(hb, herr)), short(fmt.Sprintf("headers|%x", hb)))
		hdec := func(d []byte, tag string) {
			out, derr := cose.HeadersFromBytes(d)
			t := "None"
			if derr == nil {
				t = "(Some " + qMap(out) + ")"
			}
			c.addCase(fmt.Sprintf("MHdr %s %s", qOptB(d), t), short(fmt.Sprintf("headers-dec|%s|%x => ok=%v", tag, d, derr == nil)))
			if derr == nil {
				// GetMap on every label of the decoded map (nested map values get their labels normalised; anything else,
				// maps with keys that are neither integers nor text included, is an error, never a panic)
				for l := range out {
					li, isInt := l.(int)
					if !isInt {
						continue
					}
					var gm key.CoseMap
					var gerr error
					p, pm := catch(func() { gm, gerr = out.GetMap(li) })
					gl := short(fmt.Sprintf("getmap|%x|label=%d", d, li))
					if p {
						c.fail(failure{Op: "getmap", What: "GetMap panics on a decoded header map", Input: gl, Observed: "panic: " + pm, Expected: "a map or an error", Case: gl, Theorem: "C07_get_map_never_panics"})
						continue
					}
					gt := "None"
					if gerr == nil && gm != nil {
						gt = "(Some " + qMap(gm) + ")"
					}
					c.addCase(fmt.Sprintf("MGetMap %s %s %s %s", qMap(out), qZ(int64(li)), qB(gerr == nil), gt), gl+fmt.Sprintf(" => ok=%v", gerr == nil))
				}
			}
			c.nontriv(fmt.Sprintf("hdr-dec|%s|%v", tag, derr == nil))
			c.count(fmt.Sprintf("hdr-dec %s ok=%v", tag, derr == nil))
		}
		if herr == nil {
			// determinism: the same labels and values under other Go integer types, inserted in another order
			for rep := 0; rep < 3; rep++ {
				h2 := cose.Headers{}
				for k, v := range h {
					if ki, ok := k.(int); ok && rep > 0 {
						if ki >= 0 && rep == 2 {
							k = uint64(ki)
						} else {
							k = int64(ki)
						}
					}
					if vi, ok := v.(int); ok && rep > 0 {
						v = int64(vi)
					}
					if _, dup := h2[k]; dup {
						h2 = nil
						break
					}
					h2[k] = v
				}
				if h2 == nil {
					continue
				}
				hb2, herr2 := h2.Bytes()
				c.eval()
				if herr2 != nil || !bytes.Equal(hb2, hb) {
					c.fail(failure{Op: "headers", What: "equal header maps encoded differently (Go integer type / insertion order)", Input: fmt.Sprintf("%s vs %s", describe(h), describe(h2)),
						Observed: fmt.Sprintf("%x err=%v", hb2, herr2), Expected: fmt.Sprintf("%x", hb), Case: "headers-determinism"})
				}
			}
			hdec(hb, "produced")
			m, tag := mutate(c, hb)
			hdec(m, tag)
		}
		// labels out of range, non-label keys, duplicates after normalisation
		bad := &citem{kind: 5}
		switch c.r.intn(5) {
		case 0:
			bad.m = [][2]*citem{{{kind: 0, n: 1 << 31}, {kind: 0, n: 1}}}
		case 1:
			bad.m = [][2]*citem{{{kind: 1, n: 1 << 31}, {kind: 0, n: 1}}}
		case 2:
			bad.m = [][2]*citem{{{kind: 2, b: []byte("k")}, {kind: 0, n: 1}}}
		case 3:
			bad.m = [][2]*citem{{{kind: 0, n: 5}, {kind: 0, n: 1}}, {{kind: 0, n: 5, width: 2}, {kind: 0, n: 2}}}
		default:
			bad.m = [][2]*citem{{{kind: 0, n: 1<<31 - 1}, {kind: 0, n: 1}}, {{kind: 1, n: 1<<31 - 1}, {kind: 3, b: []byte("ok")}}}
		}
		hdec(bad.enc(nil), "labels")
		// an empty map followed by anything (another item, a stray break, the encoded map itself, garbage), and the other
		// encodings of an empty map: one complete item and nothing else is a header bucket
		for _, tail := range [][]byte{{0x00}, {0xa0}, {0xff}, {0xa1, 0x01, 0x05}, {0xf6}, c.r.bytes(1 + c.r.intn(3))} {
			hdec(append([]byte{0xa0}, tail...), "empty-map-then-more")
		}
		if herr == nil && len(hb) > 0 {
			hdec(append([]byte{0xa0}, hb...), "empty-map-then-map")
		}
		for _, e := range [][]byte{{0xa0}, {0xb8, 0x00}, {0xb9, 0x00, 0x00}, {0xbf, 0xff}, {0xbf}, {0xd9, 0xd9, 0xf7, 0xa0}} {
			hdec(e, "empty-map-forms")
		}
		// labels that are integer-like but neither a CBOR integer nor text: bignums, tagged integers, floats with an
		// integral value, simple values; alone, next to integer labels, and inside a nested header value
		{
			one := &citem{kind: 0, n: uint64(1 + c.r.intn(20))}
			odd := []*citem{
				{kind: 6, n: 2, v: &citem{kind: 2, b: []byte{byte(1 + c.r.intn(20))}}},
				{kind: 6, n: 3, v: &citem{kind: 2, b: []byte{byte(c.r.intn(20))}}},
				{kind: 6, n: 100, v: one}, {kind: 6, n: 1, v: one}, // (tag 55799, self-described CBOR, has no meaning of its own: the label is the integer)
				{kind: 8, ai: 25, n: 0x3c00}, {kind: 8, ai: 27, n: 0x4000000000000000}, {kind: 7, n: 21}, {kind: 7, n: 22},
				{kind: 4, l: []*citem{one}}, {kind: 6, n: 2, v: &citem{kind: 2, b: []byte{}}},
			}
			lab := pick(c.r, odd)
			om := &citem{kind: 5, m: [][2]*citem{{lab, {kind: 0, n: 7}}}}
			if c.r.bool() {
				om.m = append(om.m, [2]*citem{{kind: 0, n: 33}, {kind: 2, b: []byte("v")}}, [2]*citem{{kind: 1, n: 40}, {kind: 0, n: 1}})
			}
			d := om.enc(nil)
			hdec(d, "labels-not-int-or-text")
			line := short(fmt.Sprintf("headers-dec|labels-not-int-or-text|%x", d))
			if _, derr := cose.HeadersFromBytes(d); derr == nil {
				c.fail(failure{Op: "labels", What: "a header map with a label that is neither an integer nor text is accepted", Input: line, Observed: "decoded", Expected: "an error", Case: line, Theorem: "C08_labels"})
			}
			var kk key.Key
			if key.UnmarshalCBOR(d, &kk) == nil {
				c.fail(failure{Op: "labels", What: "a key map with a label that is neither an integer nor text is accepted", Input: line, Observed: describe(kk), Expected: "an error", Case: line, Theorem: "C08_labels"})
			}
			var cm cwt.ClaimsMap
			if key.UnmarshalCBOR(d, &cm) == nil {
				c.fail(failure{Op: "labels", What: "a claims map with a label that is neither an integer nor text is accepted", Input: line, Observed: describe(cm), Expected: "an error", Case: line, Theorem: "C08_labels"})
			}
			c.eval()
			c.eval()
		}
		// unsigned labels at the top of the 64-bit range must not wrap into the negative 32-bit labels
		big := pick(c.r, []uint64{1<<64 - 1, 1<<64 - 1<<31, 1 << 63, 1<<63 - 1, 1<<64 - 1<<31 - 1, 1 << 32, 1<<32 + 5})
		wrap := &citem{kind: 5, m: [][2]*citem{{{kind: 0, n: big}, {kind: 0, n: 1}}}}
		if c.r.bool() {
			wrap.m = append(wrap.m, [2]*citem{{kind: 1, n: 0}, {kind: 0, n: 2}})
		}
		hdec(wrap.enc(nil), "labels-64bit")
		if c.r.intn(3) == 0 {
			hdec((&citem{kind: 5, m: [][2]*citem{{{kind: 0, n: 9}, wrap}}}).enc(nil), "labels-64bit-nested")
		}
	}
}

func genFkeyOK(c *ctx) fkey {
	f := genFkey(c, 0)
	f.fail = false
	return f
}
