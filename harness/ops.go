package main

import (
	goecdh "crypto/ecdh"
	goed "crypto/ed25519"
	"crypto/elliptic"
	"fmt"
	"math/big"
	"strings"

	"github.com/ldclabs/cose/iana"
	"github.com/ldclabs/cose/key"
	"github.com/ldclabs/cose/key/aesccm"
	"github.com/ldclabs/cose/key/aesgcm"
	"github.com/ldclabs/cose/key/aesmac"
	"github.com/ldclabs/cose/key/chacha20poly1305"
	"github.com/ldclabs/cose/key/ecdh"
	"github.com/ldclabs/cose/key/ecdsa"
	"github.com/ldclabs/cose/key/ed25519"
	"github.com/ldclabs/cose/key/hmac"
)

func init() { streams["ops"] = streamOps }

type famSpec struct {
	name   string // Coq constructor
	ops    [2]int // the family's two operations
	role   int    // which of the two this role performs
	mkKey  func(c *ctx) (key.Key, oracleVals)
	build  func(k key.Key) (any, error)
	do     func(impl any, op int, aux *opAux) error
	famOps []int
}

type oracleVals struct {
	edPub   []byte
	px, py  *big.Int
	onCurve bool
	dhOK    bool
}

func (o oracleVals) coq() string {
	px, py := "0", "0"
	if o.px != nil {
		px, py = o.px.String(), o.py.String()
	}
	return fmt.Sprintf("{| or_ed_pub := %s; or_point := (%s, %s); or_on_curve := %s; or_dh_priv_ok := %s |}", qHex(o.edPub), px, py, qB(o.onCurve), qB(o.dhOK))
}

// opAux carries valid material (signature / tag / ciphertext) made with an unrestricted copy of the key
type opAux struct {
	data, sig, tag, iv, ct, aad []byte
	remote                      key.Key
}

func cloneKey(k key.Key) key.Key {
	n := key.Key{}
	for a, b := range k {
		n[a] = b
	}
	return n
}

var symAlgs = map[string][]int{
	"Hmac":   {iana.AlgorithmHMAC_256_64, iana.AlgorithmHMAC_256_256, iana.AlgorithmHMAC_384_384, iana.AlgorithmHMAC_512_512},
	"AesMac": {iana.AlgorithmAES_MAC_128_64, iana.AlgorithmAES_MAC_256_64, iana.AlgorithmAES_MAC_128_128, iana.AlgorithmAES_MAC_256_128},
	"AesGcm": {iana.AlgorithmA128GCM, iana.AlgorithmA192GCM, iana.AlgorithmA256GCM},
	"AesCcm": {iana.AlgorithmAES_CCM_16_64_128, iana.AlgorithmAES_CCM_16_64_256, iana.AlgorithmAES_CCM_64_64_128, iana.AlgorithmAES_CCM_64_64_256,
		iana.AlgorithmAES_CCM_16_128_128, iana.AlgorithmAES_CCM_16_128_256, iana.AlgorithmAES_CCM_64_128_128, iana.AlgorithmAES_CCM_64_128_256},
	"ChaCha": {iana.AlgorithmChaCha20Poly1305},
}

var symKeySize = map[int]int{4: 32, 5: 32, 6: 48, 7: 64, 14: 16, 15: 32, 25: 16, 26: 32, 1: 16, 2: 24, 3: 32,
	10: 16, 11: 32, 12: 16, 13: 32, 30: 16, 31: 32, 32: 16, 33: 32, 24: 32}

func symKey(c *ctx, fam string) key.Key {
	alg := pick(c.r, symAlgs[fam])
	k := key.Key{iana.KeyParameterKty: iana.KeyTypeSymmetric, iana.KeyParameterAlg: alg, iana.SymmetricKeyParameterK: c.r.bytes(symKeySize[alg])}
	if c.r.bool() {
		k[iana.KeyParameterKid] = c.r.bytes(1 + c.r.intn(8))
	}
	return k
}

func macBuild(fam string) func(k key.Key) (any, error) {
	return func(k key.Key) (any, error) {
		if fam == "Hmac" {
			return hmac.New(k)
		}
		return aesmac.New(k)
	}
}
func encBuild(fam string) func(k key.Key) (any, error) {
	return func(k key.Key) (any, error) {
		switch fam {
		case "AesGcm":
			return aesgcm.New(k)
		case "AesCcm":
			return aesccm.New(k)
		}
		return chacha20poly1305.New(k)
	}
}

func curveOf(crv int) elliptic.Curve {
	switch crv {
	case 1:
		return elliptic.P256()
	case 2:
		return elliptic.P384()
	}
	return elliptic.P521()
}

func ecScalar(c *ctx, crv int) []byte {
	size := map[int]int{1: 32, 2: 48, 3: 66}[crv]
	d := c.r.bytes(size)
	if crv == 3 {
		d[0] &= 1
	}
	d[0] &^= 0x80 // stay below the group order
	d[size-1] |= 1
	return d
}

func ecdsaKey(c *ctx, public bool) (key.Key, oracleVals) {
	crv := 1 + c.r.intn(3)
	alg := map[int]int{1: -7, 2: -35, 3: -36}[crv]
	d := ecScalar(c, crv)
	cv := curveOf(crv)
	x, y := cv.ScalarBaseMult(d)
	o := oracleVals{px: x, py: y, onCurve: true}
	size := (cv.Params().BitSize + 7) / 8
	k := key.Key{iana.KeyParameterKty: iana.KeyTypeEC2, iana.EC2KeyParameterCrv: crv}
	if c.r.intn(3) > 0 {
		k[iana.KeyParameterAlg] = alg
	}
	if c.r.bool() {
		k[iana.KeyParameterKid] = c.r.bytes(4)
	}
	if public {
		k[iana.EC2KeyParameterX] = x.FillBytes(make([]byte, size))
		if c.r.intn(3) == 0 {
			k[iana.EC2KeyParameterY] = y.Bit(0) == 1
		} else {
			k[iana.EC2KeyParameterY] = y.FillBytes(make([]byte, size))
		}
	} else {
		k[iana.EC2KeyParameterD] = d
		if c.r.intn(3) == 0 {
			k[iana.EC2KeyParameterX] = x.FillBytes(make([]byte, size))
			k[iana.EC2KeyParameterY] = y.FillBytes(make([]byte, size))
		}
	}
	return k, o
}

func edKey(c *ctx, public bool) (key.Key, oracleVals) {
	seed := c.r.bytes(32)
	pub := goed.NewKeyFromSeed(seed).Public().(goed.PublicKey)
	k := key.Key{iana.KeyParameterKty: iana.KeyTypeOKP, iana.OKPKeyParameterCrv: iana.EllipticCurveEd25519}
	if c.r.intn(3) > 0 {
		k[iana.KeyParameterAlg] = iana.AlgorithmEdDSA
	}
	if c.r.bool() {
		k[iana.KeyParameterKid] = c.r.bytes(4)
	}
	if public {
		k[iana.OKPKeyParameterX] = []byte(pub)
	} else {
		k[iana.OKPKeyParameterD] = seed
		if c.r.intn(3) == 0 {
			k[iana.OKPKeyParameterX] = []byte(pub)
		}
	}
	return k, oracleVals{edPub: pub}
}

func ecdhKey(c *ctx) (key.Key, oracleVals) {
	crv := 1 + c.r.intn(4)
	var d []byte
	kty := iana.KeyTypeEC2
	var cv goecdh.Curve
	switch crv {
	case 4:
		d = c.r.bytes(32)
		kty = iana.KeyTypeOKP
		cv = goecdh.X25519()
	case 1:
		d, cv = ecScalar(c, 1), goecdh.P256()
	case 2:
		d, cv = ecScalar(c, 2), goecdh.P384()
	default:
		d, cv = ecScalar(c, 3), goecdh.P521()
	}
	_, err := cv.NewPrivateKey(d)
	k := key.Key{iana.KeyParameterKty: kty, iana.EC2KeyParameterCrv: crv, iana.EC2KeyParameterD: d}
	if c.r.bool() {
		k[iana.KeyParameterKid] = c.r.bytes(4)
	}
	if c.r.bool() {
		// the key-agreement algorithms a key may name: ECDH-ES / ECDH-SS with HKDF (-25 .. -28) or with key wrap (-29 .. -34)
		k[iana.KeyParameterAlg] = -25 - c.r.intn(10)
	}
	return k, oracleVals{dhOK: err == nil}
}

// opsValue builds a key_ops value in a chosen representation; malformed ones included.
func opsValue(c *ctx, ops []int, rep int) (any, string) {
	switch rep {
	case 0:
		return append([]int{}, ops...), "[]int"
	case 1:
		return key.Ops(append([]int{}, ops...)), "Ops"
	case 2:
		var a []any
		for _, o := range ops {
			a = append(a, o)
		}
		if a == nil {
			a = []any{}
		}
		return a, "[]any{int}"
	case 3:
		a := []any{}
		for _, o := range ops {
			a = append(a, int64(o))
		}
		return a, "[]any{int64}"
	case 4:
		a := []any{}
		for _, o := range ops {
			if o >= 0 {
				a = append(a, uint64(o))
			} else {
				a = append(a, int64(o))
			}
		}
		return a, "[]any{uint64}"
	case 5:
		a := []any{}
		for i, o := range ops {
			switch i % 4 {
			case 0:
				a = append(a, int8(o))
			case 1:
				a = append(a, uint16(o&0xffff))
			case 2:
				a = append(a, int32(o))
			default:
				a = append(a, o)
			}
		}
		return a, "[]any{mixed}"
	case 6: // malformed: text member after valid ones
		a := []any{}
		for _, o := range ops {
			a = append(a, o)
		}
		a = append(a, "x")
		return a, "[]any{..,text}"
	case 7:
		a := []any{}
		for _, o := range ops {
			a = append(a, o)
		}
		a = append(a, nil)
		return a, "[]any{..,null}"
	case 13: // malformed: a text / null / bytes / nested member BEFORE the valid ones
		a := []any{pick(c.r, []any{"x", nil, []byte{1}, []any{}, true, 1.5})}
		for _, o := range ops {
			a = append(a, o)
		}
		return a, "[]any{bad,..}"
	case 14: // malformed: the same between valid ones
		a := []any{}
		if len(ops) == 0 {
			a = append(a, pick(c.r, []any{"x", nil, []byte{1}, []any{}}))
		}
		for i, o := range ops {
			if i == 1 || len(ops) == 1 {
				a = append(a, pick(c.r, []any{"x", nil, []byte{1}, []any{}}))
			}
			a = append(a, o)
		}
		return a, "[]any{..,bad,..}"
	case 8:
		return "sign", "string"
	case 9:
		var a []int64
		for _, o := range ops {
			a = append(a, int64(o))
		}
		return a, "[]int64"
	case 10:
		return key.Ops(nil), "Ops(nil)"
	case 11:
		a := []any{"1"}
		return a, "[]any{text}"
	case 12:
		a := []any{}
		for _, o := range ops {
			a = append(a, float64(o))
		}
		a = append(a, 1.5)
		return a, "[]any{float}"
	default:
		return nil, "nil"
	}
}

// viaRegistry obtains the implementation of a role through the key's own factory methods (nil, nil when the role has none)
func viaRegistry(role string, k key.Key) (any, error) {
	switch {
	case strings.HasPrefix(role, "(FSym"):
		if m, err := k.MACer(); err == nil {
			return m, nil
		}
		e, err := k.Encryptor()
		if err != nil {
			return nil, err
		}
		return e, nil
	case role == "FEdSign" || role == "FEcSign":
		return k.Signer()
	case role == "FEdVerify" || role == "FEcVerify":
		return k.Verifier()
	}
	return nil, nil
}

func streamOps(c *ctx) {
	c.beginCases("From Cose Require Import Model.GoVal Model.Key Model.KeyCorr.", "ops_case", "check_ops_case")
	type role struct {
		coq    string
		famOps []int
		op     int
		mk     func() (key.Key, oracleVals)
		build  func(k key.Key) (any, error)
		prep   func(k key.Key) *opAux // material made with an unrestricted copy
		do     func(impl any, op int, a *opAux) error
	}
	data := []byte("to-be-protected")
	macDo := func(impl any, op int, a *opAux) error {
		m := impl.(key.MACer)
		if op == 9 {
			_, err := m.MACCreate(a.data)
			return err
		}
		return m.MACVerify(a.data, a.tag)
	}
	encDo := func(impl any, op int, a *opAux) error {
		e := impl.(key.Encryptor)
		if op == 3 {
			_, err := e.Encrypt(a.iv, a.data, a.aad)
			return err
		}
		_, err := e.Decrypt(a.iv, a.ct, a.aad)
		return err
	}
	macPrep := func(fam string) func(k key.Key) *opAux {
		return func(k key.Key) *opAux {
			kk := cloneKey(k)
			delete(kk, iana.KeyParameterKeyOps)
			a := &opAux{data: data}
			if m, err := macBuild(fam)(kk); err == nil {
				a.tag, _ = m.(key.MACer).MACCreate(data)
			}
			return a
		}
	}
	encPrep := func(fam string) func(k key.Key) *opAux {
		return func(k key.Key) *opAux {
			kk := cloneKey(k)
			delete(kk, iana.KeyParameterKeyOps)
			a := &opAux{data: data, aad: []byte("aad")}
			if e, err := encBuild(fam)(kk); err == nil {
				en := e.(key.Encryptor)
				a.iv = make([]byte, en.NonceSize())
				a.ct, _ = en.Encrypt(a.iv, data, a.aad)
			}
			return a
		}
	}
	var roles []role
	for _, fam := range []string{"Hmac", "AesMac"} {
		fam := fam
		for _, op := range []int{9, 10} {
			roles = append(roles, role{coq: "(FSym " + fam + ")", famOps: []int{9, 10}, op: op, mk: func() (key.Key, oracleVals) { return symKey(c, fam), oracleVals{} },
				build: macBuild(fam), prep: macPrep(fam), do: macDo})
		}
	}
	for _, fam := range []string{"AesGcm", "AesCcm", "ChaCha"} {
		fam := fam
		for _, op := range []int{3, 4} {
			roles = append(roles, role{coq: "(FSym " + fam + ")", famOps: []int{3, 4}, op: op, mk: func() (key.Key, oracleVals) { return symKey(c, fam), oracleVals{} },
				build: encBuild(fam), prep: encPrep(fam), do: encDo})
		}
	}
	sigPrep := func(newSigner func(key.Key) (key.Signer, error), priv func(k key.Key) key.Key) func(k key.Key) *opAux {
		return func(k key.Key) *opAux {
			a := &opAux{data: data}
			if pk := priv(k); pk != nil {
				kk := cloneKey(pk)
				delete(kk, iana.KeyParameterKeyOps)
				if s, err := newSigner(kk); err == nil {
					a.sig, _ = s.Sign(data)
				}
			}
			return a
		}
	}
	signDo := func(impl any, op int, a *opAux) error {
		_, err := impl.(key.Signer).Sign(a.data)
		return err
	}
	verifyDo := func(impl any, op int, a *opAux) error { return impl.(key.Verifier).Verify(a.data, a.sig) }
	// signature families: the private key of a public-key case is kept aside to make a valid signature
	var lastPriv key.Key
	forceForm := -1 // verify roles: -1 random, 0 private key, 1 public key, 2 public key with a compressed point
	roles = append(roles,
		role{coq: "FEdSign", famOps: []int{1, 2}, op: 1, mk: func() (key.Key, oracleVals) { return edKey(c, false) },
			build: func(k key.Key) (any, error) { return ed25519.NewSigner(k) }, prep: func(k key.Key) *opAux { return &opAux{data: data} }, do: signDo},
		role{coq: "FEdVerify", famOps: []int{1, 2}, op: 2, mk: func() (key.Key, oracleVals) {
			k, o := edKey(c, false)
			lastPriv = cloneKey(k)
			if forceForm > 0 || forceForm < 0 && c.r.bool() { // public form
				pk := key.Key{iana.KeyParameterKty: iana.KeyTypeOKP, iana.OKPKeyParameterCrv: iana.EllipticCurveEd25519, iana.OKPKeyParameterX: []byte(o.edPub)}
				if v, ok := k[iana.KeyParameterAlg]; ok {
					pk[iana.KeyParameterAlg] = v
				}
				return pk, o
			}
			return k, o
		}, build: func(k key.Key) (any, error) { return ed25519.NewVerifier(k) },
			prep: sigPrep(ed25519.NewSigner, func(k key.Key) key.Key { return lastPriv }), do: verifyDo},
		role{coq: "FEcSign", famOps: []int{1, 2}, op: 1, mk: func() (key.Key, oracleVals) { return ecdsaKey(c, false) },
			build: func(k key.Key) (any, error) { return ecdsa.NewSigner(k) }, prep: func(k key.Key) *opAux { return &opAux{data: data} }, do: signDo},
		role{coq: "FEcVerify", famOps: []int{1, 2}, op: 2, mk: func() (key.Key, oracleVals) {
			k, o := ecdsaKey(c, false)
			lastPriv = cloneKey(k)
			delete(lastPriv, iana.EC2KeyParameterX)
			delete(lastPriv, iana.EC2KeyParameterY)
			if forceForm > 0 || forceForm < 0 && c.r.bool() {
				crv := k[iana.EC2KeyParameterCrv].(int)
				size := (curveOf(crv).Params().BitSize + 7) / 8
				pk := key.Key{iana.KeyParameterKty: iana.KeyTypeEC2, iana.EC2KeyParameterCrv: crv, iana.EC2KeyParameterX: o.px.FillBytes(make([]byte, size))}
				if forceForm == 2 || forceForm < 0 && c.r.intn(3) == 0 {
					pk[iana.EC2KeyParameterY] = o.py.Bit(0) == 1
				} else {
					pk[iana.EC2KeyParameterY] = o.py.FillBytes(make([]byte, size))
				}
				if v, ok := k[iana.KeyParameterAlg]; ok {
					pk[iana.KeyParameterAlg] = v
				}
				return pk, o
			}
			return k, o
		}, build: func(k key.Key) (any, error) { return ecdsa.NewVerifier(k) },
			prep: sigPrep(ecdsa.NewSigner, func(k key.Key) key.Key { return lastPriv }), do: verifyDo},
		role{coq: "FEcdh", famOps: []int{7, 8}, op: 7, mk: func() (key.Key, oracleVals) { return ecdhKey(c) },
			build: func(k key.Key) (any, error) { return ecdh.NewECDHer(k) },
			prep: func(k key.Key) *opAux {
				// a remote public key on the same curve
				crv, _ := k.GetInt(iana.EC2KeyParameterCrv)
				rk, _ := ecdh.GenerateKey(crv)
				rp, _ := ecdh.ToPublicKey(rk)
				return &opAux{remote: rp}
			},
			do: func(impl any, op int, a *opAux) error {
				_, err := impl.(*ecdh.ECDHer).ECDH(a.remote)
				return err
			}},
	)

	// F15 probe (known finding): a list changed AFTER construction to hold the operation together with an
	// operation foreign to the family. The property demands a refusal; the gate only looks for the operation.
	for _, r := range roles {
		k, orc := r.mk()
		aux := r.prep(k)
		impl, err := r.build(k)
		if err != nil {
			continue
		}
		keyTerm := qMap(k)
		foreign := 5
		k.SetOps(foreign, r.op)
		var derr error
		catch(func() { derr = r.do(impl, r.op, aux) })
		_, isPriv := k[iana.EC2KeyParameterD]
		shared := !((r.coq == "FEdVerify" || r.coq == "FEcVerify") && isPriv)
		line := fmt.Sprintf("ops-foreign-after|fam=%s|SetOps[%d %d],Do(%d)=%v", r.coq, foreign, r.op, r.op, derr == nil)
		c.addCase(fmt.Sprintf("OpsCase %s %s %s [SetOps [%d; %d]; Do %d] true [%s]", r.coq, orc.coq(), keyTerm, foreign, r.op, r.op, qB(derr == nil)), line)
		if shared && derr == nil {
			c.fail(failure{Op: "key_ops-history", What: "foreign operation in a list changed after construction", Input: line,
				Observed: "performed", Expected: "refused (the list does not consist solely of the family's operations)", Case: line, Theorem: "C16_history_full_refuted"})
		}
		c.nontriv("foreign-after|" + r.coq)
	}

	// directed histories: an implementation built from an unrestricted (or fully permitted) key, whose key_ops are then
	// narrowed, widened and removed again: every call follows the list in effect at the call (for a verifier made from a
	// private key, the derived public key's own list)
	for _, r := range roles {
		for form := 0; form <= 2; form++ {
			for _, withOps := range []bool{false, true} {
				forceForm = form
				k, orc := r.mk()
				forceForm = -1
				if withOps {
					k.SetOps(r.famOps...)
				}
				aux := r.prep(k)
				keyTerm := qMap(k)
				impl, err := r.build(k)
				if form == 1 || !withOps {
					// the same through the registry (Key.MACer / Encryptor / Signer / Verifier): the implementation a caller
					// normally gets; narrowing the caller's key afterwards must take effect just the same
					if ri, rerr := viaRegistry(r.coq, k); rerr == nil && ri != nil {
						impl, err = ri, nil
					}
				}
				if err != nil {
					continue
				}
				_, isPriv := k[iana.EC2KeyParameterD]
				shared := !((r.coq == "FEdVerify" || r.coq == "FEcVerify") && isPriv)
				var others []int
				for _, o := range r.famOps {
					if o != r.op && !(r.coq == "FEcdh") {
						others = append(others, o)
					}
				}
				if len(others) == 0 {
					continue
				}
				var steps, outs, human []string
				allowed := true
				for _, st := range [][]int{nil, others, nil, {r.op}, nil, others, nil, {}, nil} {
					if st == nil {
						var derr error
						catch(func() { derr = r.do(impl, r.op, aux) })
						steps = append(steps, fmt.Sprintf("Do %d", r.op))
						outs = append(outs, qB(derr == nil))
						human = append(human, fmt.Sprintf("Do(%d)=%v", r.op, derr == nil))
						c.eval()
						if (derr == nil) != allowed {
							c.fail(failure{Op: "key_ops-history", What: "operation outcome does not follow the key_ops in effect at the call",
								Input:    fmt.Sprintf("fam=%s key=%s history=%s", r.coq, describe(map[any]any(k)), strings.Join(human, ",")),
								Observed: fmt.Sprintf("performed=%v", derr == nil), Expected: fmt.Sprintf("performed=%v", allowed), Theorem: "C16_history"})
						}
						continue
					}
					k.SetOps(st...)
					var zs []string
					for _, o := range st {
						zs = append(zs, qZ(int64(o)))
					}
					steps = append(steps, "SetOps "+qList(zs))
					human = append(human, fmt.Sprintf("SetOps%v", st))
					if shared {
						allowed = len(st) == 0 || st[0] == r.op
					}
				}
				line := fmt.Sprintf("ops-directed|fam=%s|form=%d|ops=%v|%s", r.coq, form, withOps, strings.Join(human, ","))
				c.addCase(fmt.Sprintf("OpsCase %s %s %s %s true %s", r.coq, orc.coq(), keyTerm, qList(steps), qList(outs)), line)
				c.nontriv(fmt.Sprintf("directed|%s|%d|%v", r.coq, form, withOps))
				c.count("directed history " + r.coq)
			}
		}
	}

	subsetOps := func(mask int) []int {
		var o []int
		for b := 0; b < 10; b++ {
			if mask&(1<<b) != 0 {
				o = append(o, b+1)
			}
		}
		return o
	}
	n := c.n(1400, 9000)
	exhaustive := c.thorough()
	total := n
	if exhaustive {
		total = len(roles) * 1023
	}
	for i := 0; i < total; i++ {
		var r role
		var ops []int
		rep := 0
		if exhaustive && i < len(roles)*1023 {
			r = roles[i/1023]
			ops = subsetOps(i%1023 + 1)
			rep = i % 6
		} else {
			r = roles[c.r.intn(len(roles))]
			switch c.r.intn(6) {
			case 0: // subset of the family's ops
				for _, o := range r.famOps {
					if c.r.bool() {
						ops = append(ops, o)
					}
				}
			case 1: // family ops plus one foreign op
				ops = append([]int{}, r.famOps...)
				ops = append(ops, pick(c.r, []int{0, 5, 6, 11, -1, 3, 9, 1, 7, 100, 1 << 31}))
			case 2:
				ops = subsetOps(1 + c.r.intn(1023))
			case 3:
				ops = []int{r.op, r.op}
			case 4:
				ops = []int{pick(c.r, r.famOps)}
			default:
				ops = nil
			}
			rep = c.r.intn(16)
			if r.coq == "FEcdh" && c.r.intn(3) == 0 {
				// operations of the neighbouring families (wrap / unwrap key), alone or next to the derive operations
				ops = pick(c.r, [][]int{{5}, {6}, {5, 6}, {7, 6}, {8, 5}, {7, 8, 5}, {6, 7}, {5, 6, 7, 8}})
				rep = pick(c.r, []int{0, 1, 2, 3})
			}
		}
		// the order of a key_ops list carries no meaning: half of the lists are reversed or rotated
		if len(ops) > 1 {
			switch (i / 7) % 4 {
			case 1:
				rev := make([]int, len(ops))
				for j, o := range ops {
					rev[len(ops)-1-j] = o
				}
				ops = rev
				if !exhaustive && (i/28)%2 == 0 {
					rep = 1 + (i/56)%2 // the typed forms (key.Ops, []any of int), which nothing rebuilds on the way
				}
			case 3:
				ops = append(append([]int{}, ops[1:]...), ops[0])
			}
		}
		k, orc := r.mk()
		absent := !exhaustive && c.r.intn(6) == 0
		repName := "absent"
		if !absent {
			v, nm := opsValue(c, ops, rep)
			k[iana.KeyParameterKeyOps] = v
			repName = nm
		}
		viaCBOR, cborInterp := false, false
		var cborOps []int
		if !absent && c.r.intn(3) == 0 {
			// the key as a peer sends it: through CBOR (the list arrives as []any of the decoder's integer types; a
			// malformed list stays malformed)
			if b, err := key.MarshalCBOR(k); err == nil {
				var k2 key.Key
				if key.UnmarshalCBOR(b, &k2) == nil {
					k = k2
					repName += " via CBOR"
					// what arrived, read by the harness itself: a list of integers or not
					viaCBOR = true
					cborOps, cborInterp = nil, false
					if l, ok := k2[iana.KeyParameterKeyOps].([]any); ok {
						cborInterp = true
						for _, e := range l {
							switch x := e.(type) {
							case int64:
								cborOps = append(cborOps, int(x))
							case uint64:
								cborOps = append(cborOps, int(x))
							default:
								cborInterp = false
							}
						}
					}
					if cborInterp {
						ops = cborOps
					}
				}
			}
		}
		aux := r.prep(k)
		keyTerm := qMap(k)
		var impl any
		var berr error
		if p, msg := catch(func() { impl, berr = r.build(k) }); p {
			c.fail(failure{Op: "ops-build", What: "panic", Input: describe(map[any]any(k)), Observed: "panic: " + msg, Expected: "error or implementation"})
			continue
		}
		var steps []string
		var outs []string
		var human []string
		// the list in effect for the implementation (nil slice = unrestricted), tracked for the history oracle
		eff := ops
		effAbsent := absent
		_, isPriv := k[iana.EC2KeyParameterD]
		shared := !((r.coq == "FEdVerify" || r.coq == "FEcVerify") && isPriv)
		if !shared && !absent {
			eff = []int{2}
		}
		permits := func(op int) bool {
			if effAbsent || len(eff) == 0 {
				return true
			}
			all, has := true, false
			for _, o := range eff {
				in := false
				for _, f := range r.famOps {
					if o == f {
						in = true
					}
				}
				if !in {
					all = false
				}
				if o == op || (r.coq == "FEcdh" && (o == 7 || o == 8)) {
					has = true
				}
			}
			return all && has
		}
		firstOut := false
		if berr == nil {
			nst := 2 + c.r.intn(4)
			for s := 0; s < nst; s++ {
				if s > 0 && c.r.intn(2) == 0 {
					var nl []int
					switch c.r.intn(4) {
					case 0:
						nl = nil
					case 1:
						nl = []int{r.op}
					case 2:
						for _, o := range r.famOps {
							if o != r.op {
								nl = append(nl, o)
							}
						}
					default:
						nl = append([]int{}, r.famOps...)
					}
					if c.r.intn(5) == 0 {
						// operations foreign to the family only (the F15 lists, which also hold the operation, are probed separately)
						nl = pick(c.r, [][]int{{5}, {6}, {5, 6}, {3}, {9, 10}, {1}})
						for _, o := range nl {
							for _, f := range r.famOps {
								if o == f {
									nl = []int{11}
								}
							}
						}
					}
					k.SetOps(nl...)
					if shared {
						eff, effAbsent = nl, len(nl) == 0
					}
					var zs []string
					for _, o := range nl {
						zs = append(zs, qZ(int64(o)))
					}
					steps = append(steps, "SetOps "+qList(zs))
					human = append(human, fmt.Sprintf("SetOps%v", nl))
					continue
				}
				op := r.op
				if s > 0 && c.r.intn(3) == 0 && strings.HasPrefix(r.coq, "(FSym") {
					op = r.famOps[c.r.intn(2)]
				}
				var err error
				if p, msg := catch(func() { err = r.do(impl, op, aux) }); p {
					c.fail(failure{Op: "ops-do", What: "panic", Input: describe(map[any]any(k)), Observed: "panic: " + msg, Expected: "error or result"})
					err = fmt.Errorf("panic")
				}
				if s == 0 {
					firstOut = err == nil
				}
				steps = append(steps, "Do "+qZ(int64(op)))
				outs = append(outs, qB(err == nil))
				human = append(human, fmt.Sprintf("Do(%d)=%v", op, err == nil))
				c.count(fmt.Sprintf("%s op=%d performed=%v", r.coq, op, err == nil))
				if s > 0 && permits(op) != (err == nil) {
					c.fail(failure{Op: "key_ops-history", What: "operation outcome does not follow the key_ops in effect at the call",
						Input:    fmt.Sprintf("fam=%s key=%s history=%s", r.coq, describe(map[any]any(k)), strings.Join(human, ",")),
						Observed: fmt.Sprintf("performed=%v", err == nil), Expected: fmt.Sprintf("performed=%v (list in effect %v)", permits(op), eff), Theorem: "C16_history"})
				}
			}
		}
		line := fmt.Sprintf("ops|seed=%d|i=%d|fam=%s|rep=%s|ops=%v|built=%v|%s", c.seed, i, r.coq, repName, ops, berr == nil, strings.Join(human, ","))
		c.addCase(fmt.Sprintf("OpsCase %s %s %s %s %s %s", r.coq, orc.coq(), keyTerm, qList(steps), qB(berr == nil), qList(outs)), line)
		c.nontriv(fmt.Sprintf("%s|%s|%v|%d", r.coq, repName, berr == nil, len(ops)))
		if i < 5 {
			c.sample(line)
		}
		// oracle for the build step, straight from the property text
		if !absent {
			interpretable := rep <= 5
			if viaCBOR {
				interpretable = cborInterp
			}
			allFam := true
			hasOp := false
			for _, o := range ops {
				in := false
				for _, f := range r.famOps {
					if o == f {
						in = true
					}
				}
				if !in {
					allFam = false
				}
				if o == r.op || (r.coq == "FEcdh" && (o == 7 || o == 8)) {
					hasOp = true
				}
			}
			if r.coq == "FEdVerify" || r.coq == "FEcVerify" {
				// a verifier made from a private key needs `sign`; from a public key `verify`
				if _, priv := k[iana.EC2KeyParameterD]; priv {
					hasOp = false
					for _, o := range ops {
						if o == 1 {
							hasOp = true
						}
					}
				}
			}
			want := interpretable && (len(ops) == 0 || (allFam && hasOp))
			got := berr == nil && firstOut
			if got && !want {
				c.fail(failure{Op: "key_ops", What: "operation performed although key_ops forbids it", Input: line, Observed: "performed", Expected: "error at creation or at the call", Case: line, Theorem: "C16_performs_iff"})
			}
			if !got && want {
				c.fail(failure{Op: "key_ops", What: "operation refused although key_ops permits it", Input: line, Observed: fmt.Sprintf("build err=%v, first call ok=%v", berr, firstOut), Expected: "performed", Case: line, Theorem: "C16_performs_iff"})
			}
		}
	}
	opsTwoKeyAndDerived(c)
}

// opsTwoKeyAndDerived: (a) the second key of a two-key operation: the remote public key handed to ECDHer.ECDH is bound by
// its own key_ops like any key (whatever ecdh.CheckKey refuses in it, ECDH refuses); (b) public keys derived from a
// restricted private key carry only public-side operations: verify for the signature families, none for ECDH.
func opsTwoKeyAndDerived(c *ctx) {
	fail := func(what, in string, obs, exp any) {
		c.fail(failure{Op: "key_ops", What: what, Input: short(in), Observed: short(fmt.Sprint(obs)), Expected: short(fmt.Sprint(exp)), Case: short(in)})
	}
	for _, crv := range []int{1, 2, 3, 4} {
		own, e1 := ecdh.GenerateKey(crv)
		rk, e2 := ecdh.GenerateKey(crv)
		if e1 != nil || e2 != nil {
			continue
		}
		rp, e3 := ecdh.ToPublicKey(rk)
		ea, e4 := ecdh.NewECDHer(own)
		if e3 != nil || e4 != nil {
			continue
		}
		variants := []any{key.Ops{1}, []int{2}, []any{uint64(9)}, key.Ops{7}, []any{int64(8)}, key.Ops{7, 8}, key.Ops{5, 7}, "derive key", nil, 7, []any{"7"}, key.Ops{}, []any{}}
		forms := []string{"go", "cbor"}
		for vi, v := range variants {
			for _, form := range forms {
				remote := cloneKey(rp)
				remote[iana.KeyParameterKeyOps] = v
				if form == "cbor" {
					b, err := key.MarshalCBOR(remote)
					if err != nil {
						continue
					}
					var r2 key.Key
					if key.UnmarshalCBOR(b, &r2) != nil {
						continue
					}
					remote = r2
				}
				cerr := ecdh.CheckKey(remote)
				var derr error
				var sec []byte
				p, pm := catch(func() { sec, derr = ea.ECDH(remote) })
				c.eval()
				c.nontriv(fmt.Sprintf("remote-ops|%d|%d|%s|%v", crv, vi, form, derr == nil))
				line := fmt.Sprintf("ops-remote|crv=%d|remote=%s (%s)", crv, describe(remote), form)
				switch {
				case p:
					fail("ECDH panics on a remote key with a key_ops member", line, pm, "a secret or an error")
				case cerr != nil && derr == nil:
					fail("a shared secret is derived with a remote key whose key_ops the family refuses", line, fmt.Sprintf("secret %x", sec), "an error ("+cerr.Error()+")")
				case cerr == nil && derr != nil:
					fail("ECDH refuses a remote key whose key_ops is valid", line, derr, "a secret")
				}
			}
		}
	}
	// derived public keys
	for round := 0; round < c.n(2, 10); round++ {
		for _, alg := range []int{-7, -35, -36, -8} {
			for _, ops := range [][]int{{1}, {1, 2}, {2, 1}, {2}, {}} {
				for rep := 0; rep < 3; rep++ {
					k, err := genKeyFor(alg)
					if err != nil {
						continue
					}
					switch rep {
					case 0:
						k[iana.KeyParameterKeyOps] = key.Ops(ops)
					case 1:
						k[iana.KeyParameterKeyOps] = append([]int{}, ops...)
					default:
						var l []any
						for _, o := range ops {
							l = append(l, uint64(o))
						}
						if l == nil {
							l = []any{}
						}
						k[iana.KeyParameterKeyOps] = l
					}
					before := qMap(k)
					line := fmt.Sprintf("ops-derived|alg=%d|key_ops=%v (rep %d)", alg, ops, rep)
					var pubs []key.Key
					if alg == -8 {
						if pk, err := ed25519.ToPublicKey(k); err == nil {
							pubs = append(pubs, pk)
						}
					} else if pk, err := ecdsa.ToPublicKey(k); err == nil {
						pubs = append(pubs, pk)
					}
					if v, err := k.Verifier(); err == nil {
						pubs = append(pubs, v.Key())
					}
					c.eval()
					c.nontriv(fmt.Sprintf("derived-ops|%d|%v|%d|%d", alg, ops, rep, len(pubs)))
					for _, pk := range pubs {
						if pk.Has(iana.EC2KeyParameterD) {
							continue // (a verifier made from a private key reports that key: its list is the private key's)
						}
						for _, o := range pk.Ops() {
							if o != iana.KeyOperationVerify {
								fail("a public key derived from a private key lists an operation other than verify", line, describe(pk), "key_ops [verify] or none")
							}
						}
						if raw, ok := pk[iana.KeyParameterKeyOps]; ok && pk.Ops() == nil {
							fail("a public key derived from a private key carries an uninterpretable key_ops", line, raw, "key_ops [verify] or none")
						}
					}
					if qMap(k) != before {
						fail("deriving a public key changed the private key", line, qMap(k), before)
					}
				}
			}
		}
		for _, crv := range []int{1, 2, 3, 4} {
			for _, ops := range [][]int{{7}, {7, 8}, {8}, {}} {
				k, err := ecdh.GenerateKey(crv)
				if err != nil {
					continue
				}
				k[iana.KeyParameterKeyOps] = key.Ops(ops)
				pk, err := ecdh.ToPublicKey(k)
				c.eval()
				if err != nil {
					continue
				}
				if len(pk.Ops()) != 0 {
					fail("the public key derived from an ECDH private key lists operations", fmt.Sprintf("ops-derived|ecdh crv=%d|key_ops=%v", crv, ops), describe(pk), "an empty list or none")
				}
			}
		}
	}
}
