package main

import (
	"bytes"
	gohmac "crypto/hmac"
	"crypto/sha256"
	"crypto/sha512"
	"fmt"

	"github.com/ldclabs/cose/iana"
	"github.com/ldclabs/cose/key"
	"github.com/ldclabs/cose/key/aesmac"
	"github.com/ldclabs/cose/key/hmac"
)

func init() { streams["mac"] = streamMac }

// genBytes: the filler shared with coq/Lib/Base.v gen_bytes
func genBytes(seed uint64, n int) []byte {
	x := seed
	out := make([]byte, n)
	for i := range out {
		x = (1103515245*x + 12345) % 2147483648
		out[i] = byte(x / 65536)
	}
	return out
}

// qGen renders a long input as (gen_bytes seed n) so that case files stay small
func qGen(seed uint64, n int) string { return fmt.Sprintf("(gen_bytes %d %d)", seed, n) }

func macer(alg int, k []byte) (key.MACer, error) {
	kk := key.Key{iana.KeyParameterKty: iana.KeyTypeSymmetric, iana.KeyParameterAlg: alg, iana.SymmetricKeyParameterK: k, iana.KeyParameterKid: []byte("kid-shared-by-all-keys")}
	if alg >= 4 && alg <= 7 {
		return hmac.New(kk)
	}
	return aesmac.New(kk)
}

func streamMac(c *ctx) {
	c.beginCases("From Cose Require Import Model.Mac Model.CryptoCorr.", "mac_case", "check_mac_case")
	c.maxCases = 120
	algs := []int{4, 5, 6, 7, 14, 15, 25, 26}
	tagLen := map[int]int{4: 8, 5: 32, 6: 48, 7: 64, 14: 8, 15: 8, 25: 16, 26: 16}
	// message lengths: every residue mod 16, neighbourhoods of the hash block sizes, and a few long ones
	var lens []int
	for l := 0; l <= 40; l++ {
		lens = append(lens, l)
	}
	lens = append(lens, 55, 56, 57, 63, 64, 65, 111, 112, 113, 119, 120, 127, 128, 129, 191, 192, 193, 255, 256, 257, 300, 511, 1000)
	long := []int{4095, 4096, 4097, 5000, 8176, 8177, 8193, 9001, 12301}
	if c.thorough() {
		long = append(long, 16384, 65535, 65536)
		for l := 41; l <= 400; l++ {
			lens = append(lens, l)
		}
	}
	idx := 0
	one := func(alg, l int, big bool) {
		idx++
		k := c.r.bytes(symKeySize[alg])
		seed := c.r.next() % 100000
		var msg []byte
		var mterm string
		if big {
			msg = genBytes(seed, l)
			mterm = qGen(seed, l)
		} else {
			msg = c.r.bytes(l)
			mterm = qHex(msg)
		}
		m, err := macer(alg, k)
		if err != nil {
			c.fail(failure{Op: "mac", What: "factory refuses a key of the prescribed size", Input: fmt.Sprintf("alg=%d", alg), Observed: err.Error(), Expected: "MACer"})
			return
		}
		var tag []byte
		var cerr error
		p, pm := catch(func() { tag, cerr = m.MACCreate(msg) })
		line := fmt.Sprintf("mac|alg=%d|keylen=%d|msglen=%d|seed=%d", alg, len(k), l, seed)
		if p {
			c.fail(failure{Op: "mac", What: "MACCreate panics", Input: line, Observed: "panic: " + pm, Expected: "tag or error", Case: line, Theorem: "C11_aesmac_is_cbcmac"})
			return
		}
		ctor := "MHmac"
		if alg > 7 {
			ctor = "MAesMac"
		}
		c.addCase(fmt.Sprintf("%s %d %s %s %s %s", ctor, alg, qHex(k), mterm, qB(cerr == nil), qHex(tag)), line+fmt.Sprintf(" => ok=%v tag=%x", cerr == nil, tag))
		if cerr == nil && len(tag) != tagLen[alg] {
			c.fail(failure{Op: "mac", What: "tag length differs from the registered one", Input: line, Observed: fmt.Sprint(len(tag)), Expected: fmt.Sprint(tagLen[alg]), Case: line, Theorem: "C11_tag_len"})
		}
		if alg > 7 && l == 0 && cerr == nil {
			c.fail(failure{Op: "mac", What: "AES-CBC-MAC of the empty string is undefined and must be refused", Input: line, Observed: hx(tag), Expected: "error", Case: line})
		}
		c.nontriv(fmt.Sprintf("create|%d|%d|%v", alg, l%128, cerr == nil))
		if idx < 4 {
			c.sample(line)
		}
		if cerr != nil || big || (l > 80 && idx%4 != 0) {
			return
		}
		// verification: the tag itself, then truncations, extensions, bit flips, other data, other key
		muts := [][]byte{tag, tag[:len(tag)-1], append(append([]byte{}, tag...), 0), append(append([]byte{}, tag...), tag...), {}, nil}
		// the untruncated MAC and the tag followed by its true continuation (truncating algorithms)
		switch alg {
		case 4:
			hm := gohmac.New(sha256.New, k)
			hm.Write(msg)
			full := hm.Sum(nil)
			muts = append(muts, full, full[:9], full[:16])
		case 14, 15:
			if m16, err := macer(alg+11, k); err == nil {
				if full, err := m16.MACCreate(msg); err == nil {
					muts = append(muts, full, full[:9])
				}
			}
		}
		for _, bit := range []int{0, 7, len(tag)*8 - 1, c.r.intn(len(tag) * 8)} {
			t := append([]byte{}, tag...)
			t[bit/8] ^= 1 << (bit % 8)
			muts = append(muts, t)
		}
		// the tag followed by n more octets (zeros or arbitrary) for n at and around the multiples of 256, and the tag cut
		// by 1 .. all octets: oracle only (the model comparison is made on the mutations above)
		if idx%8 == 1 {
			for _, n := range []int{1, 2, 8, 16, 255, 256, 257, 264, 511, 512, 513, 768, 1024, 65536} {
				for _, fill := range []byte{0, 0x5a} {
					ext := append(append([]byte{}, tag...), bytes.Repeat([]byte{fill}, n)...)
					c.eval()
					if m.MACVerify(msg, ext) == nil {
						c.fail(failure{Op: "mac", What: "verification accepts the tag followed by more octets", Input: line + fmt.Sprintf(" presented=tag || %d x %02x", n, fill), Observed: "accepted", Expected: "refused", Case: line, Theorem: "C11_verify_exact"})
					}
				}
			}
			for cut := 1; cut <= len(tag); cut++ {
				c.eval()
				if m.MACVerify(msg, tag[:len(tag)-cut]) == nil {
					c.fail(failure{Op: "mac", What: "verification accepts a truncated tag", Input: line + fmt.Sprintf(" presented=tag without its last %d octets (%x)", cut, tag[:len(tag)-cut]), Observed: "accepted", Expected: "refused", Case: line, Theorem: "C11_verify_exact"})
				}
			}
		}
		for mi, t := range muts {
			var verr error
			p, pm := catch(func() { verr = m.MACVerify(msg, t) })
			if p {
				c.fail(failure{Op: "mac", What: "MACVerify panics", Input: line, Observed: "panic: " + pm, Expected: "error or nil", Case: line})
				continue
			}
			c.addCase(fmt.Sprintf("MVerify %s %d %s %s %s %s", qB(alg > 7), alg, qHex(k), mterm, qHex(t), qB(verr == nil)), line+fmt.Sprintf("|verify tag=%x => %v", t, verr == nil))
			if (mi == 0) != (verr == nil) {
				c.fail(failure{Op: "mac", What: "verification accepts something other than the exact tag (or rejects the tag)", Input: line + fmt.Sprintf(" presented=%x", t), Observed: fmt.Sprintf("accepted=%v", verr == nil), Expected: fmt.Sprintf("accepted=%v", mi == 0), Case: line, Theorem: "C11_verify_exact"})
			}
			c.nontriv(fmt.Sprintf("verify|%d|%d|%v", alg, mi, verr == nil))
		}
		if l > 0 {
			other := append([]byte{}, msg...)
			other[c.r.intn(l)] ^= 0x80
			if m.MACVerify(other, tag) == nil {
				c.fail(failure{Op: "mac", What: "tag accepted for other data", Input: line, Observed: "accepted", Expected: "rejected", Case: line, Theorem: "C11_verify_exact"})
			}
			k2 := append([]byte{}, k...)
			k2[0] ^= 1
			if m2, err := macer(alg, k2); err == nil && m2.MACVerify(msg, tag) == nil {
				c.fail(failure{Op: "mac", What: "tag accepted under another key", Input: line, Observed: "accepted", Expected: "rejected", Case: line, Theorem: "C11_verify_exact"})
			}
			c.eval()
			c.eval()
		}
	}
	for _, alg := range algs {
		step := 1
		if !c.thorough() {
			step = 3
		}
		for i := (alg % step); i < len(lens); i += step {
			one(alg, lens[i], false)
		}
		one(alg, 0, false)
		one(alg, 1, false)
		one(alg, 16, false)
		for _, l := range long {
			if c.thorough() || (alg+l)%4 == 0 {
				one(alg, l, true)
			}
		}
	}
	// one MACer object over a history of messages (lengths with falling and rising residues mod the block size,
	// creations and verifications interleaved): every answer is the one a fresh object gives, inputs are left untouched
	for _, alg := range algs {
		k := c.r.bytes(symKeySize[alg])
		m, err := macer(alg, k)
		if err != nil {
			continue
		}
		hl := []int{31, 15, 7, 1, 40, 17, 16, 5, 33, 3, 64, 63, 2, 47, 46, 13}
		for j := c.n(6, 40); j > 0; j-- {
			hl = append(hl, 1+c.r.intn(70))
		}
		ctor := "MHmac"
		if alg > 7 {
			ctor = "MAesMac"
		}
		hist := ""
		for step, l := range hl {
			msg := c.r.bytes(l)
			for i := range msg {
				msg[i] |= 1 // no zero bytes: stale state of an earlier call cannot hide behind the padding
			}
			orig := append([]byte{}, msg...)
			hist += fmt.Sprintf(" %d", l)
			line := fmt.Sprintf("mac-history|alg=%d|key=%x|lengths so far:%s|msg=%x", alg, k, hist, orig)
			var tag []byte
			var cerr error
			p, pm := catch(func() { tag, cerr = m.MACCreate(msg) })
			if p {
				c.fail(failure{Op: "mac-history", What: "MACCreate panics on a reused MACer", Input: line, Observed: "panic: " + pm, Expected: "tag", Case: line})
				break
			}
			c.addCase(fmt.Sprintf("%s %d %s %s %s %s", ctor, alg, qHex(k), qHex(orig), qB(cerr == nil), qHex(tag)), line+fmt.Sprintf(" => ok=%v tag=%x", cerr == nil, tag))
			fresh, _ := macer(alg, k)
			ftag, ferr := fresh.MACCreate(orig)
			if (cerr == nil) != (ferr == nil) || string(tag) != string(ftag) {
				c.fail(failure{Op: "mac-history", What: "a MACer used before gives another tag than a fresh MACer of the same key", Input: line, Observed: fmt.Sprintf("%x err=%v", tag, cerr), Expected: fmt.Sprintf("%x err=%v", ftag, ferr), Case: line, Theorem: "C11_aesmac_is_cbcmac"})
			}
			if string(msg) != string(orig) {
				c.fail(failure{Op: "mac-history", What: "MACCreate changed the caller's data", Input: line, Observed: hx(msg), Expected: hx(orig), Case: line})
			}
			if cerr == nil && step%2 == 0 {
				verr := m.MACVerify(msg, ftag)
				c.eval()
				if verr != nil {
					c.fail(failure{Op: "mac-history", What: "a MACer used before refuses the correct tag", Input: line, Observed: verr.Error(), Expected: "accepted", Case: line, Theorem: "C11_verify_exact"})
				}
				// a message that continues with other bytes has another tag
				longer := append(append([]byte{}, orig...), 0x55)
				if m.MACVerify(longer, ftag) == nil {
					c.fail(failure{Op: "mac-history", What: "tag accepted for other data on a reused MACer", Input: line, Observed: "accepted", Expected: "rejected", Case: line, Theorem: "C11_verify_exact"})
				}
			}
			c.nontriv(fmt.Sprintf("history|%d|%d|%d", alg, step, l%16))
		}
	}
	// wrong key sizes are refused by every factory: New, CheckKey, KeyFrom of the package, and the registry
	sizes := []int{128, 129, 200}
	for l := 0; l <= 65; l++ {
		sizes = append(sizes, l)
	}
	for _, alg := range algs {
		for _, l := range sizes {
			kb := c.r.bytes(l)
			kk := key.Key{iana.KeyParameterKty: iana.KeyTypeSymmetric, iana.KeyParameterAlg: alg, iana.SymmetricKeyParameterK: kb}
			_, e1 := macer(alg, kb)
			_, e4 := kk.MACer()
			var e2, e3 error
			var kf key.Key
			if alg >= 4 && alg <= 7 {
				e2 = hmac.CheckKey(kk)
				kf, e3 = hmac.KeyFrom(alg, append([]byte{}, kb...))
			} else {
				e2 = aesmac.CheckKey(kk)
				kf, e3 = aesmac.KeyFrom(alg, append([]byte{}, kb...))
			}
			c.eval()
			want := l == symKeySize[alg]
			for fi, e := range []error{e1, e2, e3, e4} {
				if (e == nil) != want {
					c.fail(failure{Op: "mac", What: "key size check (" + []string{"New", "CheckKey", "KeyFrom", "Key.MACer"}[fi] + ")", Input: fmt.Sprintf("alg=%d keylen=%d", alg, l), Observed: fmt.Sprintf("accepted=%v", e == nil), Expected: fmt.Sprintf("accepted=%v", want), Theorem: "C11_wrong_key_size_refused"})
				}
			}
			if e3 == nil {
				if got, _ := kf.GetBytes(iana.SymmetricKeyParameterK); !bytes.Equal(got, kb) {
					c.fail(failure{Op: "mac", What: "KeyFrom returned a key with other key material than it was given", Input: fmt.Sprintf("alg=%d key=%x", alg, kb), Observed: fmt.Sprintf("%x", got), Expected: fmt.Sprintf("%x", kb), Theorem: "C11_wrong_key_size_refused"})
				}
			}
		}
	}
	// a key whose key material is absent, null or of another type is refused by every factory (the registered length
	// cannot be met by something that is not a byte string); with and without kid / key_ops
	for _, alg := range algs {
		good := c.r.bytes(symKeySize[alg])
		type variant struct {
			name string
			mk   func(k key.Key)
		}
		vs := []variant{
			{"k absent", func(k key.Key) { delete(k, iana.SymmetricKeyParameterK) }},
			{"k null", func(k key.Key) { k[iana.SymmetricKeyParameterK] = nil }},
			{"k nil byte string", func(k key.Key) { k[iana.SymmetricKeyParameterK] = []byte(nil) }},
			{"k text string", func(k key.Key) { k[iana.SymmetricKeyParameterK] = string(good) }},
			{"k integer", func(k key.Key) { k[iana.SymmetricKeyParameterK] = 7 }},
			{"k array of octets", func(k key.Key) {
				a := make([]any, len(good))
				for i, b := range good {
					a[i] = int(b)
				}
				k[iana.SymmetricKeyParameterK] = a
			}},
			{"k under label 1 only (kty overwritten)", func(k key.Key) { delete(k, iana.SymmetricKeyParameterK); k["k"] = good }},
		}
		for _, v := range vs {
			for deco := 0; deco < 3; deco++ {
				kk := key.Key{iana.KeyParameterKty: iana.KeyTypeSymmetric, iana.KeyParameterAlg: alg, iana.SymmetricKeyParameterK: append([]byte{}, good...)}
				switch deco {
				case 1:
					kk[iana.KeyParameterKid] = []byte("kid-1")
				case 2:
					kk[iana.KeyParameterKid] = []byte("kid-1")
					kk[iana.KeyParameterKeyOps] = key.Ops{iana.KeyOperationMacCreate, iana.KeyOperationMacVerify}
				}
				v.mk(kk)
				var e1, e2 error
				var m key.MACer
				if alg >= 4 && alg <= 7 {
					e1 = hmac.CheckKey(kk)
					m, e2 = hmac.New(kk)
				} else {
					e1 = aesmac.CheckKey(kk)
					m, e2 = aesmac.New(kk)
				}
				m3, e3 := kk.MACer()
				c.eval()
				c.nontriv(fmt.Sprintf("badk|%d|%s|%d", alg, v.name, deco))
				for fi, e := range []error{e1, e2, e3} {
					if e == nil {
						obs := "accepted"
						if mm := []key.MACer{nil, m, m3}[fi]; mm != nil {
							if tag, err := mm.MACCreate([]byte("data")); err == nil {
								obs = fmt.Sprintf("accepted; MACCreate(\"data\") = %x", tag)
							}
						}
						c.fail(failure{Op: "mac", What: "a key without usable key material is accepted (" + []string{"CheckKey", "New", "Key.MACer"}[fi] + "): " + v.name, Input: fmt.Sprintf("alg=%d key=%s", alg, fmt.Sprintf("%v", map[any]any(kk))), Observed: obs, Expected: "refused", Theorem: "C11_wrong_key_size_refused"})
					}
				}
			}
		}
	}
	// the reference hash functions against Go's (validates Lib/Sha2.v beyond the FIPS vectors)
	for _, l := range []int{0, 1, 55, 56, 63, 64, 65, 111, 112, 119, 120, 127, 128, 129, 200, 1000} {
		msg := c.r.bytes(l)
		h1 := sha256.Sum256(msg)
		h2 := sha512.Sum384(msg)
		h3 := sha512.Sum512(msg)
		c.addCase(fmt.Sprintf("MSha 256 %s %s", qHex(msg), qHex(h1[:])), fmt.Sprintf("sha256|len=%d", l))
		c.addCase(fmt.Sprintf("MSha 384 %s %s", qHex(msg), qHex(h2[:])), fmt.Sprintf("sha384|len=%d", l))
		c.addCase(fmt.Sprintf("MSha 512 %s %s", qHex(msg), qHex(h3[:])), fmt.Sprintf("sha512|len=%d", l))
	}
}
