package main

import (
	"bytes"
	"fmt"

	"github.com/ldclabs/cose/cose"
	"github.com/ldclabs/cose/iana"
	"github.com/ldclabs/cose/key"
)

func init() { streams["reuse"] = streamReuse }

// Stream reuse (oracle stream, real algorithms): one message object used to produce more than once (C05, C06, C01).
//
//	A  a decoded (and consumed) message is produced again by its owner with another key of the same family: after the
//	   caller has put that key's algorithm into the protected header (in place, in the map the object holds) the message
//	   that leaves carries that algorithm and is accepted back under the new key only; without the edit the attempt is
//	   refused (the protected algorithm is that of the first key). Pairs sharing key bytes (HMAC 256/64 vs 256/256,
//	   AES-MAC 128/64 vs 128/128, CCM variants) are included.
//	B  an object that was encrypted once (library-chosen IV) is given an IV by the caller and encrypted again: the
//	   caller's IV is the one published, and the message decrypts (the nonce is the published IV).
type reuseMsg struct {
	obj     realObj
	prot    func() cose.Headers
	unprot  func() cose.Headers
	produce func(k key.Key, ext []byte) error
	consume func(k key.Key, ext []byte) ([]byte, error)
}

func newReuseMsg(kind string, payload []byte) *reuseMsg {
	r := &reuseMsg{}
	switch kind {
	case "KSign1":
		m := &cose.Sign1Message[[]byte]{Payload: payload}
		r.obj, r.prot, r.unprot = m, func() cose.Headers { return m.Protected }, func() cose.Headers { return m.Unprotected }
		r.produce = func(k key.Key, ext []byte) error {
			s, e := k.Signer()
			if e != nil {
				return e
			}
			return m.WithSign(s, ext)
		}
	case "KMac0":
		m := &cose.Mac0Message[[]byte]{Payload: payload}
		r.obj, r.prot, r.unprot = m, func() cose.Headers { return m.Protected }, func() cose.Headers { return m.Unprotected }
		r.produce = func(k key.Key, ext []byte) error {
			s, e := k.MACer()
			if e != nil {
				return e
			}
			return m.Compute(s, ext)
		}
	case "KMac":
		m := &cose.MacMessage[[]byte]{Payload: payload}
		r.obj, r.prot, r.unprot = m, func() cose.Headers { return m.Protected }, func() cose.Headers { return m.Unprotected }
		r.produce = func(k key.Key, ext []byte) error {
			s, e := k.MACer()
			if e != nil {
				return e
			}
			if len(m.Recipients()) == 0 {
				m.AddRecipient(&cose.Recipient{Protected: cose.Headers{}, Unprotected: cose.Headers{iana.HeaderParameterAlg: iana.AlgorithmDirect}, Ciphertext: []byte{}})
			}
			return m.Compute(s, ext)
		}
	case "KEnc0":
		m := &cose.Encrypt0Message[[]byte]{Payload: payload}
		r.obj, r.prot, r.unprot = m, func() cose.Headers { return m.Protected }, func() cose.Headers { return m.Unprotected }
		r.produce = func(k key.Key, ext []byte) error {
			s, e := k.Encryptor()
			if e != nil {
				return e
			}
			return m.Encrypt(s, ext)
		}
	default:
		m := &cose.EncryptMessage[[]byte]{Payload: payload}
		r.obj, r.prot, r.unprot = m, func() cose.Headers { return m.Protected }, func() cose.Headers { return m.Unprotected }
		r.produce = func(k key.Key, ext []byte) error {
			s, e := k.Encryptor()
			if e != nil {
				return e
			}
			if len(m.Recipients()) == 0 {
				m.AddRecipient(&cose.Recipient{Protected: cose.Headers{}, Unprotected: cose.Headers{iana.HeaderParameterAlg: iana.AlgorithmDirect}, Ciphertext: []byte{}})
			}
			return m.Encrypt(s, ext)
		}
	}
	return r
}

// algOf reads label 1 of a decoded header map as an integer.
func algOf(h cose.Headers) (int64, bool) {
	v, ok := h[iana.HeaderParameterAlg]
	if !ok {
		return 0, false
	}
	switch x := v.(type) {
	case int:
		return int64(x), true
	case int64:
		return x, true
	case uint64:
		return int64(x), true
	}
	return 0, false
}

func streamReuse(c *ctx) {
	fam := func(alg int) (kinds []string, sibs []int) {
		switch {
		case alg < 0:
			return []string{"KSign1"}, []int{-7, -35, -36, -8}
		case alg >= 4 && alg <= 7:
			return []string{"KMac0", "KMac"}, []int{4, 5, 6, 7}
		case alg == 14 || alg == 15 || alg == 25 || alg == 26:
			return []string{"KMac0", "KMac"}, []int{14, 25, 15, 26}
		case alg >= 1 && alg <= 3:
			return []string{"KEnc0", "KEnc"}, []int{1, 2, 3, 24}
		case alg == 24:
			return []string{"KEnc0", "KEnc"}, []int{24, 3}
		default:
			return []string{"KEnc0", "KEnc"}, []int{10, 30, 11, 31, 12, 32, 13, 33}
		}
	}
	// keys of two algorithms sharing their key bytes, when the sizes allow it
	sameBytes := map[[2]int]bool{{4, 5}: true, {5, 4}: true, {14, 25}: true, {25, 14}: true, {15, 26}: true, {26, 15}: true,
		{10, 30}: true, {30, 10}: true, {12, 32}: true, {32, 12}: true, {11, 31}: true, {31, 11}: true, {13, 33}: true, {33, 13}: true, {10, 12}: true, {11, 13}: true, {3, 24}: true, {24, 3}: true}
	rounds := c.n(1, 4)
	for round := 0; round < rounds; round++ {
		for _, a := range allAlgs {
			x := a.alg
			kinds, sibs := fam(x)
			for _, kind := range kinds {
				for _, y := range sibs {
					if y == x {
						continue
					}
					kx, err := genKeyFor(x)
					if err != nil {
						continue
					}
					kx[iana.KeyParameterKid] = []byte("first")
					var ky key.Key
					if sameBytes[[2]int{x, y}] {
						ky = cloneKey(kx)
						ky[iana.KeyParameterAlg] = y
					} else if ky, err = genKeyFor(y); err != nil {
						continue
					}
					ky[iana.KeyParameterKid] = []byte("second")
					payload := c.r.bytes(pick(c.r, []int{1, 16, 40}))
					ext := c.r.bytes(c.r.intn(4))
					line := short(fmt.Sprintf("reuse|%s|first alg=%d|second alg=%d (same key bytes: %v)|payload=%x|ext=%x", kind, x, y, sameBytes[[2]int{x, y}], payload, ext))
					data, perr := produceReal(kind, kx, payload, ext)
					if perr != nil {
						c.fail(failure{Op: "reuse", What: "producing a message with a generated key failed", Input: line, Observed: perr.Error(), Expected: "bytes", Case: line})
						continue
					}
					m := newReuseMsg(kind, nil)
					_, consume := newRealObj(kind)
					_ = consume
					if err := m.obj.UnmarshalCBOR(data); err != nil {
						c.fail(failure{Op: "reuse", What: "a produced message does not decode", Input: line, Observed: err.Error(), Expected: "decoded", Case: line})
						continue
					}
					// the decoded payload is not available before consuming for the encrypted kinds: consume through a twin object
					var seen [][]byte
					got, _, cerr := consumeReal(kind, kx, data, ext, &seen)
					if cerr != nil || !bytes.Equal(got, payload) {
						c.fail(failure{Op: "reuse", What: "a produced message is not accepted back", Input: line, Observed: fmt.Sprint(cerr), Expected: "payload", Case: line})
						continue
					}
					setPayload(m.obj, payload)
					// 1. produced again with the second key, the protected header still naming the first algorithm: refused
					var e1 error
					p, pm := catch(func() { e1 = m.produce(ky, ext) })
					c.eval()
					c.nontriv(fmt.Sprintf("reuse|%s|%d|%d|unedited|%v", kind, x, y, e1 == nil))
					if p || e1 == nil {
						c.fail(failure{Op: "reuse", What: "a decoded message whose protected header names one algorithm was produced again with a key of another algorithm", Input: line,
							Observed: short(fmt.Sprintf("panic=%v %s err=%v", p, pm, e1)), Expected: "an error", Case: line})
						continue
					}
					// 2. the caller names the second algorithm in the protected header, in place
					m.prot()[iana.HeaderParameterAlg] = y
					if u := m.unprot(); u != nil {
						delete(u, iana.HeaderParameterKid)
						delete(u, iana.HeaderParameterIV)
						delete(u, iana.HeaderParameterPartialIV)
					}
					var e2 error
					p, pm = catch(func() { e2 = m.produce(ky, ext) })
					c.eval()
					if p || e2 != nil {
						c.fail(failure{Op: "reuse", What: "a decoded message whose protected header was set to the key's algorithm cannot be produced again", Input: line,
							Observed: short(fmt.Sprintf("panic=%v %s err=%v", p, pm, e2)), Expected: "nil", Case: line})
						continue
					}
					out, merr := m.obj.MarshalCBOR()
					if merr != nil {
						c.fail(failure{Op: "reuse", What: "a message produced again does not encode", Input: line, Observed: merr.Error(), Expected: "bytes", Case: line})
						continue
					}
					fresh := newReuseMsg(kind, nil)
					if err := fresh.obj.UnmarshalCBOR(out); err != nil {
						c.fail(failure{Op: "reuse", What: "a message produced again does not decode", Input: line + "|" + short(fmt.Sprintf("%x", out)), Observed: err.Error(), Expected: "decoded", Case: line})
						continue
					}
					c.nontriv(fmt.Sprintf("reuse|%s|%d|%d|edited", kind, x, y))
					if av, ok := algOf(fresh.prot()); !ok || av != int64(y) {
						c.fail(failure{Op: "reuse", What: "a message produced with a key of one algorithm left the library naming another algorithm in its protected header", Input: line + "|" + short(fmt.Sprintf("%x", out)),
							Observed: fmt.Sprintf("protected alg %v (present %v)", av, ok), Expected: fmt.Sprintf("alg %d", y), Case: line})
						continue
					}
					got2, _, cerr2 := consumeReal(kind, ky, out, ext, &seen)
					c.eval()
					if cerr2 != nil || !bytes.Equal(got2, payload) {
						c.fail(failure{Op: "reuse", What: "a message produced again with another key is not accepted under that key", Input: line + "|" + short(fmt.Sprintf("%x", out)),
							Observed: short(fmt.Sprintf("err=%v payload=%x", cerr2, got2)), Expected: fmt.Sprintf("payload=%x", payload), Case: line})
					}
					if _, _, cerr3 := consumeReal(kind, kx, out, ext, &seen); cerr3 == nil {
						c.fail(failure{Op: "reuse", What: "a message produced again with another key is still accepted under the first key", Input: line + "|" + short(fmt.Sprintf("%x", out)),
							Observed: "accepted", Expected: "an error", Case: line})
					}
				}
			}
			// ---- B: encrypt, give an IV, encrypt again
			if kinds[0] != "KEnc0" {
				continue
			}
			for _, kind := range kinds {
				k, err := genKeyFor(x)
				if err != nil {
					continue
				}
				payload := c.r.bytes(pick(c.r, []int{1, 16, 40}))
				ext := c.r.bytes(c.r.intn(4))
				line := short(fmt.Sprintf("reuse-iv|%s|alg=%d|payload=%x|ext=%x", kind, x, payload, ext))
				m := newReuseMsg(kind, payload)
				if err := m.produce(k, ext); err != nil {
					c.fail(failure{Op: "reuse", What: "encrypting with a generated key failed", Input: line, Observed: err.Error(), Expected: "nil", Case: line})
					continue
				}
				first, _ := m.unprot().GetBytes(iana.HeaderParameterIV)
				for step := 0; step < 2; step++ {
					iv := c.r.bytes(nonceSizeOf(x))
					m.unprot()[iana.HeaderParameterIV] = append([]byte{}, iv...)
					setPayload(m.obj, payload)
					if err := m.produce(k, ext); err != nil {
						c.fail(failure{Op: "reuse", What: "encrypting an object again with an IV given by the caller failed", Input: line, Observed: err.Error(), Expected: "nil", Case: line})
						break
					}
					out, merr := m.obj.MarshalCBOR()
					if merr != nil {
						break
					}
					fresh := newReuseMsg(kind, nil)
					if err := fresh.obj.UnmarshalCBOR(out); err != nil {
						c.fail(failure{Op: "reuse", What: "a message encrypted again does not decode", Input: line, Observed: err.Error(), Expected: "decoded", Case: line})
						break
					}
					pub, _ := fresh.unprot().GetBytes(iana.HeaderParameterIV)
					c.eval()
					c.nontriv(fmt.Sprintf("reuse-iv|%s|%d|%d", kind, x, step))
					if !bytes.Equal(pub, iv) {
						c.fail(failure{Op: "reuse", What: "the IV the caller gave before encrypting an object again is not the IV published", Input: line + fmt.Sprintf("|first IV (library) %x|caller IV %x|encryption %d", first, iv, step+2),
							Observed: fmt.Sprintf("%x", pub), Expected: fmt.Sprintf("%x", iv), Case: line})
						break
					}
					var seen [][]byte
					got, _, cerr := consumeReal(kind, k, out, ext, &seen)
					if cerr != nil || !bytes.Equal(got, payload) {
						c.fail(failure{Op: "reuse", What: "a message encrypted again with the caller's IV does not decrypt (the nonce handed to the AEAD is not the published IV)", Input: line + fmt.Sprintf("|caller IV %x", iv),
							Observed: short(fmt.Sprintf("err=%v payload=%x", cerr, got)), Expected: fmt.Sprintf("payload=%x", payload), Case: line})
						break
					}
				}
			}
		}
	}
}

// setPayload restores the payload of a message object (Decrypt / Encrypt leave it as they found it; a decoded
// encrypted message has none before it is decrypted).
func setPayload(o realObj, p []byte) {
	switch m := o.(type) {
	case *cose.Sign1Message[[]byte]:
		m.Payload = p
	case *cose.Mac0Message[[]byte]:
		m.Payload = p
	case *cose.MacMessage[[]byte]:
		m.Payload = p
	case *cose.Encrypt0Message[[]byte]:
		m.Payload = p
	case *cose.EncryptMessage[[]byte]:
		m.Payload = p
	}
}
