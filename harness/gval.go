package main

import (
	"fmt"
	"math"
	"math/big"
	"reflect"
	"sort"
	"strings"
	"time"

	"github.com/fxamacker/cbor/v2"
	"github.com/ldclabs/cose/key"
)

// qGval renders a Go value as a term of the Coq type Model.GoVal.gval.
func qGval(v any) string {
	switch x := v.(type) {
	case nil:
		return "VNil"
	case bool:
		return "(VBool " + qB(x) + ")"
	case int:
		return "(VInt KInt " + qZ(int64(x)) + ")"
	case int8:
		return "(VInt KInt8 " + qZ(int64(x)) + ")"
	case int16:
		return "(VInt KInt16 " + qZ(int64(x)) + ")"
	case int32:
		return "(VInt KInt32 " + qZ(int64(x)) + ")"
	case int64:
		return "(VInt KInt64 " + qZ(x) + ")"
	case key.Alg:
		return "(VInt KInt " + qZ(int64(x)) + ")"
	case uint:
		return "(VInt KUint " + qU(uint64(x)) + ")"
	case uint8:
		return "(VInt KUint8 " + qU(uint64(x)) + ")"
	case uint16:
		return "(VInt KUint16 " + qU(uint64(x)) + ")"
	case uint32:
		return "(VInt KUint32 " + qU(uint64(x)) + ")"
	case uint64:
		return "(VInt KUint64 " + qU(x) + ")"
	case float64:
		return "(VFloat " + qU(math.Float64bits(x)) + ")"
	case float32:
		return "(VFloat " + qU(uint64(math.Float32bits(x))) + ")"
	case []byte:
		return "(VBytes " + qHex(x) + ")"
	case key.ByteStr:
		return "(VBytes " + qHex(x) + ")"
	case string:
		return "(VStr " + qStr(x) + ")"
	case []any:
		var xs []string
		for _, e := range x {
			xs = append(xs, qGval(e))
		}
		return "(VArr " + qList(xs) + ")"
	case []int:
		var xs []string
		for _, e := range x {
			xs = append(xs, qZ(int64(e)))
		}
		return "(VInts " + qList(xs) + ")"
	case key.Ops:
		if x == nil {
			return "(VOps None)"
		}
		var xs []string
		for _, e := range x {
			xs = append(xs, qZ(int64(e)))
		}
		return "(VOps (Some " + qList(xs) + "))"
	case cbor.Tag:
		return "(VTag " + qU(x.Number) + " " + qGval(x.Content) + ")"
	case cbor.SimpleValue:
		return "(VSimple " + qU(uint64(x)) + ")"
	case big.Int:
		return "(VBig " + qBig(&x) + ")"
	case *big.Int:
		return "(VBig " + qBig(x) + ")"
	case time.Time:
		return `(VOther "time.Time")`
	case map[any]any:
		if !labelKeysOnly(x) {
			return `(VOther "map[any]any with non-label keys")`
		}
		return "(VMap " + qMap(x) + ")"
	case key.CoseMap:
		return "(VMap " + qMap(x) + ")"
	case key.Key:
		return "(VMap " + qMap(x) + ")"
	default:
		// any other named byte-slice type (ed25519.PublicKey ...): the accessors read it through reflection like a ByteStr
		if rv := reflect.ValueOf(v); rv.Kind() == reflect.Slice && rv.Type().Elem().Kind() == reflect.Uint8 {
			return "(VBytes " + qHex(rv.Bytes()) + ")"
		}
		return fmt.Sprintf("(VOther \"%T\")", v)
	}
}

func qLabel(k any) string {
	switch x := k.(type) {
	case int:
		return "(LInt KInt " + qZ(int64(x)) + ")"
	case int8:
		return "(LInt KInt8 " + qZ(int64(x)) + ")"
	case int16:
		return "(LInt KInt16 " + qZ(int64(x)) + ")"
	case int32:
		return "(LInt KInt32 " + qZ(int64(x)) + ")"
	case int64:
		return "(LInt KInt64 " + qZ(x) + ")"
	case uint:
		return "(LInt KUint " + qU(uint64(x)) + ")"
	case uint8:
		return "(LInt KUint8 " + qU(uint64(x)) + ")"
	case uint16:
		return "(LInt KUint16 " + qU(uint64(x)) + ")"
	case uint32:
		return "(LInt KUint32 " + qU(uint64(x)) + ")"
	case uint64:
		return "(LInt KUint64 " + qU(x) + ")"
	case string:
		return "(LStr " + qStr(x) + ")"
	}
	return fmt.Sprintf("(LStr (hex \"\")) (* unsupported label %T *)", k)
}

// qMap renders a map in a deterministic order (the model's lookup is order independent for distinct labels).
func qMap[M ~map[any]any](m M) string {
	type ent struct{ k, v string }
	var es []ent
	for k, v := range m {
		es = append(es, ent{qLabel(k), qGval(v)})
	}
	sort.Slice(es, func(i, j int) bool { return es[i].k < es[j].k })
	var xs []string
	for _, e := range es {
		xs = append(xs, "("+e.k+", "+e.v+")")
	}
	return qList(xs)
}

func describe(v any) string {
	s := fmt.Sprintf("%T:%v", v, v)
	if len(s) > 120 {
		s = s[:120] + "..."
	}
	return strings.ReplaceAll(s, "\n", " ")
}

func qBig(b *big.Int) string {
	if b.Sign() < 0 {
		return "(" + b.String() + ")"
	}
	return b.String()
}

func labelKeysOnly(m map[any]any) bool {
	for k := range m {
		switch k.(type) {
		case int, int8, int16, int32, int64, uint, uint8, uint16, uint32, uint64, string:
		default:
			return false
		}
	}
	return true
}
