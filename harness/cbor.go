package main

import (
	"fmt"

	"github.com/ldclabs/cose/key"
)

func init() { streams["cbor"] = streamCbor }

func streamCbor(c *ctx) {
	c.beginCases("From Cose Require Import Lib.Cbor Model.GoVal Model.CborGo Model.CborCorr.", "cbor_case", "check_cbor_case")
	c.maxCases = 250
	emit := func(data []byte, tag string) {
		valid := key.ValidCBOR(data) == nil
		var v any
		var err error
		p, pm := catch(func() { err = key.UnmarshalCBOR(data, &v) })
		line := fmt.Sprintf("cbor|%s|%x", tag, data)
		if len(line) > 300 {
			line = line[:300] + "..."
		}
		if p {
			c.fail(failure{Op: "cbor", What: "UnmarshalCBOR panics", Input: line, Observed: "panic: " + pm, Expected: "value or error", Case: line})
			return
		}
		vt := "VNil"
		if err == nil {
			vt = qGval(v)
		}
		c.addCase(fmt.Sprintf("CbAny %s %s %s %s", qHex(data), qB(valid), qB(err == nil), vt), line+fmt.Sprintf(" => wellformed=%v decoded=%v", valid, err == nil))
		c.nontriv(fmt.Sprintf("%s|%v|%v", tag, valid, err == nil))
		c.count(fmt.Sprintf("%s wellformed=%v decoded=%v", tag, valid, err == nil))
		if err == nil {
			// re-encoding a decoded value yields deterministic CBOR; decoding that again gives an equal value
			var out []byte
			var merr error
			p, pm := catch(func() { out, merr = key.MarshalCBOR(v) })
			if p {
				c.fail(failure{Op: "cbor", What: "MarshalCBOR panics", Input: line, Observed: "panic: " + pm, Expected: "bytes or error", Case: line})
				return
			}
			if merr == nil {
				c.addCase(fmt.Sprintf("CbEnc %s %s", vt, qHex(out)), line+fmt.Sprintf(" | re-encoded %x", out))
			}
		}
	}
	n := c.n(700, 9000)
	for i := 0; i < n; i++ {
		it := genItem(c, 3, c.r.intn(3) == 0)
		data := it.enc(nil)
		emit(data, "valid")
		if i < 3 {
			c.sample(fmt.Sprintf("%x", data))
		}
		if len(data) == 0 {
			continue
		}
		// malformed stream derived from the valid encoding
		switch c.r.intn(9) {
		case 0: // trailing bytes
			emit(append(append([]byte{}, data...), byte(c.r.intn(256))), "trailing")
		case 1: // truncated
			emit(data[:c.r.intn(len(data))], "truncated")
		case 2: // indefinite length at some position
			d := append([]byte{}, data...)
			pos := c.r.intn(len(d))
			d[pos] = d[pos]&0xe0 | 31
			emit(d, "indefinite")
			emit(append(d, 0xff), "indefinite+break")
		case 3: // reserved additional information
			d := append([]byte{}, data...)
			pos := c.r.intn(len(d))
			d[pos] = d[pos]&0xe0 | byte(28+c.r.intn(3))
			emit(d, "reserved-ai")
		case 4: // duplicate keys, including after integer normalisation
			dup := &citem{kind: 5}
			k1 := &citem{kind: 0, n: uint64(c.r.intn(30))}
			k2 := &citem{kind: 0, n: k1.n, width: pick(c.r, []int{1, 2, 4, 8})}
			if c.r.bool() {
				k1 = &citem{kind: 3, b: []byte("k")}
				k2 = &citem{kind: 3, b: []byte("k"), width: 1}
			}
			dup.m = [][2]*citem{{k1, it}, {&citem{kind: 0, n: 99}, &citem{kind: 0, n: 1}}, {k2, &citem{kind: 0, n: 2}}}
			wrapped := dup
			for d := c.r.intn(3); d > 0; d-- {
				wrapped = &citem{kind: 4, l: []*citem{{kind: 0, n: 7}, wrapped}}
			}
			emit(wrapped.enc(nil), "dup-key")
		case 5: // invalid UTF-8
			bad := &citem{kind: 3, b: pick(c.r, [][]byte{{0xff}, {0xc0, 0x80}, {0xe0, 0x80, 0x80}, {0xed, 0xa0, 0x80}, {0xf4, 0x90, 0x80, 0x80}, {0xc3}, {0x61, 0x80}})}
			emit((&citem{kind: 4, l: []*citem{it, bad}}).enc(nil), "bad-utf8")
			emit((&citem{kind: 5, m: [][2]*citem{{bad, it}}}).enc(nil), "bad-utf8-key")
		case 6: // nesting depth around the limit
			depth := pick(c.r, []int{30, 31, 32, 33, 34})
			x := &citem{kind: 0, n: 1}
			for d := 0; d < depth; d++ {
				if c.r.intn(4) == 0 {
					x = &citem{kind: 5, m: [][2]*citem{{{kind: 0, n: 1}, x}}}
				} else {
					x = &citem{kind: 4, l: []*citem{x}}
				}
			}
			emit(x.enc(nil), fmt.Sprintf("depth-%d", depth))
			// tag chains
			y := &citem{kind: 0, n: 1}
			for d := 0; d < depth; d++ {
				y = &citem{kind: 6, n: uint64(100 + d), v: y}
			}
			emit(y.enc(nil), fmt.Sprintf("tagchain-%d", depth))
		case 7: // counts larger than the content / the decoder's limits
			emit([]byte{0x9a, 0x00, 0x02, 0x00, 0x01}, "array-count-131073")
			emit([]byte{0xba, 0x00, 0x02, 0x00, 0x01}, "map-count-131073")
			emit([]byte{0x5b, 0x80, 0, 0, 0, 0, 0, 0, 0}, "bstr-len-2^63")
			emit([]byte{0x9b, 0xff, 0xff, 0xff, 0xff, 0xff, 0xff, 0xff, 0xff}, "array-count-2^64-1")
			emit([]byte{0xf8, byte(c.r.intn(32))}, "simple-2byte-below-32")
		default: // random bytes
			emit(c.r.bytes(1+c.r.intn(12)), "random")
		}
	}
	// unusual map keys and builtin tag content rules
	for _, h := range []string{"a1f600", "a1f500", "a14100" + "00", "a1800000", "a1a000" + "00", "a2f600f700", "a2fb000000000000000000fb800000000000000001",
		"a2c2410100c2410101", "a2c2410100c2410100", "c240", "c241ff", "c301", "c2" + "00", "f97c01", "f9fc01", "fa7f800001", "fb7ff0000000000001", "d9d9f7d9d9f701", "c5d9d9f701",
		"a2d9d9f70100d9d9f70101", "a2d9d9f70100" + "0101", "a2190100" + "00" + "1a00000100" + "01", "a23bffffffffffffffff003bffffffffffffffff01"} {
		emit(key.HexBytesify(h), "special")
	}
}
