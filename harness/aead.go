package main

import (
	"bytes"
	"crypto/aes"
	"fmt"
)

func init() { streams["aead"] = streamAead }

func streamAead(c *ctx) {
	c.beginCases("From Cose Require Import Model.Aead Model.CryptoCorr.", "aead_case", "check_aead_case")
	c.maxCases = 40
	algs := []int{1, 2, 3, 24, 10, 11, 12, 13, 30, 31, 32, 33}
	tagOf := rfcAeadTag
	ptLens := []int{0, 1, 15, 16, 17, 31, 32, 33, 63, 64, 65, 100}
	aadLens := []int{0, 1, 13, 14, 15, 16, 17, 29, 30, 31, 100}
	idx := 0
	one := func(alg, pl, al int, heavy bool) {
		idx++
		if heavy {
			c.beginCases(c.cur.imports, c.cur.ctype, c.cur.check) // own file: evaluated in parallel
		}
		k := c.r.bytes(symKeySize[alg])
		e, err := realEncryptor(alg, k)
		if err != nil {
			c.fail(failure{Op: "aead", What: "factory refuses a key of the prescribed size", Input: fmt.Sprint(alg), Observed: err.Error(), Expected: "encryptor"})
			return
		}
		iv := c.r.bytes(e.NonceSize())
		s1, s2 := c.r.next()%100000, c.r.next()%100000
		pt, aad := genBytes(s1, pl), genBytes(s2, al)
		ptT, aadT := qGen(s1, pl), qGen(s2, al)
		if pl <= 64 {
			ptT = qHex(pt)
		}
		if al <= 64 {
			aadT = qHex(aad)
		}
		var ct []byte
		var eerr error
		iv0, pt0, aad0 := append([]byte{}, iv...), append([]byte{}, pt...), append([]byte{}, aad...)
		p, pm := catch(func() { ct, eerr = e.Encrypt(iv, pt, aad) })
		line := fmt.Sprintf("aead|alg=%d|pt=%d|aad=%d|seeds=%d,%d", alg, pl, al, s1, s2)
		if !bytes.Equal(iv, iv0) || !bytes.Equal(pt, pt0) || !bytes.Equal(aad, aad0) {
			c.fail(failure{Op: "aead", What: "Encrypt changed the caller's nonce, plaintext or additional data", Input: line, Observed: "changed", Expected: "inputs untouched", Case: line})
		}
		if p {
			c.fail(failure{Op: "aead", What: "Encrypt panics", Input: line, Observed: "panic: " + pm, Expected: "ciphertext or error", Case: line, Theorem: "C12_ccm_limit"})
			return
		}
		ctT := qHex(ct)
		c.addCase(fmt.Sprintf("AEnc %d %s %s %s %s %s %s", alg, qHex(k), qHex(iv), ptT, aadT, qB(eerr == nil), ctT), line+fmt.Sprintf(" => ok=%v", eerr == nil))
		c.nontriv(fmt.Sprintf("enc|%d|%d|%d|%v", alg, pl%16, classLen(al), eerr == nil))
		if idx < 4 {
			c.sample(line)
		}
		if eerr != nil {
			return
		}
		if len(ct) != pl+tagOf[alg] {
			c.fail(failure{Op: "aead", What: "ciphertext length is not plaintext length plus tag length", Input: line, Observed: fmt.Sprint(len(ct)), Expected: fmt.Sprint(pl + tagOf[alg]), Case: line, Theorem: "C12_ccm_len"})
		}
		ct0 := append([]byte{}, ct...)
		back, derr := e.Decrypt(iv, ct, aad)
		if derr != nil || !bytes.Equal(back, pt) {
			c.fail(failure{Op: "aead", What: "decrypting the ciphertext does not return the plaintext", Input: line, Observed: fmt.Sprint(derr), Expected: "plaintext", Case: line, Theorem: "C12_open_seal"})
		}
		// decryption is a function of its arguments: the ciphertext (and nonce, additional data) handed in are left
		// as they were, so the same call made again gives the same answer
		again := func(when string) {
			if !bytes.Equal(ct, ct0) || !bytes.Equal(iv, iv0) || !bytes.Equal(aad, aad0) {
				c.fail(failure{Op: "aead", What: "Decrypt changed the caller's ciphertext, nonce or additional data (" + when + ")", Input: line + fmt.Sprintf("|key=%x|nonce=%x|ciphertext=%x", k, iv0, ct0), Observed: hx(ct), Expected: hx(ct0), Case: line, Theorem: "C12_open_seal"})
				copy(ct, ct0)
			}
			b2, e2 := e.Decrypt(iv, ct, aad)
			c.eval()
			if e2 != nil || !bytes.Equal(b2, pt0) {
				c.fail(failure{Op: "aead", What: "a second decryption of the same ciphertext (" + when + ") does not return the plaintext", Input: line + fmt.Sprintf("|key=%x|nonce=%x|ciphertext=%x", k, iv0, ct0), Observed: fmt.Sprintf("err=%v plaintext=%x", e2, b2), Expected: hx(pt0), Case: line, Theorem: "C12_open_seal"})
			}
			copy(ct, ct0)
		}
		again("after a successful decryption")
		// a refused attempt on the very same buffers (wrong additional data, then wrong nonce) changes nothing either
		if _, e3 := e.Decrypt(iv, ct, append(append([]byte{}, aad...), 1)); e3 == nil {
			c.fail(failure{Op: "aead", What: "decryption succeeds after a change: aad extended", Input: line, Observed: "plaintext", Expected: "error", Case: line, Theorem: "C12_ccm_open_exact"})
		}
		again("after a refused decryption")
		if heavy {
			return
		}
		// mutations: ciphertext bit, tag bit, nonce, aad, key, truncation
		type mut struct {
			name          string
			k, iv, ct, ad []byte
		}
		flip := func(b []byte, bit int) []byte {
			o := append([]byte{}, b...)
			if len(o) > 0 {
				o[(bit/8)%len(o)] ^= 1 << (bit % 8)
			}
			return o
		}
		muts := []mut{{"ct-bit", k, iv, flip(ct, c.r.intn(len(ct)*8)), aad}, {"tag-bit", k, iv, flip(ct, len(ct)*8-1-c.r.intn(8)), aad},
			{"nonce-bit", k, flip(iv, c.r.intn(len(iv)*8)), ct, aad}, {"key-bit", flip(k, c.r.intn(len(k)*8)), iv, ct, aad},
			{"truncated", k, iv, ct[:len(ct)-1], aad}, {"extended", k, iv, append(append([]byte{}, ct...), 0), aad},
			{"short", k, iv, ct[:c.r.intn(tagOf[alg])], aad}}
		if al > 0 {
			muts = append(muts, mut{"aad-bit", k, iv, ct, flip(aad, c.r.intn(al*8))}, mut{"aad-dropped", k, iv, ct, nil})
		} else {
			muts = append(muts, mut{"aad-added", k, iv, ct, []byte{0}})
		}
		for _, m := range muts {
			e2, err := realEncryptor(alg, m.k)
			if err != nil {
				continue
			}
			var out []byte
			var derr error
			p, pm := catch(func() { out, derr = e2.Decrypt(m.iv, m.ct, m.ad) })
			if p {
				c.fail(failure{Op: "aead", What: "Decrypt panics on " + m.name, Input: line, Observed: "panic: " + pm, Expected: "error", Case: line})
				continue
			}
			if derr == nil {
				c.fail(failure{Op: "aead", What: "decryption succeeds after a change: " + m.name, Input: line, Observed: hx(out), Expected: "error", Case: line, Theorem: "C12_ccm_open_exact"})
			}
			if idx%5 == 0 && al <= 64 && pl <= 64 {
				c.addCase(fmt.Sprintf("ADec %d %s %s %s %s %s %s", alg, qHex(m.k), qHex(m.iv), qHex(m.ct), qHex(m.ad), qB(derr == nil), qHex(out)), line+"|"+m.name)
			} else {
				c.eval()
			}
		}
		if idx%5 == 1 && pl <= 64 {
			c.addCase(fmt.Sprintf("ADec %d %s %s %s %s true %s", alg, qHex(k), qHex(iv), ctT, aadT, ptT), line+"|decrypt")
		}
	}
	for _, alg := range algs {
		for i, pl := range ptLens {
			al := aadLens[(i+alg)%len(aadLens)]
			if !c.thorough() && (i+alg)%2 == 1 {
				continue
			}
			one(alg, pl, al, false)
		}
		one(alg, 0, 0, false)
		if c.thorough() {
			for _, al := range aadLens {
				one(alg, 33, al, false)
			}
		}
	}
	// nonce lengths and key sizes
	for _, alg := range algs {
		e, _ := realEncryptor(alg, make([]byte, symKeySize[alg]))
		for l := 0; l <= 40; l++ { // incl. 8 (original ChaCha), 16 (a block), 24 (XChaCha20), 32
			ct, err := e.Encrypt(make([]byte, l), []byte("p"), nil)
			c.addCase(fmt.Sprintf("AEnc %d %s %s %s %s %s %s", alg, qHex(make([]byte, symKeySize[alg])), qHex(make([]byte, l)), qHex([]byte("p")), qHex(nil), qB(err == nil), qHex(ct)), fmt.Sprintf("aead-nonce|alg=%d|len=%d => ok=%v", alg, l, err == nil))
			if (err == nil) != (l == e.NonceSize()) {
				c.fail(failure{Op: "aead", What: "nonce of another length", Input: fmt.Sprintf("alg=%d ivlen=%d", alg, l), Observed: fmt.Sprint(err), Expected: "error iff the length differs", Theorem: "C12_nonce_len_refused"})
			}
			pt, derr := e.Decrypt(make([]byte, l), make([]byte, 40), nil)
			c.addCase(fmt.Sprintf("ADec %d %s %s %s %s %s %s", alg, qHex(make([]byte, symKeySize[alg])), qHex(make([]byte, l)), qHex(make([]byte, 40)), qHex(nil), qB(derr == nil), qHex(pt)), fmt.Sprintf("aead-nonce-dec|alg=%d|len=%d => ok=%v", alg, l, derr == nil))
			if derr == nil {
				c.fail(failure{Op: "aead", What: "decryption of an all-zero ciphertext succeeded", Input: fmt.Sprintf("alg=%d ivlen=%d", alg, l), Observed: "plaintext", Expected: "error", Theorem: "C12_nonce_len_refused"})
			}
		}
		for l := 0; l <= 40; l++ {
			_, err := realEncryptor(alg, make([]byte, l))
			c.eval()
			if (err == nil) != (l == symKeySize[alg]) {
				c.fail(failure{Op: "aead", What: "key size check", Input: fmt.Sprintf("alg=%d keylen=%d", alg, l), Observed: fmt.Sprint(err), Expected: "error iff the size differs", Theorem: "C12_key_size_refused"})
			}
		}
	}
	// CCM boundaries: the three AAD length encodings and the L=2 plaintext limit (heavy cases, one file each)
	heavyAad := []int{65279, 65280}
	heavyPt := []int{65535}
	if c.thorough() {
		heavyAad = append(heavyAad, 65278, 65281, 70000)
	}
	for i, al := range heavyAad {
		one([]int{10, 31, 12, 33, 30}[i%5], 17, al, true)
	}
	for i, pl := range heavyPt {
		one([]int{10, 31}[i%2], pl, 5, true)
	}
	if c.thorough() {
		one(1, 70000, 70000, true)
		one(24, 70000, 70000, true)
		one(13, 70000, 3, true)
	}
	// beyond the limit: an error, never a panic
	for _, alg := range []int{10, 11, 30, 31} {
		for _, pl := range []int{65536, 70000} {
			e, _ := realEncryptor(alg, make([]byte, symKeySize[alg]))
			var err error
			p, pm := catch(func() { _, err = e.Encrypt(make([]byte, 13), make([]byte, pl), nil) })
			c.eval()
			if p || err == nil {
				c.fail(failure{Op: "aead", What: "plaintext beyond the CCM limit", Input: fmt.Sprintf("alg=%d pt=%d", alg, pl), Observed: fmt.Sprintf("panic=%v %s err=%v", p, pm, err), Expected: "error", Theorem: "C12_ccm_limit"})
			}
			c.nontriv(fmt.Sprintf("limit|%d|%d", alg, pl))
		}
	}
	// the limit belongs to the 13-octet-nonce algorithms only: with a 7-octet nonce (L = 8) longer plaintexts are sealed
	// and opened (the reference comparison at these lengths is in the thorough tier)
	for _, alg := range []int{12, 13, 32, 33} {
		for _, pl := range []int{0, 1, 17, 65535, 65536, 70000} {
			e, _ := realEncryptor(alg, make([]byte, symKeySize[alg]))
			pt := genBytes(uint64(pl), pl)
			var ct, back []byte
			var err, derr error
			p, pm := catch(func() {
				ct, err = e.Encrypt(make([]byte, 7), pt, []byte("aad"))
				if err == nil {
					back, derr = e.Decrypt(make([]byte, 7), ct, []byte("aad"))
				}
			})
			c.eval()
			c.nontriv(fmt.Sprintf("no-limit|%d|%d", alg, pl))
			// an independent RFC 3610 computation (harness/aead.go refCCM: the generic construction over crypto/aes, which
			// agrees with the proved Coq reference on the short cases above)
			if want := refCCM(make([]byte, symKeySize[alg]), make([]byte, 7), pt, []byte("aad"), rfcAeadTag[alg]); err == nil && !bytes.Equal(ct, want) {
				diff := 0
				for diff < len(ct) && diff < len(want) && ct[diff] == want[diff] {
					diff++
				}
				c.fail(failure{Op: "aead", What: "ciphertext differs from RFC 3610 (7-octet nonce, L = 8)", Input: fmt.Sprintf("alg=%d key=00.. nonce=00.. aad=616164 plaintext=genBytes(%d, %d)", alg, pl, pl), Observed: fmt.Sprintf("first difference at octet %d of %d", diff, len(ct)), Expected: "the RFC 3610 ciphertext", Theorem: "C12_ccm_is_rfc3610"})
			}
			if p || err != nil || derr != nil || !bytes.Equal(back, pt) || len(ct) != pl+rfcAeadTag[alg] {
				c.fail(failure{Op: "aead", What: "a plaintext beyond 65535 octets under a 7-octet-nonce CCM algorithm is not sealed and opened", Input: fmt.Sprintf("alg=%d pt=%d", alg, pl), Observed: fmt.Sprintf("panic=%v %s err=%v/%v ct=%d", p, pm, err, derr, len(ct)), Expected: "ciphertext of plaintext + tag length, opened to the plaintext", Theorem: "C12_ccm_limit"})
			}
		}
	}
}

func classLen(n int) int {
	switch {
	case n == 0:
		return 0
	case n < 65280:
		return 1 + n%16
	default:
		return 100
	}
}

// refCCM: RFC 3610 CCM over AES, written from the RFC (B_0, the encoded length of a, CBC-MAC, CTR with A_i), for any
// nonce length 7..13 and tag length M.
func refCCM(k, nonce, pt, aad []byte, M int) []byte {
	blk, err := aes.NewCipher(k)
	if err != nil {
		return nil
	}
	L := 15 - len(nonce)
	b0 := make([]byte, 16)
	b0[0] = byte((M-2)/2)<<3 | byte(L-1)
	if len(aad) > 0 {
		b0[0] |= 0x40
	}
	copy(b0[1:], nonce)
	ln := uint64(len(pt))
	for i := 0; i < L; i++ {
		b0[15-i] = byte(ln >> (8 * uint(i)))
	}
	var mac [16]byte
	blk.Encrypt(mac[:], b0)
	feed := func(data []byte) {
		for len(data) > 0 {
			var b [16]byte
			n := copy(b[:], data)
			data = data[n:]
			for i := range b {
				mac[i] ^= b[i]
			}
			blk.Encrypt(mac[:], mac[:])
		}
	}
	if len(aad) > 0 {
		var hdr []byte
		switch {
		case len(aad) < 0xff00:
			hdr = []byte{byte(len(aad) >> 8), byte(len(aad))}
		case uint64(len(aad)) <= 0xffffffff:
			hdr = []byte{0xff, 0xfe, byte(len(aad) >> 24), byte(len(aad) >> 16), byte(len(aad) >> 8), byte(len(aad))}
		}
		feed(append(hdr, aad...))
	}
	feed(pt)
	ctr := func(i uint64) []byte {
		a := make([]byte, 16)
		a[0] = byte(L - 1)
		copy(a[1:], nonce)
		for j := 0; j < L; j++ {
			a[15-j] = byte(i >> (8 * uint(j)))
		}
		s := make([]byte, 16)
		blk.Encrypt(s, a)
		return s
	}
	out := make([]byte, 0, len(pt)+M)
	for i := 0; i*16 < len(pt); i++ {
		s := ctr(uint64(i + 1))
		for j := 0; j < 16 && i*16+j < len(pt); j++ {
			out = append(out, pt[i*16+j]^s[j])
		}
	}
	s0 := ctr(0)
	for j := 0; j < M; j++ {
		out = append(out, mac[j]^s0[j])
	}
	return out
}
