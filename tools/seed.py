#!/usr/bin/env python3
"""Seeded-defect bookkeeping.

  seed.py verify <src-dir> <id> [--dest REL] [--cmd 'go test ...']   confirm a candidate in a scratch worktree and keep it as seeded/<id>/
  seed.py run <id> [Cxx ...]                                         apply seeded/<id>/patch.diff to /repo, run the checks, undo
  seed.py runall [--only-missing]                                    run every kept seed against the property it breaks
  seed.py runiso <slot> <id> [Cxx ...]                               the same on a private copy: /root/seedrun/<slot>/verif (rsync of /verif) checks a scratch
                                                                     worktree /root/seedrun/<slot>/repo with the patch applied (VERIF_REPO), so /repo and /verif stay untouched
"""
import json, os, re, shutil, subprocess, sys, time

V = os.path.dirname(os.path.dirname(os.path.abspath(__file__)))
BASE = os.environ.get('SEED_BASE', 'seeded')   # 'benign' for behaviour-preserving refactorings (every alarm there is a false alarm)
REPO = '/repo'
ENV = dict(os.environ, GOFLAGS='-mod=mod', GOPROXY='off', GOSUMDB='off', GOTOOLCHAIN='local')


def sh(cmd, cwd=None, timeout=1800):
    p = subprocess.run(cmd, shell=isinstance(cmd, str), cwd=cwd, env=ENV, stdout=subprocess.PIPE, stderr=subprocess.STDOUT, text=True, timeout=timeout)
    return p.returncode, p.stdout


def verify(src, sid, dest=None, cmd=None):
    meta = json.load(open(os.path.join(src, 'meta.json')))
    demo_text = meta.get('demo', '')
    demos = [f for f in os.listdir(src) if f not in ('meta.json', 'patch.diff') and not f.startswith('.')]
    wt = '/tmp/seedv/' + sid
    shutil.rmtree(wt, ignore_errors=True)
    os.makedirs('/tmp/seedv', exist_ok=True)
    sh(['git', '-C', REPO, 'worktree', 'prune'])
    rc, o = sh(['git', '-C', REPO, 'worktree', 'add', '-q', '--detach', wt, 'HEAD'])
    if rc != 0:
        print(o)
        return 1
    try:
        # where the demo goes and how it runs
        if dest is None:
            m = re.search(r'cp\s+\S+\s+/tmp/mut/C\d+/(\S+)', demo_text)
            if m:
                dest = m.group(1)
        if cmd is None:
            m = re.search(r'(go (?:test|run)[^()\n]*?)(?:\s{2,}|\s*\(|$)', demo_text)
            if m:
                cmd = m.group(1).strip()
        if dest is None or cmd is None:
            print('cannot infer demo placement/command; pass --dest and --cmd. demo text:', demo_text)
            return 2
        placed = []
        if dest.endswith('/') or os.path.isdir(os.path.join(wt, dest)):
            for d in demos:
                p = os.path.join(wt, dest, d)
                os.makedirs(os.path.dirname(p), exist_ok=True)
                if os.path.isdir(os.path.join(src, d)):
                    shutil.copytree(os.path.join(src, d), p)
                else:
                    shutil.copy(os.path.join(src, d), p)
                placed.append(p)
        else:
            p = os.path.join(wt, dest)
            os.makedirs(os.path.dirname(p), exist_ok=True)
            shutil.copy(os.path.join(src, demos[0]), p)
            placed.append(p)
        rc1, o1 = sh(cmd, cwd=wt)
        if rc1 != 0:
            print('REJECT: demo does not pass on the clean tree\n', o1[-2000:])
            return 1
        for p in placed:
            if os.path.isdir(p):
                shutil.rmtree(p)
            else:
                os.remove(p)
        rc, o = sh(['git', 'apply', os.path.join(src, 'patch.diff')], cwd=wt)
        if rc != 0:
            rc, o = sh(['git', 'apply', '--3way', os.path.join(src, 'patch.diff')], cwd=wt)
            if rc != 0:
                print('REJECT: patch does not apply to HEAD\n', o[-1500:])
                return 1
        sh(['git', 'add', '-A', '-N'], cwd=wt)   # new files belong to the patch too
        rc, o = sh(['git', 'diff'], cwd=wt)
        patch = o
        rcb, ob = sh('go build ./... && go test -vet=off -count=1 ./...', cwd=wt)
        if rcb != 0:
            print('REJECT: suite fails with the change\n', ob[-2000:])
            return 1
        for d, p in zip(demos if len(placed) == len(demos) else demos[:1], placed):
            if os.path.isdir(os.path.join(src, d)):
                shutil.copytree(os.path.join(src, d), p)
            else:
                shutil.copy(os.path.join(src, d), p)
        rc2, o2 = sh(cmd, cwd=wt)
        if rc2 == 0:
            print('REJECT: demo passes with the change applied')
            return 1
        out = os.path.join(V, 'seeded', sid)
        shutil.rmtree(out, ignore_errors=True)
        os.makedirs(out)
        open(os.path.join(out, 'patch.diff'), 'w').write(patch)
        for d in demos:
            if os.path.isdir(os.path.join(src, d)):
                shutil.copytree(os.path.join(src, d), os.path.join(out, d))
            else:
                shutil.copy(os.path.join(src, d), os.path.join(out, d))
        rcc, head = sh(['git', '-C', REPO, 'rev-parse', '--short', 'HEAD'])
        meta2 = {'id': sid, 'property': meta.get('property'), 'summary': meta.get('summary'), 'needs': meta.get('needs'),
                 'files': meta.get('files'), 'origin': 'independent sub-agent given only the property text and a scratch worktree',
                 'demo': {'place_at': dest, 'cmd': cmd},
                 'what_i_ran': ['scratch worktree of /repo@' + head.strip(), 'demo on clean tree: pass', 'git apply patch.diff',
                                'go build ./... && go test -vet=off -count=1 ./...: pass', 'demo with the change: FAIL (as required)'],
                 'demo_failure_excerpt': o2[-600:]}
        json.dump(meta2, open(os.path.join(out, 'meta.json'), 'w'), indent=1)
        print('KEPT', sid)
        return 0
    finally:
        sh(['git', '-C', REPO, 'worktree', 'remove', '--force', wt])
        shutil.rmtree(wt, ignore_errors=True)


def run(sid, props):
    d = os.path.join(V, 'seeded', sid)
    meta = json.load(open(os.path.join(d, 'meta.json')))
    if not props:
        props = [meta['property']]
    rc, o = sh(['git', '-C', REPO, 'status', '--porcelain'])
    if o.strip():
        print('refusing: /repo has local changes')
        return 2
    results = {}
    rc, o = sh(['git', '-C', REPO, 'apply', os.path.join(d, 'patch.diff')])
    if rc != 0:
        print('patch does not apply:', o)
        return 2
    saved = {}
    for p in props:
        ev = os.path.join(V, 'evidence', p + '.json')
        if os.path.exists(ev):
            saved[ev] = open(ev).read()
    try:
        for p in props:
            t0 = time.time()
            rc, o = sh([os.path.join(V, 'check'), p, '--tier', 'quick'], cwd=V, timeout=3600)
            viol = [l for l in o.split('\n') if l.startswith('VIOLATION')]
            replay = None
            detail = None
            m = re.search(r'replay=(\S+)', viol[0]) if viol else None
            if m and os.path.exists(m.group(1)):
                replay = json.load(open(m.group(1)))
                detail = replay.get('failure') or replay.get('broken')
            results[p] = {'exit': rc, 'violation_lines': viol, 'wall_s': round(time.time() - t0, 1),
                          'caught': rc == 1 and bool(viol), 'concrete_input': bool(viol) and 'no-failing-input-found' not in viol[0],
                          'first_replay': detail}
            print(sid, p, 'caught' if results[p]['caught'] else 'MISSED', viol[:1])
    finally:
        sh(['git', '-C', REPO, 'checkout', '--', '.'])
        sh(['git', '-C', REPO, 'clean', '-fdq'])
        # evidence files must describe clean-tree runs only: put back what was there before the mutant run
        for ev, content in saved.items():
            open(ev, 'w').write(content)
    rp = os.path.join(d, 'result.json')
    old = json.load(open(rp)) if os.path.exists(rp) else {}
    old.update(results)
    json.dump(old, open(rp, 'w'), indent=1)
    return 0


def runiso(slot, sid, props):
    d = os.path.join(V, BASE, sid)
    meta = json.load(open(os.path.join(d, 'meta.json')))
    if not props:
        props = meta.get('properties') or [meta['property']]
    base = '/root/seedrun/' + slot
    v2, r2 = base + '/verif', base + '/repo'
    os.makedirs(base, exist_ok=True)
    sh(['rsync', '-a', '--delete', '--exclude', '.git', '--exclude', 'build/runs', '--exclude', 'build/replay', V + '/', v2 + '/'])
    sh(['git', '-C', REPO, 'worktree', 'remove', '--force', r2])
    shutil.rmtree(r2, ignore_errors=True)
    sh(['git', '-C', REPO, 'worktree', 'prune'])
    rc, o = sh(['git', '-C', REPO, 'worktree', 'add', '-q', '--detach', r2, 'HEAD'])
    if rc != 0:
        print(o)
        return 2
    results = {}
    try:
        rc, o = sh(['git', 'apply', os.path.join(d, 'patch.diff')], cwd=r2)
        if rc != 0:
            print('patch does not apply:', o)
            return 2
        env = dict(ENV, VERIF_REPO=r2)
        for p in props:
            t0 = time.time()
            pr = subprocess.run([os.path.join(v2, 'check'), p, '--tier', 'quick'], cwd=v2, env=env, stdout=subprocess.PIPE, stderr=subprocess.STDOUT, text=True, timeout=3600)
            rc, o = pr.returncode, pr.stdout
            viol = [l for l in o.split('\n') if l.startswith('VIOLATION')]
            detail = None
            m = re.search(r'replay=(\S+)', viol[0]) if viol else None
            if m:
                rp = m.group(1) if os.path.isabs(m.group(1)) else os.path.join(v2, m.group(1))
                if os.path.exists(rp):
                    replay = json.load(open(rp))
                    detail = replay.get('failure') or replay.get('broken')
            results[p] = {'exit': rc, 'violation_lines': viol, 'wall_s': round(time.time() - t0, 1),
                          'caught': rc == 1 and bool(viol), 'concrete_input': bool(viol) and 'no-failing-input-found' not in viol[0],
                          'first_replay': detail, 'how': 'private copy of /verif checking a scratch worktree with the patch applied (VERIF_REPO)'}
            print(sid, p, 'caught' if results[p]['caught'] else 'MISSED', viol[:1], flush=True)
            if not results[p]['caught']:
                open(os.path.join(base, sid + '-' + p + '.log'), 'w').write(o)
    finally:
        sh(['git', '-C', REPO, 'worktree', 'remove', '--force', r2])
        shutil.rmtree(r2, ignore_errors=True)
    rp = os.path.join(d, 'result.json')
    old = json.load(open(rp)) if os.path.exists(rp) else {}
    old.update(results)
    json.dump(old, open(rp, 'w'), indent=1)
    return 0


def main():
    a = sys.argv[1:]
    if not a:
        print(__doc__)
        return 2
    if a[0] == 'verify':
        dest = cmd = None
        rest = a[3:]
        while rest:
            if rest[0] == '--dest':
                dest = rest[1]
            elif rest[0] == '--cmd':
                cmd = rest[1]
            rest = rest[2:]
        return verify(a[1], a[2], dest, cmd)
    if a[0] == 'run':
        return run(a[1], a[2:])
    if a[0] == 'runiso':
        return runiso(a[1], a[2], a[3:])
    if a[0] == 'runall':
        only = '--only-missing' in a
        for sid in sorted(os.listdir(os.path.join(V, 'seeded'))):
            d = os.path.join(V, 'seeded', sid)
            if not os.path.exists(os.path.join(d, 'meta.json')):
                continue
            if only and os.path.exists(os.path.join(d, 'result.json')):
                continue
            run(sid, [])
        return 0
    print(__doc__)
    return 2


if __name__ == '__main__':
    sys.exit(main())
