#!/usr/bin/env python3
"""seedbatch.py <round-dir> <suffix-a> <suffix-b> [Cxx ...]: verify every delivered candidate of a round (tools/seed.py verify) and keep the valid ones as
seeded/<Cxx>-<suffix>."""
import json, os, subprocess, sys
V = os.path.dirname(os.path.dirname(os.path.abspath(__file__)))
rd, sa, sb = sys.argv[1], sys.argv[2], sys.argv[3]
only = sys.argv[4:]
for d in sorted(os.listdir(rd)):
    if not d.endswith('-out'):
        continue
    prop = d[:-4]
    if only and prop not in only:
        continue
    for x, suf in (('a', sa), ('b', sb)):
        src = os.path.join(rd, d, x)
        mp = os.path.join(src, 'meta.json')
        sid = '%s-%s' % (prop, suf)
        if not os.path.exists(mp) or os.path.exists(os.path.join(V, 'seeded', sid, 'meta.json')):
            continue
        m = json.load(open(mp))
        dest, cmd = m.get('demo_dest'), m.get('demo_cmd')
        if not dest or not cmd:
            print(sid, 'no demo_dest/demo_cmd'); continue
        # a demo that is a directory is placed as a directory
        r = subprocess.run([sys.executable, os.path.join(V, 'tools', 'seed.py'), 'verify', src, sid, '--dest', dest, '--cmd', cmd], stdout=subprocess.PIPE, stderr=subprocess.STDOUT, text=True)
        print(sid, r.stdout.strip().split('\n')[-1][:300], flush=True)
