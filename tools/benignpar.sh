#!/bin/bash
# benignpar.sh id1 id2 ...: run behaviour-preserving refactorings (benign/<id>/patch.diff) against the properties listed
# in their meta.json on three isolated slots; every VIOLATION line here is a false alarm of the machinery.
# SLOT_OFFSET=3 uses slots s4..s6.
cd "$(dirname "$0")/.."
ids=("$@")
off=${SLOT_OFFSET:-0}
for slot in 0 1 2; do
  ( i=$slot; while [ $i -lt ${#ids[@]} ]; do SEED_BASE=benign python3 tools/seed.py runiso s$((slot+1+off)) ${ids[$i]} 2>&1 | grep -E "caught|MISSED|apply"; i=$((i+3)); done ) &
done
wait
