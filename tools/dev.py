import sys, os
sys.path.insert(0, '/verif/lib')
import driver as D, props
stream = sys.argv[1]; targets = sys.argv[2].split(','); seed = int(sys.argv[3]) if len(sys.argv) > 3 else 1
run = D.Run('DEV', 'quick', seed)
sys.exit(props.dev(run, stream, targets))
