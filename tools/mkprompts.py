#!/usr/bin/env python3
"""Write one prompt per property for an independent sub-agent that seeds a breaking change.

  mkprompts.py <round-dir> [Cxx ...]     e.g. mkprompts.py /tmp/mut6

Each prompt holds only the property text (from properties.jsonl) and the location of a scratch worktree; nothing from
/verif. The worktrees are created here (git worktree add) and must be removed by the caller afterwards.
"""
import json, os, subprocess, sys

V = os.path.dirname(os.path.dirname(os.path.abspath(__file__)))

HINTS = {
    'C01': 'Consider COSE_Mac / COSE_Encrypt with recipients (also nested), header values of unusual kinds (arrays, nested maps, negative or large integers, text labels), payloads at CBOR length-class boundaries, nil versus empty payloads and external data, and producing several messages from one message object or one key object in a row.',
    'C02': 'Consider COSE_Sign with several signers and verifiers (order, duplicates, kid lookup), COSE_Mac with recipients, state kept between calls on one object, early returns in loops, comparisons that look at a prefix or at lengths only, and error values that get overwritten.',
    'C03': 'Consider what reaches the AEAD as additional data and as nonce in Decrypt versus Encrypt, the handling of a failed decryption (what is left in the object), COSE_Encrypt versus COSE_Encrypt0 differences, and caches or reuse of buffers between calls.',
    'C04': 'Consider the KDF context encoding (nil versus empty members, optional members), the Enc_structure / MAC_structure builders, which bytes (received versus re-encoded) are used on verification for each of the six kinds, and the empty-map-as-zero-length-string rule.',
    'C05': 'Consider the individual kinds (Sign1, Sign signers, Mac0, Mac, Encrypt0, Encrypt) and directions separately, integer representations of the identifier, keys without an alg parameter (curve-derived algorithm), and the defaults recorded when headers are left unset (protected alg, unprotected kid) including when the header maps are non-nil but empty.',
    'C06': 'Consider the conditions under which IV / Partial IV / Base IV combinations are refused, lengths at the boundaries, what is published in the unprotected header, reuse of a message object for several encryptions, and the source and length of random nonces.',
    'C07': 'Consider decoders and accessors given well-formed but unexpected CBOR (null or wrong-typed members, empty arrays, huge lengths, deep nesting), key objects with odd member types, zero-length inputs to primitives, and Must*/panic paths reachable from data.',
    'C08': 'Consider the encoder options and the decoder options, map key ordering rules, integer normalisation of labels, limits (nesting, array / map sizes), tags, and the individual UnmarshalCBOR / MarshalCBOR methods of the different types (maps, key sets, recipients, claims).',
    'C09': 'Consider Recipient, KDFContext, KeySet, ClaimsMap / Claims, ByteStr in its CBOR / JSON / text forms, nil-versus-empty distinctions, and message objects that are decoded, (partly) used, and encoded again.',
    'C10': 'Consider signature encoding and decoding at the length boundaries for each curve (leading zero bytes of r or s), the hash chosen per algorithm, key conversion between COSE and Go forms, and keys whose coordinates have leading zero bytes.',
    'C11': 'Consider tag truncation per algorithm, comparison of tags (length and content), key-size checks, the padding of the last block of AES-CBC-MAC, and state kept in a MACer between calls.',
    'C12': 'Consider the CCM implementation (formatting of B0, the length fields, the counter blocks, AAD length encodings at 0xff00 and 2^32, tag truncation M, L = 2 versus L = 8), nonce and key size checks for each algorithm, and buffers shared between calls.',
    'C13': 'Consider HKDF-AES (the PRF padding, the block counter, reads that are split over several calls, the 255-block limit) and HKDF-SHA (salt and info handling, hash choice, output length limits).',
    'C14': 'Consider point decompression, coordinate length handling (short or long coordinates), curve identification from crv, X25519 versus the NIST curves, and validation of the remote key (private members present, other curve, point not on the curve).',
    'C15': 'Consider ToPublicKey / Verifier.Key() / KeySet() for each key family, parameters copied from the private key (kid, alg, key_ops and their translation), consistency checks between d and x / y, and compressed versus uncompressed points.',
    'C16': 'Consider each key family (HMAC, AES-MAC, AES-GCM, AES-CCM, ChaCha20/Poly1305, ECDSA, Ed25519, ECDH) and each operation separately, the representation of key_ops (Ops, []int, []any of various integer types), verify-with-a-private-key rules, empty lists, and changes to key_ops after an implementation object was created.',
    'C17': 'Consider the registry (triple of kty, alg, crv; defaults when alg is absent), the four factories, serialisation of keys in CBOR / JSON / text (member types after a round trip), lookup by kid in KeySet / Signers / Verifiers, and registration order or duplicates.',
    'C18': 'Consider each of exp, nbf, iat separately with clock skew (also negative and extreme values), boundary equality, very large uint64 values, optional expected issuer / audience, the map form versus the struct form of claims (integer types, floats, missing members), and the clock-skew limit.',
    'C19': 'Consider lazily initialised or memoised state in implementation objects or keys, scratch buffers kept in structs, package-level caches or pools, and accessor methods that normalise their receiver.',
    'C20': 'Consider constants that are seldom exercised by the tests (curves, key-type parameters, header parameters, CWT claims, less common algorithms) and pairs of constants that could be swapped or collide within one registry.',
}

TEMPLATE = """You are helping evaluate a verification effort by playing the role of a developer who introduces a subtle regression into a Go library. The library is ldclabs/cose (COSE RFC 9052/9053 + CWT RFC 8392 over fxamacker/cbor). You have your own scratch git worktree of it at {wt} (work ONLY there and under {out}; never touch /repo or /verif, and do not read anything under /verif). There is no network. Before any go command run: export GOFLAGS=-mod=mod GOPROXY=off GOSUMDB=off GOTOOLCHAIN=local

Here is a semantic property the library is supposed to satisfy:

-----
Property {id}: {title}

Statement: {statement}

Quantified over: {quant}

Why the existing tests cannot settle it: {why}

Anchor files: {anchors}

-----

Your task: produce TWO different, independent changes (call them "a" and "b") to the library source, each of which BREAKS this property while (1) still compiling (`go build ./...`), (2) still passing the entire existing test suite unedited (`go test -vet=off -count=1 ./...` in the worktree), and (3) looking like a plausible refactoring, optimisation, "hardening" or feature tweak a real maintainer might commit. Each change must need something SPECIFIC to manifest - e.g. an unusual input (a particular length class, integer representation, header shape, key encoding, boundary value), a multi-step sequence of operations, object reuse, a particular algorithm/parameter combination, a particular interleaving, or two cooperating sites that each look fine alone - NOT something any ordinary use would expose at once. {hint} The two changes should use different mechanisms and preferably touch different files. Read the source carefully first to find realistic spots; avoid the most obvious mutation (e.g. flipping a comparison in the main happy path) and prefer deep, narrow ones.

For each change X in {{a, b}} deliver in {out}/X/ :
  - patch.diff : the library change only, produced with `git add -A -N . && git diff` after removing the demo file (relative to the worktree HEAD; it must apply with `git apply` at the repository root and must CONTAIN ANY NEW FILE the change adds; do not include the demo in it)
  - one demonstration file: either a Go test file (package-internal or external `_test` package) to be placed inside a package directory of the repo, or a small main program directory to be placed under the repo root - it must PASS (exit 0) on the unchanged library and FAIL (non-zero exit) with the change applied, and the failure must show the property being violated (not merely an implementation detail changing)
  - meta.json with keys: "property": "{id}", "summary": what the change is, "needs": exactly what is needed for it to manifest, "files": [changed files], "demo_dest": repo-relative path where the demo file must be placed (e.g. "cose/demo_{id}_a_test.go"), "demo_cmd": the exact command run from the repo root (e.g. "go test -vet=off -count=1 -run TestDemoXyz ./cose/")

Procedure to confirm each change yourself before delivering: with a clean worktree (`git -C {wt} status` clean apart from the demo) run the demo -> passes; apply the change; run `go build ./... && go test -vet=off -count=1 ./...` -> all pass (without the demo file present, or with it expected to be the only failure); run the demo -> fails. Then write patch.diff as described, and restore the worktree (`git checkout -- . && git clean -fdq`) before working on the second change. If after a serious effort you can only find one valid change, deliver one. Finish by replying with a short summary of the two changes (files, mechanism, what is needed to manifest) and confirmation of what you ran.
"""


ROUND_NOTE = (' Earlier rounds of this exercise already produced changes of the following kinds, so choose DIFFERENT mechanisms: decrypting or computing in place into caller buffers; '
              'scratch buffers or cached structures (per algorithm, per kid, per external-data buffer) kept between calls; integer conversions that wrap (uint64 to int64) in label or algorithm handling; '
              'hand-written CBOR head writers with boundary slips; normalising an empty protected bucket; memoising key_ops or copying the key inside factories; kid lookup by prefix; decoding into a non-empty destination; '
              'off-by-one length checks in AEAD / HKDF code; a wrong hash for one algorithm; masking high bits of signatures; iota or alias slips in constant tables; pooled randomness that rewinds; Partial IV XOR done in place on the key; NaN or bignum time claims; a 64-byte Ed25519 d; the sign bit of a compressed point; keeping the options pointer of the caller; filtering key_ops in place; swallowing the GetInt error in Key.Alg; XOR-accumulating kid comparison; lenient array arity; treating alg 0 as absent; trimming leading zeros of the Partial IV; time-prefixed nonces; truncating now to seconds; loop-variable capture in closures; chunked CBC-MAC with an aliased IV or stale padding; MaxNestedLevels; normalising nested map labels on decode; salt truncation in HKDF; hex / iota slips in constant tables; merging the Sig_structure builders; re-serialising the protected map on verification or before MarshalCBOR; keeping the received protected bucket when producing again; an ivChosen flag on the message object; rewriting xorIV; DER re-encoding of r||s; lenient signature lengths; reusing embedded public coordinates in ToPublicKey; comparing coordinates as minimal-length integers; Key.Ops() via reflection or returning nil for an empty list; comparing crv members as interface values; typed getters treating null as absent; Duration overflow in the expiry test; an unsynchronised field in the Validator; append into a coordinate slice; two-pass COSE_Sign verification by kid; CCM additional-data offsets; recover() around Seal; HKDF written by hand; IntDec decoder option; CoseMap.MarshalCBOR fast paths and duplicate detection; KDFContext nil versus empty SuppPrivInfo; swapped claim numbers; implicit constant repetition; a shared package-level empty map; a missing guard after restructuring nonce selection into a switch; CheckKey validating crv through CrvAlg; ECDH skipping CheckKey of the remote key; ToPublicKey keeping key_ops that already contain verify; type assertion instead of GetBytes for an embedded x; KeySet() de-duplicating by kid; Lookup falling back to the only entry; writing the decompressed y back into the peer key; lazily built AEAD field; constants under a build tag; a new constant colliding with an existing one; hand-written CTR counter carry; AAD length encoding boundaries; Partial IV cap; XChaCha for 24-byte IVs; leftover bookkeeping in HKDF reads; exp == 0 treated as unset; Duration division for the skew limit; KeySet.UnmarshalCBOR dropping keys; GetInt for dates; r, s range checks; stripping zeros in compressed points; kid-less COSE_Sign signatures; checkBuckets ordering; Mac0 verify-then-check; alg-less keys unrestricted; detached payload with len == 0; Bytesify versus Bytes; CanonicalEncOptions preset; err shadowing in Claims decode; crit validation with un-normalised labels; recipients attached to the wire struct only once; a matched flag not reset between COSE_Signature entries; HMAC keys longer than prescribed; stale Enc_structure kept between Decrypt calls; retrying Decrypt with another Base IV alignment; sign_protected treated as optional; PartyInfo nil versus empty members; verifier chosen among several sharing a kid; merged protected/unprotected view with unprotected winning; GetRandomBytes leaving tail bytes zero; lazily allocated Unprotected map in Encrypt; FillBytes panics on over-long coordinates; tag head parsing without length checks in RemoveCBORTag; payload encoded with the default (unsorted) encoder; an empty-map fast path in HeadersFromBytes; Recipient with nil Unprotected and nested recipients; ByteStr payloads; scalar padding that keeps the wrong end; KeyFromPrivate aliasing the buffer of the caller; HMAC verification of longer prefixes; KeyFrom truncating with copy; adata == nil versus len 0; a plaintext limit applied to L = 8; the compressed ECDH branch delegating to ecdsa.CheckKey; KeyToPrivate comparing a boolean y as bytes; normalising key_ops on decode with SetOps; key-wrap operations for ECDH keys; EqualFold kid comparison; a fail-early key_ops check with || in the factories; iat only checked when requested; GetString accepting byte strings; sync.Pool hashers returning aliased digests; NewVerifier writing a default kid into the key of the caller; multi-name const specs with a positional slip; operator precedence in a constant expression; validating RawMessage payloads on decode only; summing instead of maximising recipient depths; the last COSE_Signature deciding; de-duplicating COSE_Signature entries by kid and signature; remembering the last opened nonce on the message object; external data nested under a protected-bucket test; keeping the payload as a raw item; a map-head mask in HeadersFromBytes; the body alg of a COSE_Sign overriding the signer alg; GetInt instead of Key.Alg for the default alg; a buffered shared random reader; a normalised copy of the unprotected bucket; MarshalCompressed on unchecked points; multi-valued aud with an empty array; ToInt-based label checks; ValidCBOR instead of a generic decode; dropping null members on encode; a minimum ciphertext length; bit bounds instead of octet bounds for P-521; rejecting empty messages in Verify; double-MAC comparison; per-parameter checks inside the loop over the key map; an extra zero block at block multiples; refusing all-zero nonces; int arithmetic for the byte block counter; a copy-pasted output limit; right-aligning y by the length of x; decoding the remote point on the local curve; regrouped embedded-point checks; expanding compressed public keys with Bytes(); binary search over unsorted key_ops; sign-requires-d hardening; kid-less entries matching every kid; abs() of a negative skew; GetTime mapping unrepresentable dates to zero; move-to-front lookups; a failed-verification counter; negative-integer notation slips; constants written relative to a neighbour. '
              'Prefer logic errors in less-travelled code paths: error handling that swallows or reorders errors, conditions that are subtly too weak or too strong for one message kind only, default values, interplay between two '
              'functions that each look fine, differences between the generic (map) and typed (struct) paths, and behaviour that depends on the ORDER of operations or of map / slice elements. '
              'Especially welcome: changes that only show over a SEQUENCE of calls on one object, over TWO objects or TWO keys that share something, on the multi-layer kinds (COSE_Sign signers, COSE_Mac / COSE_Encrypt recipients, nested recipients, KDF contexts), in the JSON / text forms, or through exported helper functions that the message layer itself does not use.')


def main():
    rd = sys.argv[1]
    only = [a for a in sys.argv[2:] if not a.startswith('--')]
    note = ROUND_NOTE if '--avoid-known' in sys.argv else ''
    os.makedirs(rd, exist_ok=True)
    subprocess.run(['git', '-C', '/repo', 'worktree', 'prune'])
    for l in open(os.path.join(V, 'properties.jsonl')):
        p = json.loads(l)
        if only and p['id'] not in only:
            continue
        wt = os.path.join(rd, p['id'])
        out = os.path.join(rd, p['id'] + '-out')
        if not os.path.exists(wt):
            subprocess.run(['git', '-C', '/repo', 'worktree', 'add', '-q', '--detach', wt, 'HEAD'], check=True)
        os.makedirs(out, exist_ok=True)
        txt = TEMPLATE.format(wt=wt, out=out, id=p['id'], title=p['title'], statement=p['statement'], quant=p['quantifier']['text'],
                              why=p['why_tests_cant'], anchors=', '.join(p['anchors']['files']), hint=HINTS.get(p['id'], '') + note)
        open(os.path.join(rd, p['id'] + '.prompt'), 'w').write(txt)
    print('prompts in', rd)


if __name__ == '__main__':
    main()
