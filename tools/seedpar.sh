#!/bin/bash
# seedpar.sh id1 id2 ...: run the kept seeds on three isolated slots in parallel (tools/seed.py runiso).
# SLOT_OFFSET=3 uses slots s4..s6 (so that two batches can run side by side).
cd "$(dirname "$0")/.."
ids=("$@")
off=${SLOT_OFFSET:-0}
for slot in 0 1 2; do
  ( i=$slot; while [ $i -lt ${#ids[@]} ]; do python3 tools/seed.py runiso s$((slot+1+off)) ${ids[$i]} 2>&1 | grep -E "caught|MISSED|apply"; i=$((i+3)); done ) &
done
wait
