#!/bin/bash
# seedpar.sh id1 id2 ...: run the kept seeds on three isolated slots in parallel (tools/seed.py runiso)
cd "$(dirname "$0")/.."
ids=("$@")
for slot in 0 1 2; do
  ( i=$slot; while [ $i -lt ${#ids[@]} ]; do python3 tools/seed.py runiso s$((slot+1)) ${ids[$i]} 2>&1 | grep -E "caught|MISSED|apply"; i=$((i+3)); done ) &
done
wait
