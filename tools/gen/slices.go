package main

// T12: header-logic slices of the message methods. The part of WithSign / Compute / Encrypt that prepares the header
// buckets, the algorithm gate of Verify / Decrypt, and the nonce selection of Encrypt / Decrypt are translated with the
// T11 machinery (funcs.go). What the slices touch outside themselves is mapped onto the operations of the hand model:
//
//	m.Protected, m.Unprotected                 variables of type hdr (option cosemap; None = nil map)
//	X == nil, Headers{}                        is_none X, Some []
//	X.Has(L), X.GetInt(L) (error dropped)      ohas X L, oget_int_ X L
//	v, err := X.GetBytes(L); if err != nil { return err }      do v <- oget_bytes X L
//	X[L] = v                                   do X <- oset X L (VInt KInt v | VBytes v)
//	P.Key().Alg(), P.Key().Kid(), P.NonceSize(), P.Key().GetBytes(L)     the parameters kalg, kkid, nsize, get_bytes kkey L
//	key.GetRandomBytes(..)                     the parameter draw (the entropy the call returns)
//	xorIV(a, b, n)                             the translated cose_xorIV (T11)
//	return errors.New(..) / fmt.Errorf(..) / err      Err
//
// A slice is the run of top-level statements between two anchors found by shape; if the anchors are not found or a
// statement falls outside the fragment, a stub is emitted and only the lemma of that slice fails.

import (
	"fmt"
	"go/ast"
	"go/printer"
	"go/token"
	"go/types"
	"os"
	"strings"
)

type hdrCtx struct {
	recv string // receiver name
	prim string // the key.Signer / Verifier / MACer / Encryptor parameter
	// cwt validator mode (T13): receiver v (*Validator), parameter claims (*Claims or ClaimsMap)
	cwt    bool
	claims string
	isMap  bool
	// key accessor mode (T14): receiver k of type key.Key
	keyMode bool
	errOk   map[types.Object]string // err variables of `v, err := k.GetX(L)`: the name of their "is nil" boolean
	nilable map[string]bool         // variables holding a key.Ops that may be the typed nil (option (list Z))
	opsRet  bool                    // the function returns a key.Ops: option (list Z)
	// lookup mode (T15): Verifiers / Signers / KeySet .Lookup; sign mode: SignMessage.Verify
	lookupMode bool
	elemIsKey  bool   // KeySet: the elements are keys themselves
	signMode   bool
	sigVar     string // the range variable over the signatures
	// WithSign mode (T16): the per-signer loop of SignMessage.WithSign; sigVar is the *Signature built in the body
	wsMode    bool
	signerVar string // the range variable over the signers
	mmVar     string // the local wire struct whose Signatures list is appended to
}

var claimsFields = map[string]string{"Expiration": "c_exp", "NotBefore": "c_nbf", "IssuedAt": "c_iat", "Issuer": "c_iss", "Audience": "c_aud"}
var optsFields = map[string]string{"AllowMissingExpiration": "o_allow_missing", "ClockSkew": "o_skew", "ExpectIssuedInThePast": "o_iat_past", "ExpectedIssuer": "o_iss", "ExpectedAudience": "o_aud"}

func isTimeType(t types.Type) bool {
	n, ok := t.(*types.Named)
	return ok && n.Obj().Pkg() != nil && n.Obj().Pkg().Path() == "time" && n.Obj().Name() == "Time"
}

// cwtExpr: expressions of Validate / ValidateMap mapped onto Model/Cwt.v
func (f *ftr) cwtExpr(e ast.Expr) (term, bool) {
	h := f.hdr
	switch x := e.(type) {
	case *ast.BasicLit:
		if x.Kind == token.STRING && x.Value == `""` {
			return term{"[]", true}, true
		}
	case *ast.SelectorExpr:
		if id, ok := x.X.(*ast.Ident); ok && id.Name == h.claims && !h.isMap {
			if fn, ok := claimsFields[x.Sel.Name]; ok {
				return term{"(" + fn + " c)", true}, true
			}
		}
		if in, ok := x.X.(*ast.SelectorExpr); ok && in.Sel.Name == "opts" {
			if id, ok := in.X.(*ast.Ident); ok && id.Name == h.recv {
				if fn, ok := optsFields[x.Sel.Name]; ok {
					return term{"(" + fn + " o)", true}, true
				}
			}
		}
	case *ast.CallExpr:
		if id, ok := x.Fun.(*ast.Ident); ok && id.Name == "toTime" && len(x.Args) == 1 {
			p, v := f.bind(f.expr(x.Args[0]))
			if p == "" {
				return term{"(to_time " + v + ")", true}, true
			}
		}
		if sel, ok := x.Fun.(*ast.SelectorExpr); ok {
			if isTimeType(f.typeOf(sel.X)) {
				pr, r := f.bind(f.expr(sel.X))
				switch {
				case sel.Sel.Name == "IsZero" && len(x.Args) == 0 && pr == "":
					return term{"(is_zero " + r + ")", true}, true
				case (sel.Sel.Name == "Add" || sel.Sel.Name == "After") && len(x.Args) == 1:
					pa, a := f.bind(f.expr(x.Args[0]))
					if pr == "" && pa == "" {
						return term{"(" + map[string]string{"Add": "add", "After": "after"}[sel.Sel.Name] + " " + r + " " + a + ")", true}, true
					}
				}
			}
			if id, ok := sel.X.(*ast.Ident); ok && id.Name == h.claims && h.isMap && sel.Sel.Name == "Has" && len(x.Args) == 1 {
				if l, ok := f.label(x.Args[0]); ok {
					return term{"(has m " + l + ")", true}, true
				}
			}
		}
	case *ast.BinaryExpr:
		// strings are byte strings in the model
		if b, ok := f.typeOf(x.X).Underlying().(*types.Basic); ok && b.Info()&types.IsString != 0 && (x.Op == token.EQL || x.Op == token.NEQ) {
			pl, l := f.bind(f.expr(x.X))
			pr, r := f.bind(f.expr(x.Y))
			if pl == "" && pr == "" {
				if x.Op == token.EQL {
					return term{"(bytes_eqb " + l + " " + r + ")", true}, true
				}
				return term{"(negb (bytes_eqb " + l + " " + r + "))", true}, true
			}
		}
	case *ast.Ident:
		if x.Name == "nil" {
			return term{"tt", true}, true // `return nil`: no error
		}
	}
	return term{}, false
}

type sliceSpec struct {
	kind    string // prepare | gate | nonce_enc | nonce_dec
	typ     string // Sign1Message ...
	method  string
	outputs []string
}

var sliceTargets = []sliceSpec{
	{"prepare", "Sign1Message", "WithSign", []string{"m_Protected", "m_Unprotected"}},
	{"prepare", "Mac0Message", "Compute", []string{"m_Protected", "m_Unprotected"}},
	{"prepare", "MacMessage", "Compute", []string{"m_Protected", "m_Unprotected"}},
	{"prepare", "Encrypt0Message", "Encrypt", []string{"m_Protected", "m_Unprotected"}},
	{"prepare", "EncryptMessage", "Encrypt", []string{"m_Protected", "m_Unprotected"}},
	{"gate", "Sign1Message", "Verify", nil},
	{"gate", "Mac0Message", "Verify", nil},
	{"gate", "MacMessage", "Verify", nil},
	{"gate", "Encrypt0Message", "Decrypt", nil},
	{"gate", "EncryptMessage", "Decrypt", nil},
	{"nonce_enc", "Encrypt0Message", "Encrypt", []string{"iv", "m_Unprotected"}},
	{"nonce_enc", "EncryptMessage", "Encrypt", []string{"iv", "m_Unprotected"}},
	{"nonce_dec", "Encrypt0Message", "Decrypt", []string{"iv"}},
	{"nonce_dec", "EncryptMessage", "Decrypt", []string{"iv"}},
}

func (f *ftr) hdrVar(e ast.Expr) (string, bool) {
	if f.hdr == nil {
		return "", false
	}
	if p, ok := e.(*ast.ParenExpr); ok {
		return f.hdrVar(p.X)
	}
	sel, ok := e.(*ast.SelectorExpr)
	if !ok {
		return "", false
	}
	id, ok := sel.X.(*ast.Ident)
	if !ok {
		return "", false
	}
	if f.hdr.wsMode {
		if f.hdr.sigVar != "" && id.Name == f.hdr.sigVar && (sel.Sel.Name == "Protected" || sel.Sel.Name == "Unprotected") {
			return "sig_" + sel.Sel.Name, true
		}
		return "", false
	}
	if id.Name != f.hdr.recv {
		return "", false
	}
	if sel.Sel.Name == "Protected" || sel.Sel.Name == "Unprotected" {
		if n, ok := f.typeOf(e).(*types.Named); ok && n.Obj().Name() == "Headers" {
			return "m_" + sel.Sel.Name, true
		}
	}
	return "", false
}

// primKeyCall matches P.Key().<name>(args)
func (f *ftr) primKeyCall(c *ast.CallExpr) (string, []ast.Expr, bool) {
	sel, ok := c.Fun.(*ast.SelectorExpr)
	if !ok {
		return "", nil, false
	}
	inner, ok := sel.X.(*ast.CallExpr)
	if !ok || len(inner.Args) != 0 {
		return "", nil, false
	}
	isel, ok := inner.Fun.(*ast.SelectorExpr)
	if !ok || isel.Sel.Name != "Key" {
		return "", nil, false
	}
	id, ok := isel.X.(*ast.Ident)
	if !ok || id.Name != f.hdr.prim {
		return "", nil, false
	}
	return sel.Sel.Name, c.Args, true
}

func (f *ftr) label(e ast.Expr) (string, bool) {
	v, ok := intConst(f.pi.p, e)
	if !ok {
		return "", false
	}
	return coqZ(v), true
}

func isErrCtor(f *ftr, e ast.Expr) bool {
	c, ok := e.(*ast.CallExpr)
	if !ok {
		if id, ok := e.(*ast.Ident); ok && id.Name == "err" {
			return true
		}
		return false
	}
	sel, ok := c.Fun.(*ast.SelectorExpr)
	if !ok {
		return false
	}
	if obj, ok := f.pi.p.TypesInfo.ObjectOf(sel.Sel).(*types.Func); ok && obj.Pkg() != nil {
		return (obj.Pkg().Path() == "errors" && obj.Name() == "New") || (obj.Pkg().Path() == "fmt" && obj.Name() == "Errorf")
	}
	return false
}

// hdrExpr: expressions of the slices that the generic translator does not know
func (f *ftr) hdrExpr(e ast.Expr) (term, bool) {
	if f.hdr == nil {
		return term{}, false
	}
	if f.hdr.cwt {
		return f.cwtExpr(e)
	}
	if f.hdr.keyMode {
		return f.keyExpr(e)
	}
	if f.hdr.lookupMode || f.hdr.signMode {
		return f.signExpr(e)
	}
	if f.hdr.wsMode {
		if t, ok := f.wsExpr(e); ok {
			return t, true
		}
	}
	if v, ok := f.hdrVar(e); ok {
		return term{v, true}, true
	}
	switch x := e.(type) {
	case *ast.BinaryExpr:
		if (x.Op == token.EQL || x.Op == token.NEQ) && isNilIdent(x.Y) {
			if v, ok := f.hdrVar(x.X); ok {
				if x.Op == token.EQL {
					return term{"(is_none " + v + ")", true}, true
				}
				return term{"(negb (is_none " + v + "))", true}, true
			}
		}
	case *ast.CompositeLit:
		if n, ok := f.typeOf(x).(*types.Named); ok && n.Obj().Name() == "Headers" && len(x.Elts) == 0 {
			return term{"(Some [])", true}, true
		}
	case *ast.CallExpr:
		if tv, ok := f.pi.p.TypesInfo.Types[x.Fun]; ok && tv.IsType() && len(x.Args) == 1 {
			if b, ok := tv.Type.Underlying().(*types.Basic); ok && b.Info()&types.IsInteger != 0 {
				return f.expr(x.Args[0]), true // int(..), uint16(..): values here are small and non-negative or compared as integers
			}
		}
		if name, args, ok := f.primKeyCall(x); ok {
			switch {
			case name == "Alg" && len(args) == 0:
				return term{"kalg", true}, true
			case name == "Kid" && len(args) == 0:
				return term{"kkid", true}, true
			}
		}
		if sel, ok := x.Fun.(*ast.SelectorExpr); ok {
			if id, ok := sel.X.(*ast.Ident); ok && id.Name == f.hdr.prim && sel.Sel.Name == "NonceSize" && len(x.Args) == 0 {
				return term{"nsize", true}, true
			}
			if v, ok := f.hdrVar(sel.X); ok && sel.Sel.Name == "Has" && len(x.Args) == 1 {
				if l, ok := f.label(x.Args[0]); ok {
					return term{"(ohas " + v + " " + l + ")", true}, true
				}
			}
			if obj, ok := f.pi.p.TypesInfo.ObjectOf(sel.Sel).(*types.Func); ok && obj.Pkg() != nil && strings.HasSuffix(obj.Pkg().Path(), "/key") && obj.Name() == "GetRandomBytes" {
				return term{"draw", true}, true
			}
		}
	}
	return term{}, false
}

func isNilIdent(e ast.Expr) bool {
	id, ok := e.(*ast.Ident)
	return ok && id.Name == "nil"
}

// isErrCheck matches `if err != nil { return err }`
func isErrCheck(s ast.Stmt) bool {
	i, ok := s.(*ast.IfStmt)
	if !ok || i.Init != nil || i.Else != nil || len(i.Body.List) != 1 {
		return false
	}
	b, ok := i.Cond.(*ast.BinaryExpr)
	if !ok || b.Op != token.NEQ || !isNilIdent(b.Y) {
		return false
	}
	if id, ok := b.X.(*ast.Ident); !ok || id.Name != "err" {
		return false
	}
	r, ok := i.Body.List[0].(*ast.ReturnStmt)
	if !ok || len(r.Results) != 1 {
		return false
	}
	if id, ok := r.Results[0].(*ast.Ident); ok && id.Name == "err" {
		return true
	}
	// return fmt.Errorf("...: %w", err) and the like: still an error
	if c, ok := r.Results[0].(*ast.CallExpr); ok {
		if sel, ok := c.Fun.(*ast.SelectorExpr); ok {
			if p, ok := sel.X.(*ast.Ident); ok && ((p.Name == "fmt" && sel.Sel.Name == "Errorf") || (p.Name == "errors" && sel.Sel.Name == "New")) {
				return true
			}
		}
	}
	return false
}

// hdrStmt: statements of the slices; returns the IR, how many following statements it consumed, and whether it applied
func (f *ftr) hdrStmt(s ast.Stmt, next ast.Stmt) ([]irStmt, int, bool) {
	if f.hdr == nil {
		return nil, 0, false
	}
	if f.hdr.keyMode {
		ir, ok := f.keyStmt(s)
		return ir, 0, ok
	}
	if f.hdr.lookupMode || f.hdr.signMode {
		return f.signStmt(s, next)
	}
	if f.hdr.wsMode {
		if ir, skip, ok := f.wsStmt(s, next); ok {
			return ir, skip, true
		}
	}
	switch x := s.(type) {
	case *ast.AssignStmt:
		if len(x.Lhs) == 2 && len(x.Rhs) == 1 {
			call, ok := x.Rhs[0].(*ast.CallExpr)
			v, vok := x.Lhs[0].(*ast.Ident)
			e, eok := x.Lhs[1].(*ast.Ident)
			if !ok || !vok || !eok {
				return nil, 0, false
			}
			sel, ok := call.Fun.(*ast.SelectorExpr)
			if !ok || len(call.Args) != 1 {
				return nil, 0, false
			}
			l, lok := f.label(call.Args[0])
			if !lok {
				return nil, 0, false
			}
			var rhs term
			if id, ok := sel.X.(*ast.Ident); ok && f.hdr.cwt && f.hdr.isMap && id.Name == f.hdr.claims && e.Name == "err" && (sel.Sel.Name == "GetUint64" || sel.Sel.Name == "GetString") {
				rhs = term{"(" + map[string]string{"GetUint64": "get_uint64", "GetString": "get_string"}[sel.Sel.Name] + " m " + l + ")", false}
			} else if hv, ok := f.hdrVar(sel.X); ok {
				switch {
				case sel.Sel.Name == "GetInt" && e.Name == "_":
					rhs = term{"(oget_int_ " + hv + " " + l + ")", true}
				case sel.Sel.Name == "GetBytes" && e.Name == "err":
					rhs = term{"(oget_bytes " + hv + " " + l + ")", false}
				default:
					return nil, 0, false
				}
			} else if name, _, ok := f.primKeyCall(call); ok && name == "GetBytes" && e.Name == "err" {
				rhs = term{"(get_bytes kkey " + l + ")", false}
			} else {
				return nil, 0, false
			}
			skip := 0
			if e.Name == "err" {
				if next == nil || !isErrCheck(next) {
					f.fail(x, "an error result that is not checked by `if err != nil { return err }` right away")
					return nil, 0, true
				}
				skip = 1
			}
			if x.Tok == token.DEFINE {
				f.declare(v, v.Name)
			}
			return []irStmt{irBind{f.nameOf(v), rhs}}, skip, true
		}
		if len(x.Lhs) == 1 && len(x.Rhs) == 1 && x.Tok == token.ASSIGN {
			if hv, ok := f.hdrVar(x.Lhs[0]); ok {
				return []irStmt{irBind{hv, f.expr(x.Rhs[0])}}, 0, true
			}
			if ix, ok := x.Lhs[0].(*ast.IndexExpr); ok {
				if hv, ok := f.hdrVar(ix.X); ok {
					l, lok := f.label(ix.Index)
					if !lok {
						f.fail(x, "header label is not a constant")
						return nil, 0, true
					}
					p, v := f.bind(f.expr(x.Rhs[0]))
					var gv string
					t := f.typeOf(x.Rhs[0])
					switch {
					case isInt(t) || isNamedInt(t):
						gv = "(VInt KInt " + v + ")"
					case isByteSlice(t):
						gv = "(VBytes " + v + ")"
					default:
						f.fail(x, "header value of type %s", t)
						return nil, 0, true
					}
					return []irStmt{irBind{hv, term{"(" + p + "oset " + hv + " " + l + " " + gv + ")", false}}}, 0, true
				}
			}
		}
	case *ast.ReturnStmt:
		if len(x.Results) == 1 && isErrCtor(f, x.Results[0]) {
			return []irStmt{irReturn{term{"Err", false}}}, 0, true
		}
	}
	return nil, 0, false
}

func isNamedInt(t types.Type) bool {
	b, ok := t.Underlying().(*types.Basic)
	return ok && b.Kind() == types.Int
}
func isByteSlice(t types.Type) bool {
	s, ok := t.Underlying().(*types.Slice)
	if !ok {
		return false
	}
	b, ok := s.Elem().Underlying().(*types.Basic)
	return ok && b.Kind() == types.Uint8
}

// ---- anchors

func srcOf(pi pkgInfo, n ast.Node) string {
	var b strings.Builder
	ast.Inspect(n, func(ast.Node) bool { return false })
	b.WriteString(types.ExprString(toExpr(n)))
	return b.String()
}
func toExpr(n ast.Node) ast.Expr {
	if e, ok := n.(ast.Expr); ok {
		return e
	}
	return &ast.Ident{Name: "?"}
}

func ifCondText(s ast.Stmt) string {
	if i, ok := s.(*ast.IfStmt); ok && i.Init == nil {
		return types.ExprString(i.Cond)
	}
	return ""
}

func assignText(s ast.Stmt) string {
	a, ok := s.(*ast.AssignStmt)
	if !ok || len(a.Rhs) != 1 {
		return ""
	}
	var ls []string
	for _, l := range a.Lhs {
		ls = append(ls, types.ExprString(l))
	}
	return strings.Join(ls, ", ") + " " + a.Tok.String() + " " + types.ExprString(a.Rhs[0])
}

// findSlice returns the statements of the slice inside the method body
func findSlice(kind, recv, prim string, body []ast.Stmt) ([]ast.Stmt, error) {
	idx := func(pred func(ast.Stmt) bool, from int) int {
		for i := from; i < len(body); i++ {
			if pred(body[i]) {
				return i
			}
		}
		return -1
	}
	switch kind {
	case "gate":
		i := idx(func(s ast.Stmt) bool { return strings.HasPrefix(ifCondText(s), recv+".Protected.Has(") }, 0)
		if i < 0 {
			return nil, fmt.Errorf("no `if %s.Protected.Has(..)` statement", recv)
		}
		// nothing else in the method may consult the algorithm of the key or of a header bucket
		for j, s := range body {
			if j == i {
				continue
			}
			bad := false
			ast.Inspect(s, func(n ast.Node) bool {
				if c, ok := n.(*ast.CallExpr); ok {
					if sel, ok := c.Fun.(*ast.SelectorExpr); ok && (sel.Sel.Name == "Alg" || ((sel.Sel.Name == "GetInt" || sel.Sel.Name == "Has") && len(c.Args) == 1 && strings.HasSuffix(types.ExprString(c.Args[0]), "HeaderParameterAlg"))) {
						bad = true
					}
				}
				return true
			})
			if bad {
				return nil, fmt.Errorf("the algorithm is consulted outside the gate statement")
			}
		}
		return body[i : i+1], nil
	case "prepare":
		i := idx(func(s ast.Stmt) bool { return ifCondText(s) == recv+".Protected == nil" }, 0)
		if i < 0 {
			return nil, fmt.Errorf("no `if %s.Protected == nil` statement", recv)
		}
		j := idx(func(s ast.Stmt) bool { return ifCondText(s) == recv+".Unprotected == nil" }, i+1)
		if j != i+1 {
			return nil, fmt.Errorf("`if %s.Unprotected == nil` does not follow the protected bucket directly", recv)
		}
		if i != 0 {
			return nil, fmt.Errorf("statements before the header preparation")
		}
		return body[i : j+1], nil
	case "nonce_enc", "nonce_dec":
		i := idx(func(s ast.Stmt) bool {
			return strings.HasPrefix(assignText(s), "iv, err := "+recv+".Unprotected.GetBytes(")
		}, 0)
		if i < 0 {
			return nil, fmt.Errorf("no `iv, err := %s.Unprotected.GetBytes(..)` statement", recv)
		}
		var j int
		if kind == "nonce_enc" {
			j = idx(func(s ast.Stmt) bool { return strings.HasPrefix(assignText(s), "mm := ") }, i)
		} else {
			j = idx(func(s ast.Stmt) bool { return strings.Contains(assignText(s), prim+".Decrypt(") }, i)
		}
		if j < 0 {
			return nil, fmt.Errorf("end of the nonce selection not found")
		}
		// the primitive must be handed the variable iv as its nonce
		found := false
		for _, s := range body[j:] {
			ast.Inspect(s, func(n ast.Node) bool {
				if c, ok := n.(*ast.CallExpr); ok {
					if sel, ok := c.Fun.(*ast.SelectorExpr); ok && (sel.Sel.Name == "Encrypt" || sel.Sel.Name == "Decrypt") && len(c.Args) == 3 {
						if id, ok := sel.X.(*ast.Ident); ok && id.Name == prim && types.ExprString(c.Args[0]) == "iv" {
							found = true
						}
					}
				}
				return true
			})
		}
		if !found {
			return nil, fmt.Errorf("the primitive is not called with iv as its nonce")
		}
		return body[i:j], nil
	}
	return nil, fmt.Errorf("unknown slice kind")
}

// primCalls: for each of the ten methods, the one assignment to m.toSign / toMac / toEnc and the one call of the
// primitive, with the receiver written m, the primitive p and the external-data parameter ext.
func primCalls(pi *pkgInfo) string {
	var rows []string
	for _, sp := range sliceTargets {
		if sp.kind != "prepare" && sp.kind != "gate" {
			continue
		}
		name := "cose." + sp.typ + "_" + sp.method
		var fd *ast.FuncDecl
		for _, file := range pi.p.Syntax {
			for _, d := range file.Decls {
				if x, ok := d.(*ast.FuncDecl); ok && x.Body != nil && funcName(x) == sp.typ+"_"+sp.method {
					fd = x
				}
			}
		}
		if fd == nil || fd.Recv == nil || len(fd.Recv.List) != 1 || len(fd.Recv.List[0].Names) != 1 || len(fd.Type.Params.List) != 2 ||
			len(fd.Type.Params.List[0].Names) != 1 || len(fd.Type.Params.List[1].Names) != 1 {
			rows = append(rows, fmt.Sprintf("(%s%%string, ([], []))", coqStr(name)))
			continue
		}
		recv, prim, ext := fd.Recv.List[0].Names[0].Name, fd.Type.Params.List[0].Names[0].Name, fd.Type.Params.List[1].Names[0].Name
		norm := func(e ast.Expr) string {
			// rename by identifier, not by text
			var walk func(n ast.Expr) string
			walk = func(n ast.Expr) string {
				switch x := n.(type) {
				case *ast.Ident:
					switch x.Name {
					case recv:
						return "m"
					case prim:
						return "p"
					case ext:
						return "ext"
					}
					return x.Name
				case *ast.SelectorExpr:
					return walk(x.X) + "." + x.Sel.Name
				case *ast.CallExpr:
					var as []string
					for _, a := range x.Args {
						as = append(as, walk(a))
					}
					return walk(x.Fun) + "(" + strings.Join(as, ", ") + ")"
				}
				return types.ExprString(n)
			}
			return walk(e)
		}
		var builds, calls []string
		ast.Inspect(fd.Body, func(n ast.Node) bool {
			switch x := n.(type) {
			case *ast.AssignStmt:
				for i, l := range x.Lhs {
					if sel, ok := l.(*ast.SelectorExpr); ok && i < len(x.Rhs) {
						if id, ok := sel.X.(*ast.Ident); ok && id.Name == recv && (sel.Sel.Name == "toSign" || sel.Sel.Name == "toMac" || sel.Sel.Name == "toEnc") {
							builds = append(builds, "m."+sel.Sel.Name+" = "+norm(x.Rhs[i]))
						}
					}
				}
			case *ast.CallExpr:
				if sel, ok := x.Fun.(*ast.SelectorExpr); ok {
					if id, ok := sel.X.(*ast.Ident); ok && id.Name == prim {
						switch sel.Sel.Name {
						case "Sign", "Verify", "MACCreate", "MACVerify", "Encrypt", "Decrypt":
							calls = append(calls, norm(x))
						}
					}
				}
			}
			return true
		})
		rows = append(rows, fmt.Sprintf("(%s%%string, (%s, %s))", coqStr(name), coqList(quoteAll(builds)), coqList(quoteAll(calls))))
	}
	return "(* the structure handed to the primitive: every assignment to m.toSign / m.toMac / m.toEnc and every call of the\n   primitive in the ten methods (receiver m, primitive p, external data ext) *)\nDefinition prim_calls : list (String.string * (list String.string * list String.string)) := " + coqListNL(rows, "    ") + ".\n"
}

func quoteAll(xs []string) []string {
	var out []string
	for _, x := range xs {
		out = append(out, coqStr(x)+"%string")
	}
	return out
}

func genSlices(ps []pkgInfo) string {
	var b strings.Builder
	b.WriteString("(* GENERATED by /verif/tools/gen (T12: header-logic slices of the message methods) from the ldclabs/cose working tree. Do not edit. *)\n")
	b.WriteString("From Coq Require Import List ZArith Bool String.\nFrom Coq Require Import Strings.Byte.\nFrom Cose Require Import Lib.Base Lib.GoSem Model.GoVal Model.HdrSem Gen.FuncsGen.\nImport ListNotations.\nOpen Scope Z_scope.\n\n")
	var pi *pkgInfo
	for i := range ps {
		if ps[i].short == "cose" {
			pi = &ps[i]
		}
	}
	if pi == nil {
		return b.String()
	}
	const params = "(m_Protected m_Unprotected : hdr) (kalg : Z) (kkid : bytes) (kkey : cosemap) (nsize : Z) (draw : bytes)"
	for _, sp := range sliceTargets {
		name := fmt.Sprintf("cose_%s_%s_%s", sp.typ, sp.method, sp.kind)
		srt := "unit"
		switch len(sp.outputs) {
		case 1:
			srt = "bytes"
		case 2:
			if sp.outputs[0] == "iv" {
				srt = "(bytes * hdr)"
			} else {
				srt = "(hdr * hdr)"
			}
		}
		stub := func(why string) {
			fmt.Fprintln(os.Stderr, "gen: T12:", name, "not translated:", why)
			fmt.Fprintf(&b, "(* %s — NOT TRANSLATED: %s *)\nDefinition %s %s : res %s := Panic.\n\n", name, strings.ReplaceAll(why, "*)", "* )"), name, params, srt)
		}
		var fd *ast.FuncDecl
		for _, file := range pi.p.Syntax {
			for _, d := range file.Decls {
				if x, ok := d.(*ast.FuncDecl); ok && x.Body != nil && funcName(x) == sp.typ+"_"+sp.method {
					fd = x
				}
			}
		}
		if fd == nil || fd.Recv == nil || len(fd.Recv.List) != 1 || len(fd.Recv.List[0].Names) != 1 || len(fd.Type.Params.List) < 1 || len(fd.Type.Params.List[0].Names) != 1 {
			stub("method not found or of another signature")
			continue
		}
		recv := fd.Recv.List[0].Names[0].Name
		prim := fd.Type.Params.List[0].Names[0].Name
		stmts, err := findSlice(sp.kind, recv, prim, fd.Body.List)
		if err != nil {
			stub(err.Error())
			continue
		}
		f := &ftr{pi: *pi, all: ps, fd: fd, declared: map[string]int{}, byteVars: map[string]string{}, names: map[types.Object]string{}, hdr: &hdrCtx{recv: recv, prim: prim}}
		// reserved identifiers of the slice interface
		for _, r := range []string{"m_Protected", "m_Unprotected", "kalg", "kkid", "kkey", "nsize", "draw"} {
			f.declared[r] = 1
		}
		scope := map[string]bool{"m_Protected": true, "m_Unprotected": true}
		if sp.kind == "nonce_enc" || sp.kind == "nonce_dec" {
			scope["iv"] = true
		}
		ir := f.lower(stmts)
		body := f.emit(ir, kont{kind: 3, state: sp.outputs}, scope)
		if f.err != nil {
			stub(f.err.Error())
			continue
		}
		rt := "unit"
		switch len(sp.outputs) {
		case 1:
			rt = "bytes"
		case 2:
			if sp.outputs[0] == "iv" {
				rt = "(bytes * hdr)"
			} else {
				rt = "(hdr * hdr)"
			}
		}
		pos := pi.p.Fset.Position(stmts[0].Pos())
		fmt.Fprintf(&b, "(* %s.%s, %s slice — %s:%d *)\nDefinition %s %s : res %s :=\n  %s.\n\n", sp.typ, sp.method, sp.kind, strings.TrimPrefix(pos.Filename, *repo+"/"), pos.Line, name, params, rt, body)
	}
	b.WriteString(primCalls(pi))
	b.WriteString("\n")
	// the tag stripping at the head of the six UnmarshalCBOR methods: the run of `if bytes.HasPrefix(data, ..) { data = data[n:] }`
	for _, typ := range []string{"Sign1Message", "SignMessage", "Mac0Message", "MacMessage", "Encrypt0Message", "EncryptMessage"} {
		name := "cose_" + typ + "_UnmarshalCBOR_strip"
		stub := func(why string) {
			fmt.Fprintln(os.Stderr, "gen: T12:", name, "not translated:", why)
			fmt.Fprintf(&b, "(* %s — NOT TRANSLATED: %s *)\nDefinition %s (data : bytes) : res bytes := Panic.\n\n", name, strings.ReplaceAll(why, "*)", "* )"), name)
		}
		var fd *ast.FuncDecl
		for _, file := range pi.p.Syntax {
			for _, d := range file.Decls {
				if x, ok := d.(*ast.FuncDecl); ok && x.Body != nil && funcName(x) == typ+"_UnmarshalCBOR" {
					fd = x
				}
			}
		}
		if fd == nil || len(fd.Type.Params.List) != 1 || len(fd.Type.Params.List[0].Names) != 1 {
			stub("method not found")
			continue
		}
		dn := fd.Type.Params.List[0].Names[0].Name
		var run []ast.Stmt
		started, ended := false, false
		for _, st := range fd.Body.List {
			is := strings.HasPrefix(ifCondText(st), "bytes.HasPrefix("+dn+", ")
			switch {
			case is && ended:
				run = nil // a second run further down: not the shape
				started = false
			case is:
				started = true
				run = append(run, st)
			case started:
				ended = true
			}
		}
		if len(run) == 0 {
			stub("no run of prefix tests on the input")
			continue
		}
		// the input must not be touched before the run, and decoded right after it from the same variable
		f := &ftr{pi: *pi, all: ps, fd: fd, declared: map[string]int{}, byteVars: map[string]string{}, names: map[types.Object]string{}}
		if obj := pi.p.TypesInfo.Defs[fd.Type.Params.List[0].Names[0]]; obj != nil {
			f.names[obj] = "data"
		}
		f.declared["data"] = 1
		ir := f.lower(run)
		body := f.emit(ir, kont{kind: 3, state: []string{"data"}}, map[string]bool{"data": true})
		if f.err != nil {
			stub(f.err.Error())
			continue
		}
		pos := pi.p.Fset.Position(run[0].Pos())
		fmt.Fprintf(&b, "(* %s.UnmarshalCBOR, tag stripping — %s:%d *)\nDefinition %s (data : bytes) : res bytes :=\n  %s.\n\n", typ, strings.TrimPrefix(pos.Filename, *repo+"/"), pos.Line, name, body)
	}
	return b.String()
}

// ---- T13: cwt.Validator.Validate / ValidateMap (everything after the choice of `now`)

func genCwtSlices(ps []pkgInfo) string {
	var b strings.Builder
	b.WriteString("(* GENERATED by /verif/tools/gen (T13: cwt.Validator.Validate / ValidateMap) from the ldclabs/cose working tree. Do not edit. *)\n")
	b.WriteString("From Coq Require Import List ZArith Bool.\nFrom Coq Require Import Strings.Byte.\nFrom Cose Require Import Lib.Base Lib.GoSem Model.GoVal Spec.RFC8392 Model.Cwt.\nImport ListNotations.\nOpen Scope Z_scope.\n\n")
	var pi *pkgInfo
	for i := range ps {
		if ps[i].short == "cwt" {
			pi = &ps[i]
		}
	}
	if pi == nil {
		return b.String()
	}
	for _, t := range []struct {
		method string
		isMap  bool
		params string
	}{{"Validate", false, "(o : vopts) (now : gtime) (c : claims)"}, {"ValidateMap", true, "(o : vopts) (now : gtime) (m : cosemap)"}} {
		name := "cwt_Validator_" + t.method
		stub := func(why string) {
			fmt.Fprintln(os.Stderr, "gen: T13:", name, "not translated:", why)
			fmt.Fprintf(&b, "(* %s — NOT TRANSLATED: %s *)\nDefinition %s %s : res unit := Panic.\n\n", name, strings.ReplaceAll(why, "*)", "* )"), name, t.params)
		}
		var fd *ast.FuncDecl
		for _, file := range pi.p.Syntax {
			for _, d := range file.Decls {
				if x, ok := d.(*ast.FuncDecl); ok && x.Body != nil && funcName(x) == "Validator_"+t.method {
					fd = x
				}
			}
		}
		if fd == nil || fd.Recv == nil || len(fd.Recv.List) != 1 || len(fd.Recv.List[0].Names) != 1 || len(fd.Type.Params.List) != 1 || len(fd.Type.Params.List[0].Names) != 1 {
			stub("method not found or of another signature")
			continue
		}
		recv, claims := fd.Recv.List[0].Names[0].Name, fd.Type.Params.List[0].Names[0].Name
		body := fd.Body.List
		// preamble: nil check, now := time.Now(), FixedNow override
		at := -1
		for i, st := range body {
			if ifCondText(st) == "!"+recv+".opts.FixedNow.IsZero()" {
				at = i
			}
		}
		if at != 2 || ifCondText(body[0]) != claims+" == nil" || assignText(body[1]) != "now := time.Now()" {
			stub("the preamble is not `if claims == nil ..; now := time.Now(); if !v.opts.FixedNow.IsZero() ..`")
			continue
		}
		if ov, ok := body[2].(*ast.IfStmt); !ok || len(ov.Body.List) != 1 || assignText(ov.Body.List[0]) != "now = "+recv+".opts.FixedNow" {
			stub("FixedNow does not replace now")
			continue
		}
		f := &ftr{pi: *pi, all: ps, fd: fd, declared: map[string]int{}, byteVars: map[string]string{}, names: map[types.Object]string{},
			hdr: &hdrCtx{recv: recv, cwt: true, claims: claims, isMap: t.isMap}}
		for _, r := range []string{"o", "now", "c", "m"} {
			f.declared[r] = 1
		}
		ir := f.lower(body[3:])
		term := f.emit(ir, kont{kind: 0}, map[string]bool{})
		if f.err != nil {
			stub(f.err.Error())
			continue
		}
		pos := pi.p.Fset.Position(body[3].Pos())
		fmt.Fprintf(&b, "(* Validator.%s after the choice of now — %s:%d *)\nDefinition %s %s : res unit :=\n  %s.\n\n", t.method, strings.TrimPrefix(pos.Filename, *repo+"/"), pos.Line, name, t.params, term)
	}
	return b.String()
}

// ---- T14: accessors of key.Key (Kty, Kid, Alg, BaseIV)

func (f *ftr) keyExpr(e ast.Expr) (term, bool) {
	h := f.hdr
	switch x := e.(type) {
	case *ast.BinaryExpr:
		if (x.Op == token.EQL || x.Op == token.NEQ) && isNilIdent(x.Y) {
			if id, ok := x.X.(*ast.Ident); ok {
				if id.Name == h.recv {
					if x.Op == token.EQL {
						return term{"k_nil", true}, true
					}
					return term{"(negb k_nil)", true}, true
				}
				if n, ok := h.errOk[f.pi.p.TypesInfo.ObjectOf(id)]; ok {
					if x.Op == token.EQL {
						return term{n, true}, true
					}
					return term{"(negb " + n + ")", true}, true
				}
			}
		}
	case *ast.CallExpr:
		if tv, ok := f.pi.p.TypesInfo.Types[x.Fun]; ok && tv.IsType() && len(x.Args) == 1 {
			if b, ok := tv.Type.Underlying().(*types.Basic); ok && b.Info()&types.IsInteger != 0 {
				return f.expr(x.Args[0]), true
			}
		}
	}
	return term{}, false
}

// keyStmt: `v, err := k.GetInt(L)` / `v, _ := k.GetBytes(L)` on the receiver
func (f *ftr) keyStmt(s ast.Stmt) ([]irStmt, bool) {
	switch y := s.(type) {
	case *ast.IfStmt:
		// if v, ok := k[L]; ok { .. }
		if a, ok := y.Init.(*ast.AssignStmt); ok && len(a.Lhs) == 2 && len(a.Rhs) == 1 && a.Tok == token.DEFINE {
			ix, iok := a.Rhs[0].(*ast.IndexExpr)
			v, vok := a.Lhs[0].(*ast.Ident)
			o, ook := a.Lhs[1].(*ast.Ident)
			c, cok := y.Cond.(*ast.Ident)
			if iok && vok && ook && cok && c.Name == o.Name {
				if id, ok := ix.X.(*ast.Ident); ok && id.Name == f.hdr.recv {
					if l, ok := f.label(ix.Index); ok {
						f.declare(v, v.Name)
						var els []irStmt
						if y.Else != nil {
							els = f.lower([]ast.Stmt{y.Else})
						}
						return []irStmt{irMatch{scrut: "(lookup k (ilabel " + l + "))", arms: []irArm{{pat: "Some " + f.nameOf(v), bind: []string{f.nameOf(v)}, body: f.lower(y.Body.List)}}, def: els}}, true
					}
				}
			}
		}
		return nil, false
	case *ast.TypeSwitchStmt:
		a, ok := y.Assign.(*ast.AssignStmt)
		if !ok || len(a.Lhs) != 1 || len(a.Rhs) != 1 || y.Init != nil {
			return nil, false
		}
		ta, ok := a.Rhs[0].(*ast.TypeAssertExpr)
		if !ok || ta.Type != nil {
			return nil, false
		}
		sv, ok := ta.X.(*ast.Ident)
		if !ok {
			return nil, false
		}
		m := irMatch{scrut: f.nameOf(sv)}
		for _, cl := range y.Body.List {
			cc := cl.(*ast.CaseClause)
			if len(cc.List) != 1 {
				f.fail(cc, "type switch clause with %d types", len(cc.List))
				return nil, true
			}
			var pat string
			switch types.ExprString(cc.List[0]) {
			case "Ops":
				pat = "VOps"
			case "[]int":
				pat = "VInts"
			case "[]any":
				pat = "VArr"
			default:
				f.fail(cc, "type switch on %s", types.ExprString(cc.List[0]))
				return nil, true
			}
			// the clause's own variable (one implicit object per clause)
			name := "x"
			if obj := f.pi.p.TypesInfo.Implicits[cc]; obj != nil {
				f.declared[obj.Name()]++
				name = coqName(obj.Name())
				if f.declared[obj.Name()] > 1 {
					name = fmt.Sprintf("%s_%d", coqName(obj.Name()), f.declared[obj.Name()])
				}
				f.names[obj] = name
			}
			if pat == "VOps" {
				f.hdr.nilable[name] = true
			}
			m.arms = append(m.arms, irArm{pat: pat + " " + name, bind: []string{name}, body: f.lower(cc.Body)})
		}
		return []irStmt{m}, true
	case *ast.ReturnStmt:
		if f.hdr.opsRet && len(y.Results) == 1 {
			if isNilIdent(y.Results[0]) {
				return []irStmt{irReturn{term{"None", true}}}, true
			}
			if id, ok := y.Results[0].(*ast.Ident); ok {
				n := f.nameOf(id)
				if f.hdr.nilable[n] {
					return []irStmt{irReturn{term{n, true}}}, true
				}
				return []irStmt{irReturn{term{"(Some " + n + ")", true}}}, true
			}
		}
		return nil, false
	}
	x, ok := s.(*ast.AssignStmt)
	if !ok || len(x.Lhs) != 2 || len(x.Rhs) != 1 || x.Tok != token.DEFINE {
		return nil, false
	}
	// op, err := ToInt(v)
	if call, ok := x.Rhs[0].(*ast.CallExpr); ok {
		if fn, ok := call.Fun.(*ast.Ident); ok && fn.Name == "ToInt" && len(call.Args) == 1 {
			v, vok := x.Lhs[0].(*ast.Ident)
			e, eok := x.Lhs[1].(*ast.Ident)
			if vok && eok {
				p, a := f.bind(f.expr(call.Args[0]))
				if p != "" {
					return nil, false
				}
				f.declare(v, v.Name)
				r := f.fresh()
				f.declared["err_ok"]++
				okName := "err_ok"
				if f.declared["err_ok"] > 1 {
					okName = fmt.Sprintf("err_ok_%d", f.declared["err_ok"])
				}
				if obj := f.pi.p.TypesInfo.Defs[e]; obj != nil {
					f.hdr.errOk[obj] = okName
				}
				return []irStmt{irBind{r, term{"(to_int " + a + ")", true}}, irBind{f.nameOf(v), term{"(val_or 0 " + r + ")", true}}, irBind{okName, term{"(is_ok " + r + ")", true}}}, true
			}
		}
	}
	call, ok := x.Rhs[0].(*ast.CallExpr)
	v, vok := x.Lhs[0].(*ast.Ident)
	e, eok := x.Lhs[1].(*ast.Ident)
	if !ok || !vok || !eok || len(call.Args) != 1 {
		return nil, false
	}
	sel, ok := call.Fun.(*ast.SelectorExpr)
	if !ok {
		return nil, false
	}
	id, ok := sel.X.(*ast.Ident)
	if !ok || id.Name != f.hdr.recv {
		return nil, false
	}
	l, lok := f.label(call.Args[0])
	if !lok {
		return nil, false
	}
	var total, partial, zero string
	switch sel.Sel.Name {
	case "GetInt":
		total, partial, zero = "get_int_", "get_int", "0"
	case "GetBytes":
		total, partial, zero = "get_bytes_", "get_bytes", "[]"
	default:
		return nil, false
	}
	f.declare(v, v.Name)
	if e.Name == "_" {
		return []irStmt{irBind{f.nameOf(v), term{"(" + total + " k " + l + ")", true}}}, true
	}
	// the error is looked at later: keep the outcome, the value (zero value on error) and whether the error is nil
	r := f.fresh()
	f.declared["err_ok"]++
	okName := "err_ok"
	if f.declared["err_ok"] > 1 {
		okName = fmt.Sprintf("err_ok_%d", f.declared["err_ok"])
	}
	if obj := f.pi.p.TypesInfo.Defs[e]; obj != nil {
		f.hdr.errOk[obj] = okName
	}
	return []irStmt{
		irBind{r, term{"(" + partial + " k " + l + ")", true}},
		irBind{f.nameOf(v), term{"(val_or " + zero + " " + r + ")", true}},
		irBind{okName, term{"(is_ok " + r + ")", true}},
	}, true
}

func genKeyFuncs(ps []pkgInfo) string {
	var b strings.Builder
	b.WriteString("(* GENERATED by /verif/tools/gen (T14: accessors of key.Key) from the ldclabs/cose working tree. Do not edit. *)\n")
	b.WriteString("From Coq Require Import List ZArith Bool.\nFrom Coq Require Import Strings.Byte.\nFrom Cose Require Import Lib.Base Lib.GoSem Model.GoVal Model.HdrSem Gen.FuncsGen.\nImport ListNotations.\nOpen Scope Z_scope.\n\n")
	var pi *pkgInfo
	for i := range ps {
		if ps[i].short == "key" {
			pi = &ps[i]
		}
	}
	if pi == nil {
		return b.String()
	}
	for _, m := range []string{"Kty", "Kid", "Alg", "BaseIV", "Ops"} {
		name := "key_Key_" + m
		stub := func(why string) {
			fmt.Fprintln(os.Stderr, "gen: T14:", name, "not translated:", why)
			krt := map[string]string{"Kty": "Z", "Kid": "bytes", "Alg": "Z", "BaseIV": "bytes", "Ops": "(option (list Z))"}[m]
			fmt.Fprintf(&b, "(* %s — NOT TRANSLATED: %s *)\nDefinition %s (k : cosemap) (k_nil : bool) : res %s := Panic.\n\n", name, strings.ReplaceAll(why, "*)", "* )"), name, krt)
		}
		var fd *ast.FuncDecl
		for _, file := range pi.p.Syntax {
			for _, d := range file.Decls {
				if x, ok := d.(*ast.FuncDecl); ok && x.Body != nil && funcName(x) == "Key_"+m {
					fd = x
				}
			}
		}
		if fd == nil || fd.Recv == nil || len(fd.Recv.List) != 1 || len(fd.Recv.List[0].Names) != 1 || len(fd.Type.Params.List) != 0 || fd.Type.Results == nil || len(fd.Type.Results.List) != 1 {
			stub("method not found or of another signature")
			continue
		}
		rt, ok := coqTypeOf(pi.p.TypesInfo.TypeOf(fd.Type.Results.List[0].Type))
		if !ok {
			stub("unsupported result type")
			continue
		}
		f := &ftr{pi: *pi, all: ps, fd: fd, declared: map[string]int{}, byteVars: map[string]string{}, names: map[types.Object]string{},
			hdr: &hdrCtx{recv: fd.Recv.List[0].Names[0].Name, keyMode: true, errOk: map[types.Object]string{}, nilable: map[string]bool{}}}
		if m == "Ops" {
			// a key.Ops result may be the nil slice, which callers tell from an empty one
			rt = "(option (list Z))"
			f.hdr.opsRet = true
		}
		for _, r := range []string{"k", "k_nil"} {
			f.declared[r] = 1
		}
		ir := f.lower(fd.Body.List)
		term := f.emit(ir, kont{kind: 0}, map[string]bool{})
		if f.err != nil {
			stub(f.err.Error())
			continue
		}
		pos := pi.p.Fset.Position(fd.Pos())
		fmt.Fprintf(&b, "(* Key.%s — %s:%d *)\nDefinition %s (k : cosemap) (k_nil : bool) : res %s :=\n  %s.\n\n", m, strings.TrimPrefix(pos.Filename, *repo+"/"), pos.Line, name, rt, term)
	}
	return b.String()
}

// ---- T15: lookup by key id (Verifiers / Signers / KeySet .Lookup) and the per-signature loop of SignMessage.Verify

// chain matches a.b().c() ... as the list of selector names on a root identifier
func chain(e ast.Expr) (root *ast.Ident, names []string, ok bool) {
	switch x := e.(type) {
	case *ast.Ident:
		return x, nil, true
	case *ast.SelectorExpr:
		r, n, ok := chain(x.X)
		return r, append(n, x.Sel.Name), ok
	case *ast.CallExpr:
		if len(x.Args) != 0 {
			return nil, nil, false
		}
		r, n, ok := chain(x.Fun)
		if !ok || len(n) == 0 {
			return nil, nil, false
		}
		n[len(n)-1] += "()"
		return r, n, ok
	}
	return nil, nil, false
}

func (f *ftr) signExpr(e ast.Expr) (term, bool) {
	h := f.hdr
	if r, names, ok := chain(e); ok && r != nil {
		path := strings.Join(names, ".")
		rn := f.nameOf(r)
		switch {
		case h.lookupMode && !h.elemIsKey && path == "Key().Kid()":
			return term{"(kid (sg_key " + rn + "))", true}, true
		case h.lookupMode && h.elemIsKey && path == "Kid()":
			return term{"(kid " + rn + ")", true}, true
		case h.signMode && r.Name == h.recv && path == "mm.Signatures":
			return term{"(olist sigs)", true}, true
		case h.signMode && rn == h.sigVar && path == "Kid()":
			return term{"(get_bytes_ (omap (se_unprot " + rn + ")) 4)", true}, true
		case h.signMode && rn == h.sigVar && path == "protected":
			return term{"(Some (se_raw " + rn + "))", true}, true
		case h.signMode && rn == h.sigVar && path == "toSign":
			return term{"sig_toSign", true}, true
		case h.signMode && rn == h.sigVar && path == "Signature":
			return term{"(match se_sig " + rn + " with Some b => b | None => [] end)", true}, true
		case h.signMode && path == "Key().Alg()":
			return term{"(key_alg (sg_key " + rn + "))", true}, true
		}
	}
	switch x := e.(type) {
	case *ast.BinaryExpr:
		if (x.Op == token.EQL || x.Op == token.NEQ) && isNilIdent(x.Y) && h.signMode {
			var t string
			if r, names, ok := chain(x.X); ok && r != nil {
				switch {
				case r.Name == h.recv && strings.Join(names, ".") == "mm":
					t = "false" // the message was decoded (hypothesis of the theorem): the wire struct exists
				case r.Name == h.recv && strings.Join(names, ".") == "mm.Signatures":
					t = "(is_none sigs)"
				case len(names) == 0 && isByteSlice(f.typeOf(x.X)):
					t = "(is_none " + f.nameOf(r) + ")" // a nil-able byte string held as option bytes (protected)
				}
			}
			if t != "" {
				if x.Op == token.NEQ {
					t = "(negb " + t + ")"
				}
				return term{t, true}, true
			}
		}
	case *ast.CallExpr:
		if tv, ok := f.pi.p.TypesInfo.Types[x.Fun]; ok && tv.IsType() && len(x.Args) == 1 {
			if b, ok := tv.Type.Underlying().(*types.Basic); ok && b.Info()&types.IsInteger != 0 {
				return f.expr(x.Args[0]), true
			}
		}
		if sel, ok := x.Fun.(*ast.SelectorExpr); ok {
			if obj, ok := f.pi.p.TypesInfo.ObjectOf(sel.Sel).(*types.Func); ok && obj.Pkg() != nil && obj.Pkg().Path() == "bytes" && obj.Name() == "Equal" && len(x.Args) == 2 {
				pa, a := f.bind(f.expr(x.Args[0]))
				pb, b := f.bind(f.expr(x.Args[1]))
				if pa == "" && pb == "" {
					return term{"(bytes_eqb " + a + " " + b + ")", true}, true
				}
			}
			if r, names, ok := chain(sel.X); ok && r != nil && h.signMode && f.nameOf(r) == h.sigVar && strings.Join(names, ".") == "Protected" && sel.Sel.Name == "Has" && len(x.Args) == 1 {
				if l, ok := f.label(x.Args[0]); ok {
					return term{"(has (se_prot " + h.sigVar + ") " + l + ")", true}, true
				}
			}
			// verifier.Verify(sig.toSign, sig.Signature) as a boolean "no error"
			if id, ok := sel.X.(*ast.Ident); ok && h.signMode && sel.Sel.Name == "Verify" && len(x.Args) == 2 {
				pa, a := f.bind(f.expr(x.Args[0]))
				pb, b := f.bind(f.expr(x.Args[1]))
				if pa == "" && pb == "" {
					return term{"(sg_verify " + f.nameOf(id) + " " + a + " " + b + ")", true}, true
				}
			}
		}
	}
	return term{}, false
}

func (f *ftr) signStmt(s ast.Stmt, next ast.Stmt) ([]irStmt, int, bool) {
	h := f.hdr
	switch x := s.(type) {
	case *ast.DeclStmt:
		// var err error
		if gd, ok := x.Decl.(*ast.GenDecl); ok && gd.Tok == token.VAR && len(gd.Specs) == 1 {
			if vs, ok := gd.Specs[0].(*ast.ValueSpec); ok && len(vs.Names) == 1 && vs.Names[0].Name == "err" && len(vs.Values) == 0 {
				return nil, 0, true
			}
		}
	case *ast.ReturnStmt:
		if len(x.Results) == 1 {
			if isErrCtor(f, x.Results[0]) {
				return []irStmt{irReturn{term{"Err", false}}}, 0, true
			}
			if isNilIdent(x.Results[0]) {
				if h.lookupMode {
					return []irStmt{irReturn{term{"None", true}}}, 0, true
				}
				return []irStmt{irReturn{term{"tt", true}}}, 0, true
			}
			if id, ok := x.Results[0].(*ast.Ident); ok && h.lookupMode {
				return []irStmt{irReturn{term{"(Some " + f.nameOf(id) + ")", true}}}, 0, true
			}
		}
	case *ast.AssignStmt:
		if !h.signMode || len(x.Rhs) != 1 {
			return nil, 0, false
		}
		// verifier := verifiers.Lookup(kid); if verifier == nil { return ERR }
		if len(x.Lhs) == 1 && x.Tok == token.DEFINE {
			if call, ok := x.Rhs[0].(*ast.CallExpr); ok && len(call.Args) == 1 {
				if sel, ok := call.Fun.(*ast.SelectorExpr); ok && sel.Sel.Name == "Lookup" {
					if vsid, ok := sel.X.(*ast.Ident); ok {
						v := x.Lhs[0].(*ast.Ident)
						ni, ok := next.(*ast.IfStmt)
						if !ok || types.ExprString(ni.Cond) != v.Name+" == nil" || len(ni.Body.List) != 1 || ni.Else != nil {
							f.fail(x, "the result of Lookup is not tested for nil right away")
							return nil, 0, true
						}
						r, ok := ni.Body.List[0].(*ast.ReturnStmt)
						if !ok || len(r.Results) != 1 || !isErrCtor(f, r.Results[0]) {
							f.fail(x, "a missing verifier does not return an error")
							return nil, 0, true
						}
						p, a := f.bind(f.expr(call.Args[0]))
						if p != "" {
							return nil, 0, false
						}
						f.declare(v, v.Name)
						return []irStmt{irMatch{scrut: "(lookup_prim " + f.nameOf(vsid) + " " + a + ")", arms: []irArm{{pat: "Some " + f.nameOf(v), bind: []string{f.nameOf(v)}}}, def: []irStmt{irReturn{term{"Err", false}}}}}, 1, true
					}
				}
			}
		}
		// alg, _ := sig.Protected.GetInt(L) ; protected, _ = sig.Protected.Bytes()
		if len(x.Lhs) == 2 {
			v, vok := x.Lhs[0].(*ast.Ident)
			e, eok := x.Lhs[1].(*ast.Ident)
			call, cok := x.Rhs[0].(*ast.CallExpr)
			if vok && eok && cok && e.Name == "_" {
				if sel, ok := call.Fun.(*ast.SelectorExpr); ok {
					if r, names, ok := chain(sel.X); ok && r != nil && f.nameOf(r) == h.sigVar && strings.Join(names, ".") == "Protected" {
						var rhs string
						switch {
						case sel.Sel.Name == "GetInt" && len(call.Args) == 1:
							if l, ok := f.label(call.Args[0]); ok {
								rhs = "(get_int_ (se_prot " + h.sigVar + ") " + l + ")"
							}
						case sel.Sel.Name == "Bytes" && len(call.Args) == 0:
							rhs = "(headers_bytes (se_prot " + h.sigVar + "))"
						}
						if rhs != "" {
							if x.Tok == token.DEFINE {
								f.declare(v, v.Name)
							}
							return []irStmt{irBind{f.nameOf(v), term{rhs, true}}}, 0, true
						}
					}
				}
			}
		}
		// sig.toSign = m.mm.toSign(protected, externalData)
		if len(x.Lhs) == 1 && x.Tok == token.ASSIGN {
			if r, names, ok := chain(x.Lhs[0]); ok && r != nil && f.nameOf(r) == h.sigVar && strings.Join(names, ".") == "toSign" {
				if call, ok := x.Rhs[0].(*ast.CallExpr); ok && len(call.Args) == 2 {
					if rr, nn, ok := chain(call.Fun); ok && rr != nil && rr.Name == h.recv && strings.Join(nn, ".") == "mm.toSign" {
						pa, a := f.bind(f.expr(call.Args[0]))
						pb, b := f.bind(f.expr(call.Args[1]))
						if pa == "" && pb == "" {
							return []irStmt{irBind{"sig_toSign", term{"(structure KSign (w_prot w) " + a + " " + b + " (w_payload w))", false}}}, 0, true
						}
					}
				}
			}
		}
	case *ast.IfStmt:
		// if err = verifier.Verify(..); err != nil { return err }
		if a, ok := x.Init.(*ast.AssignStmt); ok && h.signMode && len(a.Lhs) == 1 && len(a.Rhs) == 1 && a.Tok == token.ASSIGN && types.ExprString(a.Lhs[0]) == "err" &&
			types.ExprString(x.Cond) == "err != nil" && x.Else == nil && len(x.Body.List) == 1 {
			if r, ok := x.Body.List[0].(*ast.ReturnStmt); ok && len(r.Results) == 1 && isErrCtor(f, r.Results[0]) {
				t := f.expr(a.Rhs[0])
				if t.pure {
					return []irStmt{irIf{cond: term{"(negb " + t.s + ")", true}, then: []irStmt{irReturn{term{"Err", false}}}}}, 0, true
				}
			}
		}
	case *ast.RangeStmt:
		if h.signMode {
			if id, ok := x.Value.(*ast.Ident); ok {
				h.sigVar = coqName(id.Name)
			}
		}
	}
	return nil, 0, false
}

// ---- T16: the per-signer loop of SignMessage.WithSign
//
//	sig := &Signature{Protected: Headers{}, Unprotected: Headers{}}     sig_Protected, sig_Unprotected : hdr (a field left out is a nil map)
//	signer.Key().Alg(), signer.Key().Kid()                               key_alg (sg_key signer), kid (sg_key signer)
//	sig.Protected[L] = v                                                 do sig_Protected <- oset sig_Protected L v   (T12)
//	protected, _ := sig.Protected.Bytes()                                headers_bytes (omap sig_Protected) : option bytes
//	sig.toSign = mm.toSign(protected, externalData)                      do sig_toSign <- structure KSign (Some pb) protected externalData payload
//	if sig.Signature, err = signer.Sign(sig.toSign); err != nil {return err}     do sig_Signature <- sg_sign signer sig_toSign
//	mm.Signatures = append(mm.Signatures, sig)                           acc := acc ++ [entry]
func (f *ftr) wsExpr(e ast.Expr) (term, bool) {
	h := f.hdr
	if r, names, ok := chain(e); ok && r != nil {
		path := strings.Join(names, ".")
		switch {
		case r.Name == h.signerVar && path == "Key().Alg()":
			return term{"(key_alg (sg_key " + f.nameOf(r) + "))", true}, true
		case r.Name == h.signerVar && path == "Key().Kid()":
			return term{"(kid (sg_key " + f.nameOf(r) + "))", true}, true
		case h.sigVar != "" && r.Name == h.sigVar && path == "toSign":
			return term{"sig_toSign", true}, true
		}
	}
	return term{}, false
}

func (f *ftr) wsStmt(s ast.Stmt, next ast.Stmt) ([]irStmt, int, bool) {
	h := f.hdr
	switch x := s.(type) {
	case *ast.AssignStmt:
		if len(x.Rhs) != 1 {
			return nil, 0, false
		}
		// sig := &Signature{Protected: Headers{}, Unprotected: Headers{}}
		if len(x.Lhs) == 1 && x.Tok == token.DEFINE {
			if u, ok := x.Rhs[0].(*ast.UnaryExpr); ok && u.Op == token.AND {
				if cl, ok := u.X.(*ast.CompositeLit); ok {
					if n, ok := f.typeOf(cl).(*types.Named); ok && n.Obj().Name() == "Signature" {
						id := x.Lhs[0].(*ast.Ident)
						if h.sigVar != "" {
							f.fail(x, "a second Signature literal in the loop")
							return nil, 0, true
						}
						h.sigVar = id.Name
						vals := map[string]string{"Protected": "None", "Unprotected": "None"}
						for _, el := range cl.Elts {
							kv, ok := el.(*ast.KeyValueExpr)
							if !ok {
								f.fail(x, "positional Signature literal")
								return nil, 0, true
							}
							k, _ := kv.Key.(*ast.Ident)
							if k == nil || (k.Name != "Protected" && k.Name != "Unprotected") {
								f.fail(x, "the Signature literal sets a field other than the two buckets")
								return nil, 0, true
							}
							t := f.expr(kv.Value)
							if !t.pure {
								f.fail(x, "effectful bucket initialiser")
								return nil, 0, true
							}
							vals[k.Name] = t.s
						}
						return []irStmt{irBind{"sig_Protected", term{vals["Protected"], true}}, irBind{"sig_Unprotected", term{vals["Unprotected"], true}}}, 0, true
					}
				}
			}
		}
		// protected, _ := sig.Protected.Bytes()
		if len(x.Lhs) == 2 {
			v, vok := x.Lhs[0].(*ast.Ident)
			e, eok := x.Lhs[1].(*ast.Ident)
			call, cok := x.Rhs[0].(*ast.CallExpr)
			if vok && eok && cok && e.Name == "_" && len(call.Args) == 0 {
				if sel, ok := call.Fun.(*ast.SelectorExpr); ok && sel.Sel.Name == "Bytes" {
					if hv, ok := f.hdrVar(sel.X); ok {
						if x.Tok == token.DEFINE {
							f.declare(v, v.Name)
						}
						return []irStmt{irBind{f.nameOf(v), term{"(headers_bytes (omap " + hv + "))", true}}}, 0, true
					}
				}
			}
		}
		if len(x.Lhs) == 1 && x.Tok == token.ASSIGN {
			if r, names, ok := chain(x.Lhs[0]); ok && r != nil {
				path := strings.Join(names, ".")
				// sig.toSign = mm.toSign(protected, externalData)
				if h.sigVar != "" && r.Name == h.sigVar && path == "toSign" {
					if call, ok := x.Rhs[0].(*ast.CallExpr); ok && len(call.Args) == 2 {
						if rr, nn, ok := chain(call.Fun); ok && rr != nil && rr.Name == h.mmVar && strings.Join(nn, ".") == "toSign" {
							pa, a := f.bind(f.expr(call.Args[0]))
							pb, b := f.bind(f.expr(call.Args[1]))
							if pa == "" && pb == "" {
								return []irStmt{irBind{"sig_toSign", term{"(structure KSign (Some pb) " + a + " " + b + " payload)", false}}}, 0, true
							}
						}
					}
					f.fail(x, "toSign is not assigned the Sig_structure of the wire struct")
					return nil, 0, true
				}
				// mm.Signatures = append(mm.Signatures, sig)
				if r.Name == h.mmVar && path == "Signatures" {
					if call, ok := x.Rhs[0].(*ast.CallExpr); ok && len(call.Args) == 2 && call.Ellipsis == token.NoPos {
						if fn, ok := call.Fun.(*ast.Ident); ok && fn.Name == "append" && types.ExprString(call.Args[0]) == types.ExprString(x.Lhs[0]) {
							if a, ok := call.Args[1].(*ast.Ident); ok && a.Name == h.sigVar {
								return []irStmt{irBind{"acc", term{"(acc ++ [mk_sigout sig_Protected sig_Unprotected sig_Signature])", true}}}, 0, true
							}
						}
					}
					f.fail(x, "the signature list is not extended by append(list, sig)")
					return nil, 0, true
				}
			}
		}
	case *ast.IfStmt:
		// if sig.Signature, err = signer.Sign(sig.toSign); err != nil { return err }
		if a, ok := x.Init.(*ast.AssignStmt); ok && len(a.Lhs) == 2 && len(a.Rhs) == 1 && a.Tok == token.ASSIGN && types.ExprString(a.Lhs[1]) == "err" &&
			types.ExprString(x.Cond) == "err != nil" && x.Else == nil && len(x.Body.List) == 1 {
			r, rok := x.Body.List[0].(*ast.ReturnStmt)
			lr, ln, lok := chain(a.Lhs[0])
			call, cok := a.Rhs[0].(*ast.CallExpr)
			if rok && lok && cok && len(r.Results) == 1 && isErrCtor(f, r.Results[0]) && lr != nil && lr.Name == h.sigVar && strings.Join(ln, ".") == "Signature" && len(call.Args) == 1 {
				if sel, ok := call.Fun.(*ast.SelectorExpr); ok && sel.Sel.Name == "Sign" {
					if id, ok := sel.X.(*ast.Ident); ok && id.Name == h.signerVar {
						p, v := f.bind(f.expr(call.Args[0]))
						if p == "" {
							return []irStmt{irBind{"sig_Signature", term{"(sg_sign " + f.nameOf(id) + " " + v + ")", false}}}, 0, true
						}
					}
				}
			}
		}
	}
	return nil, 0, false
}

func genWithSignLoop(ps []pkgInfo, find func(short, fn string) (*pkgInfo, *ast.FuncDecl)) string {
	var b strings.Builder
	name := "cose_SignMessage_WithSign_loop"
	stub := func(why string) string {
		fmt.Fprintln(os.Stderr, "gen: T16:", name, "not translated:", why)
		return fmt.Sprintf("(* %s — NOT TRANSLATED: %s *)\nDefinition %s (signers : list sigprim) (externalData : option bytes) (pb : bytes) (payload : option bytes) : res (list sigout) := Panic.\nDefinition cose_SignMessage_WithSign_after_loop : list string := [].\n\n", name, strings.ReplaceAll(why, "*)", "* )"), name)
	}
	pi, fd := find("cose", "SignMessage_WithSign")
	if fd == nil || fd.Recv == nil || len(fd.Recv.List) != 1 || len(fd.Recv.List[0].Names) != 1 || len(fd.Type.Params.List) != 2 ||
		len(fd.Type.Params.List[0].Names) != 1 || len(fd.Type.Params.List[1].Names) != 1 {
		return stub("method not found or of another signature")
	}
	sp, ep := fd.Type.Params.List[0].Names[0], fd.Type.Params.List[1].Names[0]
	// the loop: the one top-level `for _, s := range <signers>`
	var loop *ast.RangeStmt
	li := -1
	for i, st := range fd.Body.List {
		if r, ok := st.(*ast.RangeStmt); ok {
			if id, ok := r.X.(*ast.Ident); ok && id.Name == sp.Name {
				if loop != nil {
					return stub("two loops over the signers")
				}
				loop, li = r, i
			}
		}
	}
	if loop == nil {
		return stub("no top-level range over the signers")
	}
	val, ok := loop.Value.(*ast.Ident)
	if !ok || val.Name == "_" {
		return stub("the loop does not name the signer")
	}
	// the local wire struct: the variable X of the statement `m.mm = X` after the loop
	recv := fd.Recv.List[0].Names[0].Name
	mmVar := ""
	var after []string
	for _, st := range fd.Body.List[li+1:] {
		var sb strings.Builder
		printer.Fprint(&sb, pi.p.Fset, st)
		after = append(after, strings.Join(strings.Fields(sb.String()), " "))
		if a, ok := st.(*ast.AssignStmt); ok && len(a.Lhs) == 1 && len(a.Rhs) == 1 && a.Tok == token.ASSIGN && types.ExprString(a.Lhs[0]) == recv+".mm" {
			if id, ok := a.Rhs[0].(*ast.Ident); ok {
				mmVar = id.Name
			}
		}
	}
	if mmVar == "" {
		return stub("the wire struct is not installed by `m.mm = <local>` after the loop")
	}
	f := &ftr{pi: *pi, all: ps, fd: fd, declared: map[string]int{}, byteVars: map[string]string{}, names: map[types.Object]string{},
		hdr: &hdrCtx{recv: recv, wsMode: true, signerVar: val.Name, mmVar: mmVar}}
	for _, r := range []string{"pb", "payload", "acc", "sig_Protected", "sig_Unprotected", "sig_toSign", "sig_Signature"} {
		f.declared[r] = 1
	}
	f.declare(sp, sp.Name)
	f.declare(ep, ep.Name)
	sn, en := f.nameOf(sp), f.nameOf(ep)
	ir := f.lower([]ast.Stmt{loop})
	ir = append(ir, irReturn{term{"acc", true}})
	body := f.emit(ir, kont{kind: 0}, map[string]bool{sn: true, en: true, "acc": true, "pb": true, "payload": true})
	if f.err != nil {
		return stub(f.err.Error())
	}
	pos := pi.p.Fset.Position(loop.Pos())
	fmt.Fprintf(&b, "(* SignMessage.WithSign, the loop over the signers (pb: the encoded body protected bucket, payload: the payload member of the wire struct; the result is the list appended to mm.Signatures) — %s:%d *)\nDefinition %s (%s : list sigprim) (%s : option bytes) (pb : bytes) (payload : option bytes) : res (list sigout) :=\n  let acc := ([] : list sigout) in\n  %s.\n\n", strings.TrimPrefix(pos.Filename, *repo+"/"), pos.Line, name, sn, en, body)
	fmt.Fprintf(&b, "(* the statements of WithSign after the loop *)\nDefinition cose_SignMessage_WithSign_after_loop : list string := [%s].\n\n", strings.Join(quoteAll(after), "; "))
	return b.String()
}

func genLookups(ps []pkgInfo) string {
	var b strings.Builder
	b.WriteString("(* GENERATED by /verif/tools/gen (T15: lookup by key id; the per-signature loop of SignMessage.Verify) from the ldclabs/cose working tree. Do not edit. *)\n")
	b.WriteString("From Coq Require Import List ZArith Bool String.\nFrom Coq Require Import Strings.Byte.\nFrom Cose Require Import Lib.Base Lib.Cbor Lib.GoSem Model.GoVal Model.Wire Model.Key Model.MsgLogic Model.Msg Model.HdrSem.\nImport ListNotations.\nOpen Scope Z_scope.\n\n")
	find := func(short, fn string) (*pkgInfo, *ast.FuncDecl) {
		for i := range ps {
			if ps[i].short != short {
				continue
			}
			for _, file := range ps[i].p.Syntax {
				for _, d := range file.Decls {
					if x, ok := d.(*ast.FuncDecl); ok && x.Body != nil && funcName(x) == fn {
						return &ps[i], x
					}
				}
			}
		}
		return nil, nil
	}
	for _, t := range []struct {
		fn, elem string
		isKey    bool
	}{{"Verifiers_Lookup", "sigprim", false}, {"Signers_Lookup", "sigprim", false}, {"KeySet_Lookup", "cosemap", true}} {
		name := "key_" + t.fn
		stub := func(why string) {
			fmt.Fprintln(os.Stderr, "gen: T15:", name, "not translated:", why)
			fmt.Fprintf(&b, "(* %s — NOT TRANSLATED: %s *)\nDefinition %s (vs : list %s) (kid_ : bytes) : res (option %s) := Panic.\n\n", name, strings.ReplaceAll(why, "*)", "* )"), name, t.elem, t.elem)
		}
		pi, fd := find("key", t.fn)
		if fd == nil || fd.Recv == nil || len(fd.Recv.List) != 1 || len(fd.Recv.List[0].Names) != 1 || len(fd.Type.Params.List) != 1 || len(fd.Type.Params.List[0].Names) != 1 {
			stub("method not found or of another signature")
			continue
		}
		f := &ftr{pi: *pi, all: ps, fd: fd, declared: map[string]int{}, byteVars: map[string]string{}, names: map[types.Object]string{},
			hdr: &hdrCtx{recv: fd.Recv.List[0].Names[0].Name, lookupMode: true, elemIsKey: t.isKey}}
		f.declare(fd.Recv.List[0].Names[0], fd.Recv.List[0].Names[0].Name)
		f.declare(fd.Type.Params.List[0].Names[0], fd.Type.Params.List[0].Names[0].Name)
		rn, pn := f.nameOf(fd.Recv.List[0].Names[0]), f.nameOf(fd.Type.Params.List[0].Names[0])
		ir := f.lower(fd.Body.List)
		term := f.emit(ir, kont{kind: 0}, map[string]bool{rn: true, pn: true})
		if f.err != nil {
			stub(f.err.Error())
			continue
		}
		pos := pi.p.Fset.Position(fd.Pos())
		fmt.Fprintf(&b, "(* %s — %s:%d *)\nDefinition %s (%s : list %s) (%s : bytes) : res (option %s) :=\n  %s.\n\n", t.fn, strings.TrimPrefix(pos.Filename, *repo+"/"), pos.Line, name, rn, t.elem, pn, t.elem, term)
	}
	// SignMessage.Verify
	{
		name := "cose_SignMessage_Verify"
		stub := func(why string) {
			fmt.Fprintln(os.Stderr, "gen: T15:", name, "not translated:", why)
			fmt.Fprintf(&b, "(* %s — NOT TRANSLATED: %s *)\nDefinition %s (verifiers : list sigprim) (externalData : option bytes) (w : wire) (sigs : option (list sigent)) : res unit := Panic.\n\n", name, strings.ReplaceAll(why, "*)", "* )"), name)
		}
		pi, fd := find("cose", "SignMessage_Verify")
		if fd == nil || fd.Recv == nil || len(fd.Recv.List) != 1 || len(fd.Recv.List[0].Names) != 1 || len(fd.Type.Params.List) != 2 ||
			len(fd.Type.Params.List[0].Names) != 1 || len(fd.Type.Params.List[1].Names) != 1 {
			stub("method not found or of another signature")
		} else {
			f := &ftr{pi: *pi, all: ps, fd: fd, declared: map[string]int{}, byteVars: map[string]string{}, names: map[types.Object]string{},
				hdr: &hdrCtx{recv: fd.Recv.List[0].Names[0].Name, signMode: true}}
			for _, r := range []string{"w", "sigs", "sig_toSign"} {
				f.declared[r] = 1
			}
			f.declare(fd.Type.Params.List[0].Names[0], fd.Type.Params.List[0].Names[0].Name)
			f.declare(fd.Type.Params.List[1].Names[0], fd.Type.Params.List[1].Names[0].Name)
			vn, en := f.nameOf(fd.Type.Params.List[0].Names[0]), f.nameOf(fd.Type.Params.List[1].Names[0])
			ir := f.lower(fd.Body.List)
			term := f.emit(ir, kont{kind: 0}, map[string]bool{vn: true, en: true})
			if f.err != nil {
				stub(f.err.Error())
			} else {
				pos := pi.p.Fset.Position(fd.Pos())
				fmt.Fprintf(&b, "(* SignMessage.Verify on a decoded message (wire struct w, signatures sigs) — %s:%d *)\nDefinition %s (%s : list sigprim) (%s : option bytes) (w : wire) (sigs : option (list sigent)) : res unit :=\n  %s.\n\n", strings.TrimPrefix(pos.Filename, *repo+"/"), pos.Line, name, vn, en, term)
			}
		}
	}
	b.WriteString(genWithSignLoop(ps, find))
	return b.String()
}
