package main

import (
	"fmt"
	"go/ast"
	"go/token"
	"go/types"
	"sort"
	"strings"

	"golang.org/x/tools/go/packages"
	"golang.org/x/tools/go/ssa"
	"golang.org/x/tools/go/ssa/ssautil"
)

// ---------------------------------------------------------------- T9

// genApi emits the exported API inventory and the syntactic panic-site
// inventory, keyed by (function, kind, normalised expression) — not by line.
func genApi(ps []pkgInfo) string {
	var b strings.Builder
	b.WriteString(header)
	b.WriteString("(* T9: exported functions and methods (package, name, documented-to-panic by the naming rule Must-, Unwrap-, Register- prefix);\n   panic-capable sites (package.function, kind, expression). *)\n")
	var api, sites []string
	for _, pi := range ps {
		for _, f := range pi.p.Syntax {
			for _, d := range f.Decls {
				fd, ok := d.(*ast.FuncDecl)
				if !ok || fd.Body == nil {
					continue
				}
				name := funcName(fd)
				if fd.Name.IsExported() && recvExported(fd) {
					doc := "false"
					if strings.HasPrefix(fd.Name.Name, "Must") || strings.HasPrefix(fd.Name.Name, "Unwrap") || strings.HasPrefix(fd.Name.Name, "Register") {
						doc = "true"
					}
					api = append(api, fmt.Sprintf("(%s, %s, %s)", coqStr(pi.short), coqStr(name), doc))
				}
				sites = append(sites, panicSites(pi, fd)...)
			}
		}
	}
	sites = attributePanics(ps, sites)
	sort.Strings(api)
	sort.Strings(sites)
	fmt.Fprintf(&b, "Definition api : list (string * string * bool) := %s.\n", coqListNL(api, "    "))
	fmt.Fprintf(&b, "Definition panic_sites : list (string * string * string) := %s.\n", coqListNL(sites, "    "))
	return b.String()
}

// attributePanics: an explicit panic inside an unexported plain function belongs to the exported functions that reach it
// through calls inside the package (extracting a helper does not change who can panic).
func attributePanics(ps []pkgInfo, sites []string) []string {
	callers := map[string]map[string]bool{} // "pkg.callee" -> set of "pkg.caller" (plain functions only)
	exported := map[string]bool{}
	for _, pi := range ps {
		for _, f := range pi.p.Syntax {
			for _, d := range f.Decls {
				fd, ok := d.(*ast.FuncDecl)
				if !ok || fd.Body == nil || fd.Recv != nil {
					continue
				}
				caller := pi.short + "." + fd.Name.Name
				if fd.Name.IsExported() {
					exported[caller] = true
				}
				ast.Inspect(fd.Body, func(n ast.Node) bool {
					c, ok := n.(*ast.CallExpr)
					if !ok {
						return true
					}
					fun := c.Fun
					if ix, ok := fun.(*ast.IndexExpr); ok { // generic instantiation f[T](..)
						fun = ix.X
					}
					if ix, ok := fun.(*ast.IndexListExpr); ok {
						fun = ix.X
					}
					if id, ok := fun.(*ast.Ident); ok {
						if obj, ok := pi.p.TypesInfo.ObjectOf(id).(*types.Func); ok && obj.Pkg() == pi.p.Types {
							callee := pi.short + "." + obj.Name()
							if callers[callee] == nil {
								callers[callee] = map[string]bool{}
							}
							callers[callee][caller] = true
						}
					}
					return true
				})
			}
		}
	}
	roots := func(fn string) []string {
		seen := map[string]bool{fn: true}
		work := []string{fn}
		var out []string
		for len(work) > 0 {
			x := work[0]
			work = work[1:]
			for c := range callers[x] {
				if seen[c] {
					continue
				}
				seen[c] = true
				if exported[c] {
					out = append(out, c)
				} else {
					work = append(work, c)
				}
			}
		}
		sort.Strings(out)
		return out
	}
	var out []string
	for _, sline := range sites {
		// (fn, kind, expr)
		parts := strings.SplitN(strings.TrimPrefix(sline, "(\""), "\", \"", 3)
		if len(parts) == 3 && parts[1] == "panic" {
			fn := parts[0]
			dot := strings.LastIndex(fn, ".")
			name := fn[dot+1:]
			if dot >= 0 && !strings.Contains(name, "_") && name != "" && !(name[0] >= 'A' && name[0] <= 'Z') {
				if rs := roots(fn); len(rs) > 0 {
					for _, r := range rs {
						out = append(out, fmt.Sprintf("(%s, %s, %s)", coqStr(r), coqStr("panic"), coqStr("in "+fn)))
					}
					continue
				}
			}
		}
		out = append(out, sline)
	}
	return out
}

func recvExported(fd *ast.FuncDecl) bool {
	if fd.Recv == nil || len(fd.Recv.List) == 0 {
		return true
	}
	r := types.ExprString(fd.Recv.List[0].Type)
	r = strings.TrimPrefix(r, "*")
	return r != "" && r[0] >= 'A' && r[0] <= 'Z'
}

func panicSites(pi pkgInfo, fd *ast.FuncDecl) []string {
	var out []string
	fn := pi.short + "." + funcName(fd)
	var stack []ast.Node
	add := func(kind string, e ast.Node) {
		var s string
		if ex, ok := e.(ast.Expr); ok {
			s = types.ExprString(ex)
		}
		out = append(out, fmt.Sprintf("(%s, %s, %s)", coqStr(fn), coqStr(kind), coqStr(s)))
	}
	ast.Inspect(fd.Body, func(n ast.Node) bool {
		if n == nil {
			stack = stack[:len(stack)-1]
			return true
		}
		var parent ast.Node
		if len(stack) > 0 {
			parent = stack[len(stack)-1]
		}
		stack = append(stack, n)
		switch x := n.(type) {
		case *ast.IndexExpr:
			if t := pi.p.TypesInfo.TypeOf(x.X); t != nil {
				switch u := t.Underlying().(type) {
				case *types.Slice, *types.Array:
					add("index", x)
				case *types.Basic:
					if u.Info()&types.IsString != 0 {
						add("index", x)
					}
				case *types.Pointer:
					add("index", x)
				}
			}
		case *ast.SliceExpr:
			add("slice", x)
		case *ast.TypeAssertExpr:
			if x.Type == nil {
				break // type switch
			}
			commaOk := false
			switch p := parent.(type) {
			case *ast.AssignStmt:
				commaOk = len(p.Lhs) == 2 && len(p.Rhs) == 1
			case *ast.ValueSpec:
				commaOk = len(p.Names) == 2 && len(p.Values) == 1
			}
			if !commaOk {
				add("assert", x)
			}
		case *ast.CallExpr:
			if id, ok := x.Fun.(*ast.Ident); ok && id.Name == "panic" {
				add("panic", x)
			}
			if se, ok := x.Fun.(*ast.SelectorExpr); ok {
				nm := se.Sel.Name
				if strings.HasPrefix(nm, "Must") || strings.HasPrefix(nm, "Unwrap") {
					add("mustcall", x.Fun)
				}
			}
		case *ast.StarExpr:
			if _, isType := pi.p.TypesInfo.Types[x]; isType && pi.p.TypesInfo.Types[x].IsType() {
				break
			}
			add("deref", x)
		case *ast.BinaryExpr:
			if x.Op == token.QUO || x.Op == token.REM {
				if _, ok := intConst(pi.p, x.Y); !ok {
					add("divide", x)
				}
			}
		}
		return true
	})
	return out
}

// ---------------------------------------------------------------- T10

// genEffects reports, per function of the module, the stores and map updates
// whose target is reachable from the receiver, another parameter, a free
// variable or a package global (writes to fresh local allocations are not
// shared state and are omitted), and the calls made on objects loaded from
// receiver fields.
func genEffects(all []*packages.Package, ps []pkgInfo) string {
	var b strings.Builder
	b.WriteString(header)
	b.WriteString("(* T10: SSA write effects: (function, [(kind, root)]) and calls on receiver-held objects: (function, [callee]). *)\n")
	prog, _ := ssautil.AllPackages(all, ssa.InstantiateGenerics)
	prog.Build()
	inMod := map[*types.Package]string{}
	for _, pi := range ps {
		inMod[pi.p.Types] = pi.short
	}
	var effs, calls []string
	fns := ssautil.AllFunctions(prog)
	var list []*ssa.Function
	for fn := range fns {
		if fn.Pkg == nil || fn.Blocks == nil {
			continue
		}
		if _, ok := inMod[fn.Pkg.Pkg]; !ok {
			continue
		}
		if fn.Synthetic != "" && !strings.HasPrefix(fn.Synthetic, "instance") {
			continue
		}
		list = append(list, fn)
	}
	sort.Slice(list, func(i, j int) bool { return list[i].String() < list[j].String() })
	seen := map[string]bool{}
	fnEff := map[*ssa.Function][]string{}
	fnName := map[*ssa.Function]string{}
	var order []*ssa.Function
	for _, fn := range list {
		name := strings.ReplaceAll(fn.String(), "github.com/ldclabs/cose/", "")
		if seen[name] {
			continue
		}
		seen[name] = true
		var es, cs []string
		es2 := map[string]bool{}
		cs2 := map[string]bool{}
		var visit func(f *ssa.Function, prefix string)
		visit = func(f *ssa.Function, prefix string) {
			for _, blk := range f.Blocks {
				for _, ins := range blk.Instrs {
					switch x := ins.(type) {
					case *ssa.Store:
						r := root(x.Addr, 0)
						if r != "local" {
							k := fmt.Sprintf("(%s, %s)", coqStr(prefix+"store"), coqStr(r))
							if !es2[k] {
								es2[k] = true
								es = append(es, k)
							}
						}
					case *ssa.MapUpdate:
						r := root(x.Map, 0)
						if r != "local" {
							k := fmt.Sprintf("(%s, %s)", coqStr(prefix+"mapupdate"), coqStr(r))
							if !es2[k] {
								es2[k] = true
								es = append(es, k)
							}
						}
					case ssa.CallInstruction:
						c := x.Common()
						var recvV ssa.Value
						callee := ""
						if c.IsInvoke() {
							recvV = c.Value
							callee = c.Value.Type().String() + "." + c.Method.Name()
						} else if sf := c.StaticCallee(); sf != nil {
							callee = sf.String()
							if sf.Signature.Recv() != nil && len(c.Args) > 0 {
								recvV = c.Args[0]
							}
							// builtin delete on a shared map is a write
						} else if bi, ok := c.Value.(*ssa.Builtin); ok {
							if bi.Name() == "delete" && len(c.Args) > 0 {
								r := root(c.Args[0], 0)
								if r != "local" {
									k := fmt.Sprintf("(%s, %s)", coqStr(prefix+"mapdelete"), coqStr(r))
									if !es2[k] {
										es2[k] = true
										es = append(es, k)
									}
								}
							}
							if (bi.Name() == "copy" || bi.Name() == "append") && len(c.Args) > 0 {
								r := root(c.Args[0], 0)
								if bi.Name() == "copy" && r != "local" {
									k := fmt.Sprintf("(%s, %s)", coqStr(prefix+"copy-into"), coqStr(r))
									if !es2[k] {
										es2[k] = true
										es = append(es, k)
									}
								}
							}
						}
						if recvV != nil {
							r := root(recvV, 0)
							if strings.HasPrefix(r, "recv") && r != "recv" {
								callee = strings.ReplaceAll(callee, "github.com/ldclabs/cose/", "")
								k := coqStr(callee)
								if !cs2[k] {
									cs2[k] = true
									cs = append(cs, k)
								}
							}
						}
					}
				}
			}
			for _, af := range f.AnonFuncs {
				visit(af, prefix+"closure:")
			}
		}
		visit(fn, "")
		sort.Strings(cs)
		fnEff[fn] = es
		fnName[fn] = name
		order = append(order, fn)
		if len(cs) > 0 {
			calls = append(calls, fmt.Sprintf("(%s, %s)", coqStr(name), coqList(cs)))
		}
	}
	// interprocedural step: a callee that writes through one of its parameters (or its receiver) writes whatever the
	// caller passed there. Effects rooted at a callee's parameter / receiver are mapped through the call's arguments
	// into the caller, to a fixpoint. (Writes to package-level variables stay attributed to the function that makes them.)
	type eff struct{ kind, root string }
	parse := func(k string) eff {
		// k is `("kind", "root")`
		parts := strings.SplitN(strings.TrimSuffix(strings.TrimPrefix(k, "(\""), "\")"), "\", \"", 2)
		if len(parts) != 2 {
			return eff{k, ""}
		}
		return eff{parts[0], parts[1]}
	}
	have := map[*ssa.Function]map[string]bool{}
	for _, fn := range order {
		have[fn] = map[string]bool{}
		for _, k := range fnEff[fn] {
			have[fn][k] = true
		}
	}
	for iter := 0; iter < 12; iter++ {
		changed := false
		for _, g := range order {
			var walk func(f *ssa.Function)
			walk = func(f *ssa.Function) {
				for _, blk := range f.Blocks {
					for _, ins := range blk.Instrs {
						ci, ok := ins.(ssa.CallInstruction)
						if !ok {
							continue
						}
						c := ci.Common()
						callee := c.StaticCallee()
						if callee == nil || c.IsInvoke() {
							continue
						}
						ces, ok := fnEff[callee]
						if !ok && callee.Origin() != nil {
							// an instance of a generic function: the effects were computed on the generic body
							ces, ok = fnEff[callee.Origin()]
						}
						if !ok {
							continue
						}
						for _, k := range ces {
							e := parse(k)
							var r string
							switch {
							case strings.HasPrefix(e.root, "param:"):
								pn := strings.TrimPrefix(e.root, "param:")
								for i, prm := range callee.Params {
									if prm.Name() == pn && i < len(c.Args) {
										r = root(c.Args[i], 0)
									}
								}
							case strings.HasPrefix(e.root, "recv") && callee.Signature.Recv() != nil && len(c.Args) > 0:
								r0 := root(c.Args[0], 0)
								if r0 != "local" && r0 != "unknown" {
									r = r0 + strings.TrimPrefix(e.root, "recv")
								}
							}
							if r == "" || r == "local" || r == "unknown" || strings.HasPrefix(r, "result-of:") {
								continue
							}
							kind := e.kind
							if !strings.HasPrefix(kind, "via-call:") {
								kind = "via-call:" + kind
							}
							nk := fmt.Sprintf("(%s, %s)", coqStr(kind), coqStr(r))
							if !have[g][nk] {
								have[g][nk] = true
								fnEff[g] = append(fnEff[g], nk)
								changed = true
							}
						}
					}
				}
				for _, af := range f.AnonFuncs {
					walk(af)
				}
			}
			walk(g)
		}
		if !changed {
			break
		}
	}
	for _, fn := range order {
		es := fnEff[fn]
		sort.Strings(es)
		effs = append(effs, fmt.Sprintf("(%s, %s)", coqStr(fnName[fn]), coqList(es)))
	}
	fmt.Fprintf(&b, "Definition effects : list (string * list (string * string)) := %s.\n", coqListNL(effs, "    "))
	fmt.Fprintf(&b, "Definition recv_field_calls : list (string * list string) := %s.\n", coqListNL(calls, "    "))
	return b.String()
}

// root classifies where an address or reference value comes from.
func root(v ssa.Value, depth int) string {
	if depth > 40 {
		return "unknown"
	}
	switch x := v.(type) {
	case *ssa.Parameter:
		fn := x.Parent()
		if fn.Signature.Recv() != nil && len(fn.Params) > 0 && fn.Params[0] == x {
			return "recv"
		}
		return "param:" + x.Name()
	case *ssa.FreeVar:
		return "freevar:" + x.Name()
	case *ssa.Global:
		return "global:" + x.Name()
	case *ssa.Alloc:
		return "local"
	case *ssa.MakeMap, *ssa.MakeSlice, *ssa.MakeChan, *ssa.MakeInterface, *ssa.MakeClosure:
		return "local"
	case *ssa.Const:
		return "local"
	case *ssa.FieldAddr:
		r := root(x.X, depth+1)
		if strings.HasPrefix(r, "recv") {
			return r + "." + fieldName(x.X.Type(), x.Field)
		}
		return r
	case *ssa.Field:
		r := root(x.X, depth+1)
		if strings.HasPrefix(r, "recv") {
			return r + "." + fieldName(x.X.Type(), x.Field)
		}
		return r
	case *ssa.IndexAddr:
		return root(x.X, depth+1)
	case *ssa.Index:
		return root(x.X, depth+1)
	case *ssa.Lookup:
		return root(x.X, depth+1)
	case *ssa.UnOp:
		if x.Op == token.MUL {
			r := root(x.X, depth+1)
			if r == "local" {
				// load from a local cell: the stored value decides; stay conservative
				return localCell(x.X, depth+1)
			}
			return r
		}
		return "local"
	case *ssa.Slice:
		return root(x.X, depth+1)
	case *ssa.ChangeType:
		return root(x.X, depth+1)
	case *ssa.Convert:
		return root(x.X, depth+1)
	case *ssa.ChangeInterface:
		return root(x.X, depth+1)
	case *ssa.TypeAssert:
		return root(x.X, depth+1)
	case *ssa.Extract:
		return root(x.Tuple, depth+1)
	case *ssa.Phi:
		res := "local"
		for _, e := range x.Edges {
			if e == v {
				continue
			}
			r := root(e, depth+1)
			if r != "local" {
				res = r
			}
		}
		return res
	case *ssa.Call:
		// result of a call: append(x, ...) aliases x; other calls return fresh or unknown values
		if bi, ok := x.Call.Value.(*ssa.Builtin); ok && bi.Name() == "append" && len(x.Call.Args) > 0 {
			return root(x.Call.Args[0], depth+1)
		}
		if sf := x.Call.StaticCallee(); sf != nil && sf.Signature.Recv() != nil && len(x.Call.Args) > 0 {
			// a method result may alias its receiver (e.g. Key().GetBytes): classify by receiver
			r := root(x.Call.Args[0], depth+1)
			if r != "local" {
				return "result-of:" + r
			}
		}
		return "local"
	case *ssa.BinOp, *ssa.Next, *ssa.Range:
		return "local"
	}
	return "unknown"
}

// localCell: a value loaded from a local alloc; find what was stored there.
func localCell(addr ssa.Value, depth int) string {
	al, ok := addr.(*ssa.Alloc)
	if !ok {
		return "local"
	}
	res := "local"
	for _, ref := range *al.Referrers() {
		if st, ok := ref.(*ssa.Store); ok && st.Addr == al {
			r := root(st.Val, depth+1)
			if r != "local" {
				res = r
			}
		}
	}
	return res
}

func fieldName(t types.Type, i int) string {
	if p, ok := t.Underlying().(*types.Pointer); ok {
		t = p.Elem()
	}
	if s, ok := t.Underlying().(*types.Struct); ok && i < s.NumFields() {
		return s.Field(i).Name()
	}
	return fmt.Sprintf("#%d", i)
}
