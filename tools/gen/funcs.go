package main

// T11: function bodies. A shallow translation of selected pure Go functions (integers, byte slices, integer slices,
// booleans; assignments, index assignments, copy, make, slicing, if / switch, range loops with break / continue /
// return, calls of other translated functions, bytes.HasPrefix) into Gallina over coq/Lib/GoSem.v. Anything outside
// that fragment is refused with an error (the check then reports the translator as broken): nothing is guessed.
//
// The fragment is first lowered to a small IR (so that switch statements become if-chains), then printed in
// continuation style: every statement list becomes one term of type `res R` (function level), `res (ctl S R)` (loop
// body, S the tuple of outer variables the body assigns) or `res S` (a branch that falls through to a join).
// Assignment is modelled by rebinding the variable's identifier; every Go variable object gets an identifier of its
// own (a second `alg` in another branch becomes alg_2), so rebinding cannot confuse two variables.

import (
	"fmt"
	"go/ast"
	"go/constant"
	"go/token"
	"go/types"
	"os"
	"sort"
	"strings"
)

type funcTarget struct{ pkg, name string }

// the functions translated; each has an equivalence theorem with the hand model in coq/Model/FuncsProofs.v
var funcTargets = []funcTarget{
	{"key", "CrvAlg"},
	{"key", "Ops_Has"},
	{"key", "Ops_EmptyOrHas"},
	{"cose", "xorIV"},
	{"cose", "RemoveCBORTag"},
}

type term struct {
	s    string
	pure bool // pure: a Gallina value of the Go type; otherwise a term of type res T
}

func (t term) res() string {
	if t.pure {
		return "Ok (" + t.s + ")"
	}
	return t.s
}

type irStmt interface{}
type irBind struct {
	name string
	val  term
}
type irIf struct {
	cond      term
	then, els []irStmt
}
type irRange struct {
	key, val string // "" when absent
	over     term
	overName string // the ranged identifier, "" if not an identifier
	body     []irStmt
}
type irMatch struct {
	scrut string
	arms  []irArm
	def   []irStmt
}
type irArm struct {
	pat  string
	bind []string // names the pattern binds (enter the scope)
	body []irStmt
}
type irReturn struct{ val term }
type irBreak struct{}
type irContinue struct{}

type ftr struct {
	pi       pkgInfo
	all      []pkgInfo
	fd       *ast.FuncDecl
	tmp      int
	declared map[string]int
	byteVars map[string]string // coq name -> definition
	names    map[types.Object]string
	hdr      *hdrCtx // set while translating a header-logic slice (T12, slices.go)
	err      error
}

func (f *ftr) fail(n ast.Node, format string, a ...any) {
	if f.err == nil {
		pos := f.pi.p.Fset.Position(n.Pos())
		f.err = fmt.Errorf("%s:%d: %s", pos.Filename, pos.Line, fmt.Sprintf(format, a...))
	}
}

var coqReserved = map[string]bool{"at": true, "as": true, "in": true, "fun": true, "end": true, "match": true, "with": true, "if": true, "then": true, "else": true, "let": true,
	"fix": true, "kid": true, "has": true, "lookup": true, "forall": true, "exists": true, "Type": true, "Set": true, "Prop": true, "return": true, "using": true, "where": true, "do": true, "mod": true, "max": true, "min": true, "tt": true, "S": true, "O": true}

func coqName(s string) string {
	if coqReserved[s] {
		return s + "_"
	}
	return s
}

func (f *ftr) fresh() string {
	f.tmp++
	return fmt.Sprintf("t%d_", f.tmp)
}

func coqTypeOf(t types.Type) (string, bool) {
	switch u := t.Underlying().(type) {
	case *types.Basic:
		switch u.Kind() {
		case types.Int, types.UntypedInt:
			return "Z", true
		case types.Bool, types.UntypedBool:
			return "bool", true
		case types.Uint8:
			return "byte", true
		}
	case *types.Slice:
		if b, ok := u.Elem().Underlying().(*types.Basic); ok {
			switch b.Kind() {
			case types.Uint8:
				return "bytes", true
			case types.Int:
				return "(list Z)", true
			}
		}
	}
	return "", false
}

func isInt(t types.Type) bool {
	b, ok := t.Underlying().(*types.Basic)
	return ok && (b.Kind() == types.Int || b.Kind() == types.UntypedInt)
}
// isIntLike: int, and in the cwt validator slices uint64 (NumericDate values: only compared, never subtracted)
func (f *ftr) isIntLike(t types.Type) bool {
	if isInt(t) {
		return true
	}
	b, ok := t.Underlying().(*types.Basic)
	return ok && f.hdr != nil && f.hdr.cwt && b.Kind() == types.Uint64
}
func isByte(t types.Type) bool {
	b, ok := t.Underlying().(*types.Basic)
	return ok && b.Kind() == types.Uint8
}
func isBool(t types.Type) bool {
	b, ok := t.Underlying().(*types.Basic)
	return ok && (b.Kind() == types.Bool || b.Kind() == types.UntypedBool)
}

// bind makes a possibly effectful term usable as a value: returns the prelude ("do t <- ...;") and the value.
func (f *ftr) bind(t term) (string, string) {
	if t.pure {
		return "", t.s
	}
	n := f.fresh()
	return "do " + n + " <- " + t.s + "; ", n
}

func (f *ftr) typeOf(e ast.Expr) types.Type { return f.pi.p.TypesInfo.TypeOf(e) }

func (f *ftr) expr(e ast.Expr) term {
	info := f.pi.p.TypesInfo
	if t, ok := f.hdrExpr(e); ok {
		return t
	}
	if tv, ok := info.Types[e]; ok && tv.Value != nil {
		switch tv.Value.Kind() {
		case constant.Int:
			v, ok := constant.Int64Val(tv.Value)
			if !ok {
				f.fail(e, "integer constant out of range")
				return term{"0", true}
			}
			if isByte(tv.Type) {
				return term{fmt.Sprintf("(b8 %d%%N)", v), true}
			}
			return term{coqZ(v), true}
		case constant.Bool:
			if constant.BoolVal(tv.Value) {
				return term{"true", true}
			}
			return term{"false", true}
		}
	}
	switch x := e.(type) {
	case *ast.ParenExpr:
		return f.expr(x.X)
	case *ast.Ident:
		obj := info.ObjectOf(x)
		switch o := obj.(type) {
		case *types.Var:
			if o.Parent() == o.Pkg().Scope() {
				// package-level variable: only byte-slice literals that nothing assigns (checked by name in ShapesGen too)
				return term{f.pkgVar(x, o), true}
			}
			return term{f.nameOf(x), true}
		}
		f.fail(e, "unsupported identifier %s", x.Name)
	case *ast.BinaryExpr:
		l, r := f.expr(x.X), f.expr(x.Y)
		lt := f.typeOf(x.X)
		if x.Op == token.LAND || x.Op == token.LOR {
			if l.pure && r.pure {
				op := "&&"
				if x.Op == token.LOR {
					op = "||"
				}
				return term{"(" + l.s + " " + op + " " + r.s + ")", true}
			}
			pl, vl := f.bind(l)
			if x.Op == token.LOR {
				return term{"(" + pl + "if " + vl + " then Ok true else " + r.res() + ")", false}
			}
			return term{"(" + pl + "if " + vl + " then " + r.res() + " else Ok false)", false}
		}
		pl, vl := f.bind(l)
		pr, vr := f.bind(r)
		var s string
		switch {
		case f.isIntLike(lt):
			switch x.Op {
			case token.ADD:
				s = "(" + vl + " + " + vr + ")"
			case token.SUB:
				s = "(" + vl + " - " + vr + ")"
			case token.MUL:
				s = "(" + vl + " * " + vr + ")"
			case token.EQL:
				s = "(" + vl + " =? " + vr + ")"
			case token.NEQ:
				s = "(negb (" + vl + " =? " + vr + "))"
			case token.LSS:
				s = "(" + vl + " <? " + vr + ")"
			case token.LEQ:
				s = "(" + vl + " <=? " + vr + ")"
			case token.GTR:
				s = "(" + vr + " <? " + vl + ")"
			case token.GEQ:
				s = "(" + vr + " <=? " + vl + ")"
			}
		case isByte(lt):
			switch x.Op {
			case token.XOR:
				s = "(xor_byte " + vl + " " + vr + ")"
			case token.EQL:
				s = "(byte_eqb " + vl + " " + vr + ")"
			case token.NEQ:
				s = "(negb (byte_eqb " + vl + " " + vr + "))"
			}
		case isBool(lt):
			switch x.Op {
			case token.EQL:
				s = "(Bool.eqb " + vl + " " + vr + ")"
			case token.NEQ:
				s = "(negb (Bool.eqb " + vl + " " + vr + "))"
			}
		}
		if s == "" {
			f.fail(e, "unsupported operator %s on %s", x.Op, lt)
			return term{"0", true}
		}
		if pl == "" && pr == "" {
			return term{s, true}
		}
		return term{"(" + pl + pr + "Ok " + s + ")", false}
	case *ast.UnaryExpr:
		if x.Op == token.NOT {
			a := f.expr(x.X)
			p, v := f.bind(a)
			if p == "" {
				return term{"(negb " + v + ")", true}
			}
			return term{"(" + p + "Ok (negb " + v + "))", false}
		}
		if x.Op == token.SUB && isInt(f.typeOf(x.X)) {
			a := f.expr(x.X)
			p, v := f.bind(a)
			if p == "" {
				return term{"(- " + v + ")", true}
			}
			return term{"(" + p + "Ok (- " + v + "))", false}
		}
		f.fail(e, "unsupported unary operator %s", x.Op)
	case *ast.IndexExpr:
		a, i := f.expr(x.X), f.expr(x.Index)
		pa, va := f.bind(a)
		pi, vi := f.bind(i)
		return term{"(" + pa + pi + "go_idx " + va + " " + vi + ")", false}
	case *ast.SliceExpr:
		if x.Slice3 {
			f.fail(e, "three-index slice")
			break
		}
		a := f.expr(x.X)
		pa, va := f.bind(a)
		switch {
		case x.Low != nil && x.High == nil:
			pl, vl := f.bind(f.expr(x.Low))
			return term{"(" + pa + pl + "go_slice_from " + va + " " + vl + ")", false}
		case x.Low == nil && x.High != nil:
			ph, vh := f.bind(f.expr(x.High))
			return term{"(" + pa + ph + "go_slice_to " + va + " " + vh + ")", false}
		case x.Low != nil && x.High != nil:
			pl, vl := f.bind(f.expr(x.Low))
			ph, vh := f.bind(f.expr(x.High))
			return term{"(" + pa + pl + ph + "go_slice " + va + " " + vl + " " + vh + ")", false}
		}
		return a
	case *ast.CallExpr:
		return f.call(x)
	}
	f.fail(e, "unsupported expression %s", types.ExprString(e))
	return term{"0", true}
}

func (f *ftr) pkgVar(id *ast.Ident, o *types.Var) string {
	name := coqIdent(f.pi.short) + "_" + id.Name
	if _, ok := f.byteVars[name]; ok {
		return name
	}
	// find its declaration: a composite literal of constant bytes
	for _, file := range f.pi.p.Syntax {
		for _, d := range file.Decls {
			gd, ok := d.(*ast.GenDecl)
			if !ok || gd.Tok != token.VAR {
				continue
			}
			for _, sp := range gd.Specs {
				vs := sp.(*ast.ValueSpec)
				for i, n := range vs.Names {
					if f.pi.p.TypesInfo.Defs[n] != o || i >= len(vs.Values) {
						continue
					}
					cl, ok := vs.Values[i].(*ast.CompositeLit)
					if !ok {
						f.fail(id, "package variable %s is not a literal", id.Name)
						return name
					}
					var xs []string
					for _, el := range cl.Elts {
						v, ok := intConst(f.pi.p, el)
						if !ok || v < 0 || v > 255 {
							f.fail(id, "package variable %s: element is not a constant byte", id.Name)
							return name
						}
						xs = append(xs, fmt.Sprintf("%d", v))
					}
					f.byteVars[name] = "bytes_of_Z " + coqList(xs)
					return name
				}
			}
		}
	}
	f.fail(id, "declaration of package variable %s not found", id.Name)
	return name
}

func (f *ftr) call(x *ast.CallExpr) term {
	info := f.pi.p.TypesInfo
	switch fn := x.Fun.(type) {
	case *ast.Ident:
		if _, isBuiltin := info.ObjectOf(fn).(*types.Builtin); isBuiltin {
			switch fn.Name {
			case "len":
				p, v := f.bind(f.expr(x.Args[0]))
				if p == "" {
					return term{"(go_len " + v + ")", true}
				}
				return term{"(" + p + "Ok (go_len " + v + "))", false}
			case "make":
				if ct, ok := coqTypeOf(f.typeOf(x.Args[0])); ok && len(x.Args) == 2 && (ct == "bytes" || ct == "(list Z)") {
					p, v := f.bind(f.expr(x.Args[1]))
					mk := map[string]string{"bytes": "go_make", "(list Z)": "go_make_ints"}[ct]
					return term{"(" + p + mk + " " + v + ")", false}
				}
			}
			f.fail(x, "unsupported builtin call %s", types.ExprString(x))
			return term{"0", true}
		}
		if obj, ok := info.ObjectOf(fn).(*types.Func); ok {
			if name, ok := f.targetName(obj); ok {
				return f.callTarget(name, nil, x.Args)
			}
		}
	case *ast.SelectorExpr:
		if sel, ok := info.Selections[fn]; ok && sel.Kind() == types.MethodVal {
			if obj, ok := sel.Obj().(*types.Func); ok {
				if name, ok := f.targetName(obj); ok {
					return f.callTarget(name, fn.X, x.Args)
				}
			}
		}
		if obj, ok := info.ObjectOf(fn.Sel).(*types.Func); ok && obj.Pkg() != nil && obj.Pkg().Path() == "bytes" && obj.Name() == "HasPrefix" {
			pa, va := f.bind(f.expr(x.Args[0]))
			pb, vb := f.bind(f.expr(x.Args[1]))
			if pa == "" && pb == "" {
				return term{"(go_has_prefix " + va + " " + vb + ")", true}
			}
			return term{"(" + pa + pb + "Ok (go_has_prefix " + va + " " + vb + "))", false}
		}
	}
	f.fail(x, "unsupported call %s", types.ExprString(x))
	return term{"0", true}
}

func (f *ftr) targetName(obj *types.Func) (string, bool) {
	if obj.Pkg() == nil || !strings.HasPrefix(obj.Pkg().Path()+"/", modPath) {
		return "", false
	}
	short := strings.TrimPrefix(obj.Pkg().Path(), modPath)
	name := obj.Name()
	if sig, ok := obj.Type().(*types.Signature); ok && sig.Recv() != nil {
		r := sig.Recv().Type()
		if p, ok := r.(*types.Pointer); ok {
			r = p.Elem()
		}
		if n, ok := r.(*types.Named); ok {
			name = n.Obj().Name() + "_" + name
		}
	}
	for _, t := range funcTargets {
		if t.pkg == short && t.name == name {
			return coqIdent(short) + "_" + name, true
		}
	}
	return "", false
}

func (f *ftr) callTarget(name string, recv ast.Expr, args []ast.Expr) term {
	pre := ""
	s := name
	if recv != nil {
		p, v := f.bind(f.expr(recv))
		pre += p
		s += " " + v
	}
	for _, a := range args {
		p, v := f.bind(f.expr(a))
		pre += p
		s += " " + v
	}
	return term{"(" + pre + s + ")", false}
}

// ---- lowering to IR

// declare gives the variable an identifier of its own: a second variable of the same Go name (shadowing, or the same
// name in two branches) gets a numbered one, so that rebinding a name never confuses two variables.
func (f *ftr) declare(n ast.Node, name string) {
	id, ok := n.(*ast.Ident)
	if !ok || name == "_" {
		return
	}
	obj := f.pi.p.TypesInfo.Defs[id]
	if obj == nil {
		return
	}
	if _, done := f.names[obj]; done {
		return
	}
	f.declared[name]++
	cn := coqName(name)
	if f.declared[name] > 1 {
		cn = fmt.Sprintf("%s_%d", coqName(name), f.declared[name])
	}
	f.names[obj] = cn
}

// nameOf is the identifier of the variable an *ast.Ident refers to
func (f *ftr) nameOf(id *ast.Ident) string {
	if obj := f.pi.p.TypesInfo.ObjectOf(id); obj != nil {
		if n, ok := f.names[obj]; ok {
			return n
		}
	}
	return coqName(id.Name)
}

func rootIdent(e ast.Expr) *ast.Ident {
	switch x := e.(type) {
	case *ast.Ident:
		return x
	case *ast.SliceExpr:
		return rootIdent(x.X)
	case *ast.ParenExpr:
		return rootIdent(x.X)
	}
	return nil
}

func (f *ftr) lower(stmts []ast.Stmt) []irStmt {
	var out []irStmt
	for i := 0; i < len(stmts); i++ {
		var next ast.Stmt
		if i+1 < len(stmts) {
			next = stmts[i+1]
		}
		if ir, skip, ok := f.hdrStmt(stmts[i], next); ok {
			out = append(out, ir...)
			i += skip
			continue
		}
		out = append(out, f.lower1(stmts[i])...)
	}
	return out
}

func (f *ftr) lower1(s ast.Stmt) []irStmt {
	switch x := s.(type) {
	case *ast.BlockStmt:
		return f.lower(x.List)
	case *ast.DeclStmt:
		gd, ok := x.Decl.(*ast.GenDecl)
		if !ok || gd.Tok != token.VAR {
			break
		}
		var out []irStmt
		for _, sp := range gd.Specs {
			vs := sp.(*ast.ValueSpec)
			for i, n := range vs.Names {
				f.declare(n, n.Name)
				if i < len(vs.Values) {
					out = append(out, irBind{f.nameOf(n), f.expr(vs.Values[i])})
					continue
				}
				ct, ok := coqTypeOf(f.typeOf(n))
				zero := map[string]string{"Z": "0", "bool": "false", "bytes": "[]", "(list Z)": "[]"}[ct]
				if !ok || zero == "" {
					f.fail(n, "unsupported zero value of %s", f.typeOf(n))
				}
				out = append(out, irBind{f.nameOf(n), term{zero, true}})
			}
		}
		return out
	case *ast.AssignStmt:
		if len(x.Lhs) != 1 || len(x.Rhs) != 1 {
			f.fail(x, "multiple assignment")
			return nil
		}
		switch l := x.Lhs[0].(type) {
		case *ast.Ident:
			if l.Name == "_" {
				f.fail(x, "assignment to the blank identifier")
				return nil
			}
			rhs := f.expr(x.Rhs[0])
			if x.Tok == token.DEFINE {
				f.declare(l, l.Name)
			}
			if x.Tok != token.DEFINE && x.Tok != token.ASSIGN {
				rhs = f.opAssign(x, term{f.nameOf(l), true}, rhs, f.typeOf(l))
			}
			return []irStmt{irBind{f.nameOf(l), rhs}}
		case *ast.IndexExpr:
			root, ok := l.X.(*ast.Ident)
			if !ok {
				f.fail(x, "index assignment to something other than a variable")
				return nil
			}
			pi, vi := f.bind(f.expr(l.Index))
			rhs := f.expr(x.Rhs[0])
			if x.Tok != token.ASSIGN {
				cur := term{"(go_idx " + f.nameOf(root) + " " + vi + ")", false}
				rhs = f.opAssign(x, cur, rhs, f.typeOf(l))
			}
			pr, vr := f.bind(rhs)
			return []irStmt{irBind{f.nameOf(root), term{"(" + pi + pr + "go_set " + f.nameOf(root) + " " + vi + " " + vr + ")", false}}}
		}
		f.fail(x, "unsupported assignment target")
		return nil
	case *ast.IncDecStmt:
		if id, ok := x.X.(*ast.Ident); ok && isInt(f.typeOf(id)) {
			op := " + 1"
			if x.Tok == token.DEC {
				op = " - 1"
			}
			return []irStmt{irBind{f.nameOf(id), term{"(" + f.nameOf(id) + op + ")", true}}}
		}
	case *ast.ExprStmt:
		if c, ok := x.X.(*ast.CallExpr); ok {
			if id, ok := c.Fun.(*ast.Ident); ok && id.Name == "copy" && len(c.Args) == 2 {
				if _, isBuiltin := f.pi.p.TypesInfo.ObjectOf(id).(*types.Builtin); isBuiltin {
					dst := c.Args[0]
					off := term{"0", true}
					var root *ast.Ident
					switch d := dst.(type) {
					case *ast.Ident:
						root = d
					case *ast.SliceExpr:
						if r, ok := d.X.(*ast.Ident); ok && d.High == nil && !d.Slice3 {
							root = r
							if d.Low != nil {
								off = f.expr(d.Low)
							}
						}
					}
					if root == nil {
						f.fail(x, "copy into something other than v or v[lo:]")
						return nil
					}
					po, vo := f.bind(off)
					ps, vs := f.bind(f.expr(c.Args[1]))
					return []irStmt{irBind{f.nameOf(root), term{"(" + po + ps + "go_copy_at " + f.nameOf(root) + " " + vo + " " + vs + ")", false}}}
				}
			}
		}
	case *ast.IfStmt:
		var out []irStmt
		if x.Init != nil {
			out = append(out, f.lower([]ast.Stmt{x.Init})...)
		}
		var els []irStmt
		if x.Else != nil {
			els = f.lower([]ast.Stmt{x.Else})
		}
		return append(out, irIf{f.expr(x.Cond), f.lower(x.Body.List), els})
	case *ast.SwitchStmt:
		if x.Init != nil {
			f.fail(x, "switch with an init statement")
			return nil
		}
		var tagV string
		var pre []irStmt
		if x.Tag != nil {
			if !isInt(f.typeOf(x.Tag)) {
				f.fail(x, "switch on a non-integer")
				return nil
			}
			tagV = f.fresh()
			pre = append(pre, irBind{tagV, f.expr(x.Tag)})
		}
		var clauses []*ast.CaseClause
		var def *ast.CaseClause
		for _, c := range x.Body.List {
			cc := c.(*ast.CaseClause)
			for _, st := range cc.Body {
				if b, ok := st.(*ast.BranchStmt); ok && b.Tok == token.FALLTHROUGH {
					f.fail(b, "fallthrough")
				}
			}
			if cc.List == nil {
				def = cc
			} else {
				clauses = append(clauses, cc)
			}
		}
		var chain []irStmt
		if def != nil {
			chain = f.lowerCaseBody(def.Body)
		}
		for i := len(clauses) - 1; i >= 0; i-- {
			cc := clauses[i]
			var cond term
			for j, e := range cc.List {
				t := f.expr(e)
				if x.Tag != nil {
					p, v := f.bind(t)
					if p != "" {
						f.fail(e, "effectful case value")
					}
					t = term{"(" + tagV + " =? " + v + ")", true}
				}
				if j == 0 {
					cond = t
					continue
				}
				if cond.pure && t.pure {
					cond = term{"(" + cond.s + " || " + t.s + ")", true}
				} else {
					p, v := f.bind(cond)
					cond = term{"(" + p + "if " + v + " then Ok true else " + t.res() + ")", false}
				}
			}
			chain = []irStmt{irIf{cond, f.lowerCaseBody(cc.Body), chain}}
		}
		return append(pre, chain...)
	case *ast.RangeStmt:
		if x.Tok != token.DEFINE {
			f.fail(x, "range without :=")
			return nil
		}
		r := irRange{over: f.expr(x.X)}
		if id, ok := x.X.(*ast.Ident); ok {
			r.overName = f.nameOf(id)
		}
		if _, ok := f.typeOf(x.X).Underlying().(*types.Slice); !ok {
			f.fail(x, "range over something other than a slice")
			return nil
		}
		if id, ok := x.Key.(*ast.Ident); ok && id.Name != "_" {
			f.declare(id, id.Name)
			r.key = f.nameOf(id)
		}
		if x.Value != nil {
			if id, ok := x.Value.(*ast.Ident); ok && id.Name != "_" {
				f.declare(id, id.Name)
				r.val = f.nameOf(id)
			}
		}
		r.body = f.lower(x.Body.List)
		return []irStmt{r}
	case *ast.ReturnStmt:
		if len(x.Results) != 1 {
			f.fail(x, "return of %d values", len(x.Results))
			return nil
		}
		return []irStmt{irReturn{f.expr(x.Results[0])}}
	case *ast.BranchStmt:
		if x.Label != nil {
			f.fail(x, "labelled branch")
			return nil
		}
		switch x.Tok {
		case token.BREAK:
			return []irStmt{irBreak{}}
		case token.CONTINUE:
			return []irStmt{irContinue{}}
		}
	case *ast.EmptyStmt:
		return nil
	}
	f.fail(s, "unsupported statement")
	return nil
}

// a `break` directly inside a switch clause leaves the switch, not the loop: refuse rather than mistranslate
func (f *ftr) lowerCaseBody(body []ast.Stmt) []irStmt {
	for _, st := range body {
		ast.Inspect(st, func(n ast.Node) bool {
			switch b := n.(type) {
			case *ast.BranchStmt:
				if b.Tok == token.BREAK {
					f.fail(b, "break inside a switch clause")
				}
			case *ast.RangeStmt, *ast.ForStmt, *ast.FuncLit:
				return false
			}
			return true
		})
	}
	return f.lower(body)
}

func (f *ftr) opAssign(n *ast.AssignStmt, cur, rhs term, t types.Type) term {
	pc, vc := f.bind(cur)
	pr, vr := f.bind(rhs)
	var s string
	switch {
	case isInt(t) && n.Tok == token.ADD_ASSIGN:
		s = "(" + vc + " + " + vr + ")"
	case isInt(t) && n.Tok == token.SUB_ASSIGN:
		s = "(" + vc + " - " + vr + ")"
	case isByte(t) && n.Tok == token.XOR_ASSIGN:
		s = "(xor_byte " + vc + " " + vr + ")"
	default:
		f.fail(n, "unsupported assignment operator %s on %s", n.Tok, t)
		return rhs
	}
	if pc == "" && pr == "" {
		return term{s, true}
	}
	return term{"(" + pc + pr + "Ok " + s + ")", false}
}

// ---- printing

// hasJump: does the block contain a return / break / continue at any depth (outside nested loops for break / continue)
func hasJump(b []irStmt) bool {
	for _, s := range b {
		switch x := s.(type) {
		case irReturn:
			if !isErrReturn(x) {
				return true
			}
		case irBreak, irContinue:
			return true
		case irIf:
			if hasJump(x.then) || hasJump(x.els) {
				return true
			}
		case irRange:
			if hasReturn(x.body) {
				return true
			}
		}
	}
	return false
}

// returning an error needs no jump: Err propagates through every bind
func isErrReturn(r irReturn) bool { return r.val.s == "Err" && !r.val.pure }

func hasReturn(b []irStmt) bool {
	for _, s := range b {
		switch x := s.(type) {
		case irReturn:
			if isErrReturn(x) {
				continue
			}
			return true
		case irIf:
			if hasReturn(x.then) || hasReturn(x.els) {
				return true
			}
		case irRange:
			if hasReturn(x.body) {
				return true
			}
		}
	}
	return false
}

func terminates(b []irStmt) bool {
	if len(b) == 0 {
		return false
	}
	switch x := b[len(b)-1].(type) {
	case irReturn, irBreak, irContinue:
		return true
	case irIf:
		return terminates(x.then) && terminates(x.els)
	case irMatch:
		for _, a := range x.arms {
			if !terminates(a.body) {
				return false
			}
		}
		return terminates(x.def)
	}
	return false
}

// assigned: names bound in the block that are visible outside it (declared names are unique per function, so a name
// bound here and declared here is local; the caller filters by what is live outside)
func assigned(b []irStmt, acc map[string]bool) {
	for _, s := range b {
		switch x := s.(type) {
		case irBind:
			acc[x.name] = true
		case irIf:
			assigned(x.then, acc)
			assigned(x.els, acc)
		case irRange:
			assigned(x.body, acc)
		case irMatch:
			for _, a := range x.arms {
				assigned(a.body, acc)
			}
			assigned(x.def, acc)
		}
	}
}

func tuple(vars []string) string {
	switch len(vars) {
	case 0:
		return "tt"
	case 1:
		return vars[0]
	}
	return "(" + strings.Join(vars, ", ") + ")"
}
// tuplePat: the binder of the `do` notation (declared with `x pattern`, so no quote)
func tuplePat(vars []string) string {
	switch len(vars) {
	case 0:
		return "_"
	case 1:
		return vars[0]
	}
	return "(" + strings.Join(vars, ", ") + ")"
}

type kont struct {
	kind  int      // 0 function, 1 loop body, 2 join
	state []string // loop state / join variables
}

// emit prints a statement list followed by `rest` (already printed code that runs when the list falls through; "" when
// the list is the tail of its context).
func (f *ftr) emit(b []irStmt, k kont, scope map[string]bool) string {
	if len(b) == 0 {
		switch k.kind {
		case 1:
			return "Ok (CNext " + tuple(k.state) + ")"
		case 2, 3:
			return "Ok " + tuple(k.state)
		}
		f.err = firstErr(f.err, fmt.Errorf("%s: control reaches the end of the function without a return", f.fd.Name.Name))
		return "Panic"
	}
	rest := b[1:]
	switch x := b[0].(type) {
	case irBind:
		sc := withName(scope, x.name)
		if x.val.pure {
			return "let " + x.name + " := " + x.val.s + " in\n  " + f.emit(rest, k, sc)
		}
		return "do " + x.name + " <- " + x.val.s + ";\n  " + f.emit(rest, k, sc)
	case irReturn:
		if len(rest) > 0 {
			f.err = firstErr(f.err, fmt.Errorf("%s: statements after return", f.fd.Name.Name))
		}
		if isErrReturn(x) {
			// returning an error leaves the function whatever the nesting: Err propagates through every bind and loop
			return "Err"
		}
		switch k.kind {
		case 0:
			return x.val.res()
		case 1:
			p, v := f.bind(x.val)
			return "(" + p + "Ok (CRet " + v + "))"
		}
		if x.val.s == "Err" && !x.val.pure {
			// returning an error leaves the function whatever the nesting: Err propagates through every bind
			return "Err"
		}
		f.err = firstErr(f.err, fmt.Errorf("%s: return inside a branch that also falls through", f.fd.Name.Name))
		return "Panic"
	case irBreak, irContinue:
		if k.kind != 1 {
			f.err = firstErr(f.err, fmt.Errorf("%s: break / continue outside the directly enclosing loop body", f.fd.Name.Name))
			return "Panic"
		}
		if _, ok := x.(irBreak); ok {
			return "Ok (CBreak " + tuple(k.state) + ")"
		}
		return "Ok (CNext " + tuple(k.state) + ")"
	case irIf:
		p, c := f.bind(x.cond)
		tt, te := terminates(x.then), terminates(x.els)
		switch {
		case tt && te:
			if len(rest) > 0 {
				f.err = firstErr(f.err, fmt.Errorf("%s: unreachable statements after if", f.fd.Name.Name))
			}
			return "(" + p + "if " + c + " then " + f.emit(x.then, k, scope) + "\n  else " + f.emit(x.els, k, scope) + ")"
		case tt:
			return "(" + p + "if " + c + " then " + f.emit(x.then, k, scope) + "\n  else " + f.emit(append(append([]irStmt{}, x.els...), rest...), k, scope) + ")"
		case te:
			return "(" + p + "if " + c + " then " + f.emit(append(append([]irStmt{}, x.then...), rest...), k, scope) + "\n  else " + f.emit(x.els, k, scope) + ")"
		}
		if hasJump(x.then) || hasJump(x.els) {
			// a branch that may leave the function (or loop) from inside and may also fall through: continue each branch
			// with the rest of the list (the statements after the if are printed twice)
			return "(" + p + "if " + c + " then " + f.emit(append(append([]irStmt{}, x.then...), rest...), k, scope) + "\n  else " + f.emit(append(append([]irStmt{}, x.els...), rest...), k, scope) + ")"
		}
		// both fall through: join on the outer variables either branch assigns
		acc := map[string]bool{}
		assigned(x.then, acc)
		assigned(x.els, acc)
		var vars []string
		for n := range acc {
			if scope[n] {
				vars = append(vars, n)
			}
		}
		sort.Strings(vars)
		jk := kont{kind: 2, state: vars}
		return "do " + tuplePat(vars) + " <- (" + p + "if " + c + " then " + f.emit(x.then, jk, scope) + "\n    else " + f.emit(x.els, jk, scope) + ");\n  " + f.emit(rest, k, scope)
	case irMatch:
		// every arm is continued with the rest of the list (arms that return do not reach it)
		var bld strings.Builder
		bld.WriteString("match " + x.scrut + " with\n")
		for _, a := range x.arms {
			sc := scope
			for _, n := range a.bind {
				sc = withName(sc, n)
			}
			body := a.body
			if !terminates(body) {
				body = append(append([]irStmt{}, body...), rest...)
			}
			bld.WriteString("  | " + a.pat + " => " + f.emit(body, k, sc) + "\n")
		}
		def := x.def
		if !terminates(def) {
			def = append(append([]irStmt{}, def...), rest...)
		}
		bld.WriteString("  | _ => " + f.emit(def, k, scope) + "\n  end")
		return bld.String()
	case irRange:
		acc := map[string]bool{}
		assigned(x.body, acc)
		var vars []string
		for n := range acc {
			if scope[n] {
				vars = append(vars, n)
			}
		}
		sort.Strings(vars)
		if x.val != "" && x.overName != "" && acc[x.overName] {
			f.err = firstErr(f.err, fmt.Errorf("%s: the ranged slice is written in a loop that reads its elements", f.fd.Name.Name))
		}
		po, vo := f.bind(x.over)
		sc := scope
		for _, n := range []string{x.key, x.val} {
			if n != "" {
				sc = withName(sc, n)
			}
		}
		body := f.emit(x.body, kont{kind: 1, state: vars}, sc)
		keyN, valN := x.key, x.val
		if keyN == "" {
			keyN = "_"
		}
		var loop string
		if x.val != "" {
			loop = "go_range " + vo + " " + tuple(vars) + " (fun " + keyN + " " + valN + " " + tuplePat1(vars) + " =>\n    " + body + ")"
		} else {
			loop = "go_range_idx (go_len " + vo + ") " + tuple(vars) + " (fun " + keyN + " " + tuplePat1(vars) + " =>\n    " + body + ")"
		}
		r := f.fresh()
		var onRet string
		switch k.kind {
		case 0:
			onRet = "Ok v_"
		case 1:
			onRet = "Ok (CRet v_)"
		default:
			f.err = firstErr(f.err, fmt.Errorf("%s: loop inside a branch that falls through", f.fd.Name.Name))
			onRet = "Panic"
		}
		return po + "do " + r + " <- " + loop + ";\n  match " + r + " with\n  | inr v_ => " + onRet + "\n  | inl " + tupleMatch(vars) + " =>\n  " + f.emit(rest, k, scope) + "\n  end"
	}
	f.err = firstErr(f.err, fmt.Errorf("%s: unknown IR node", f.fd.Name.Name))
	return "Panic"
}

func tuplePat1(vars []string) string {
	switch len(vars) {
	case 0:
		return "_"
	case 1:
		return vars[0]
	}
	return "'(" + strings.Join(vars, ", ") + ")"
}
func tupleMatch(vars []string) string {
	switch len(vars) {
	case 0:
		return "_"
	case 1:
		return vars[0]
	}
	return "(" + strings.Join(vars, ", ") + ")"
}

func withName(scope map[string]bool, n string) map[string]bool {
	if scope[n] {
		return scope
	}
	m := map[string]bool{n: true}
	for k := range scope {
		m[k] = true
	}
	return m
}

func firstErr(a, b error) error {
	if a != nil {
		return a
	}
	return b
}

func genFuncs(ps []pkgInfo) (string, error) {
	var b strings.Builder
	b.WriteString("(* GENERATED by /verif/tools/gen (T11: function bodies) from the ldclabs/cose working tree. Do not edit. *)\n")
	b.WriteString("From Coq Require Import List ZArith Bool.\nFrom Coq Require Import Strings.Byte.\nFrom Cose Require Import Lib.Base Lib.GoSem.\nImport ListNotations.\nOpen Scope Z_scope.\n\n")
	byteVars := map[string]string{}
	var defs []string
	var varOrder []string
	for _, t := range funcTargets {
		var pi *pkgInfo
		for i := range ps {
			if ps[i].short == t.pkg {
				pi = &ps[i]
			}
		}
		if pi == nil {
			return "", fmt.Errorf("package %s not found", t.pkg)
		}
		var fd *ast.FuncDecl
		for _, file := range pi.p.Syntax {
			for _, d := range file.Decls {
				if x, ok := d.(*ast.FuncDecl); ok && x.Body != nil && funcName(x) == t.name {
					fd = x
				}
			}
		}
		if fd == nil {
			fmt.Fprintln(os.Stderr, "gen: T11:", t.pkg+"."+t.name, "not found")
			defs = append(defs, fmt.Sprintf("(* %s.%s — NOT FOUND in the source *)\nDefinition %s_%s : unit := tt.\n", t.pkg, t.name, coqIdent(t.pkg), t.name))
			continue
		}
		f := &ftr{pi: *pi, all: ps, fd: fd, declared: map[string]int{}, byteVars: byteVars, names: map[types.Object]string{}}
		scope := map[string]bool{}
		var params []string
		addParam := func(fl *ast.Field) {
			for _, n := range fl.Names {
				ct, ok := coqTypeOf(f.typeOf(n))
				if !ok {
					f.fail(n, "unsupported parameter type %s", f.typeOf(n))
				}
				f.declare(n, n.Name)
				scope[f.nameOf(n)] = true
				params = append(params, "("+f.nameOf(n)+" : "+ct+")")
			}
		}
		if fd.Recv != nil {
			for _, fl := range fd.Recv.List {
				if len(fl.Names) == 0 {
					f.fail(fl, "unnamed receiver")
				}
				addParam(fl)
			}
		}
		for _, fl := range fd.Type.Params.List {
			if len(fl.Names) == 0 {
				f.fail(fl, "unnamed parameter")
			}
			addParam(fl)
		}
		if fd.Type.Results == nil || len(fd.Type.Results.List) != 1 || len(fd.Type.Results.List[0].Names) > 0 {
			f.fail(fd, "exactly one unnamed result is supported")
		}
		rt := "unit"
		if f.err == nil {
			var ok bool
			rt, ok = coqTypeOf(f.typeOf(fd.Type.Results.List[0].Type))
			if !ok {
				f.fail(fd, "unsupported result type")
			}
		}
		sigOK := f.err == nil
		before := len(byteVars)
		ir := f.lower(fd.Body.List)
		body := f.emit(ir, kont{kind: 0}, scope)
		if f.err != nil {
			// outside the fragment: emit a definition on which the equivalence lemma of this function cannot hold, so that
			// only the properties resting on this function lose their proof (the check then searches for a failing input)
			fmt.Fprintln(os.Stderr, "gen: T11:", t.pkg+"."+t.name, "is outside the translated fragment:", f.err)
			if sigOK {
				// a definition of the right type on which the equivalence lemma cannot hold, so that the functions that call
				// this one still compile and only the lemmas about this function (and its callers) fail
				defs = append(defs, fmt.Sprintf("(* %s.%s — NOT TRANSLATED: %s *)\nDefinition %s_%s %s : res %s := Panic.\n", t.pkg, t.name, strings.ReplaceAll(f.err.Error(), "*)", "* )"), coqIdent(t.pkg), t.name, strings.Join(params, " "), rt))
			} else {
				defs = append(defs, fmt.Sprintf("(* %s.%s — NOT TRANSLATED: %s *)\nDefinition %s_%s : unit := tt.\n", t.pkg, t.name, strings.ReplaceAll(f.err.Error(), "*)", "* )"), coqIdent(t.pkg), t.name))
			}
			continue
		}
		if len(byteVars) != before {
			var ns []string
			for n := range byteVars {
				ns = append(ns, n)
			}
			sort.Strings(ns)
			for _, n := range ns {
				seen := false
				for _, o := range varOrder {
					if o == n {
						seen = true
					}
				}
				if !seen {
					varOrder = append(varOrder, n)
				}
			}
		}
		pos := pi.p.Fset.Position(fd.Pos())
		defs = append(defs, fmt.Sprintf("(* %s.%s — %s *)\nDefinition %s_%s %s : res %s :=\n  %s.\n", t.pkg, t.name, strings.TrimPrefix(pos.Filename, *repo+"/"), coqIdent(t.pkg), t.name, strings.Join(params, " "), rt, body))
	}
	// every package-level byte-slice literal of package cose is defined, whether or not a function above used it
	// (the header-logic slices of T12 refer to them too)
	for i := range ps {
		if ps[i].short != "cose" {
			continue
		}
		for _, file := range ps[i].p.Syntax {
			for _, d := range file.Decls {
				gd, ok := d.(*ast.GenDecl)
				if !ok || gd.Tok != token.VAR {
					continue
				}
				for _, sp := range gd.Specs {
					vs := sp.(*ast.ValueSpec)
					for j, n := range vs.Names {
						if j >= len(vs.Values) {
							continue
						}
						cl, ok := vs.Values[j].(*ast.CompositeLit)
						if !ok || !isByteSlice(ps[i].p.TypesInfo.TypeOf(n)) {
							continue
						}
						var xs []string
						good := true
						for _, el := range cl.Elts {
							v, ok := intConst(ps[i].p, el)
							if !ok || v < 0 || v > 255 {
								good = false
							}
							xs = append(xs, fmt.Sprintf("%d", v))
						}
						name := "cose_" + n.Name
						if _, have := byteVars[name]; good && !have {
							byteVars[name] = "bytes_of_Z " + coqList(xs)
							varOrder = append(varOrder, name)
						}
					}
				}
			}
		}
	}
	varOrder = varOrder[:0]
	for n := range byteVars {
		varOrder = append(varOrder, n)
	}
	sort.Strings(varOrder)
	for _, n := range varOrder {
		fmt.Fprintf(&b, "Definition %s : bytes := %s.\n", n, byteVars[n])
	}
	b.WriteString("\n")
	b.WriteString(strings.Join(defs, "\n"))
	return b.String(), nil
}
