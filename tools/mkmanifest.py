#!/usr/bin/env python3
"""Regenerates MANIFEST.json from the table below (run from /verif)."""
import json, os
V = os.path.dirname(os.path.dirname(os.path.abspath(__file__)))
CLAIMS = json.load(open(os.path.join(V, 'tools', 'claims.json')))
props = [json.loads(l) for l in open(os.path.join(V, 'properties.jsonl'))]
m = {
 "version": 1,
 "setup_cmd": "./check --setup",
 "hooks": {"guard": "verif", "enable": "no source hooks are used: every observable is reached through exported APIs, interfaces and crypto/rand.Reader; checks build /repo as it is",
           "baseline_off_cmd": "cd /repo && go test -vet=off -count=1 ./...", "source_commits": [], "add_only": True},
 "engines": [
  {"name": "coq", "path": "coq/", "serves_properties": sorted(CLAIMS), "kind_free_text": "Coq 8.16.1 development: model (Model/, Lib/), specifications (Spec/), regenerated facts (Gen/), property theorems (Props/)"},
  {"name": "gen", "path": "tools/gen/", "serves_properties": sorted(CLAIMS), "kind_free_text": "Go translator: source -> coq/Gen/*.v on every run"},
  {"name": "harness", "path": "harness/", "serves_properties": sorted(CLAIMS), "kind_free_text": "Go correspondence + property-directed harness; model side evaluated by coqc/vm_compute on case files"}],
 "checks": [], "not_applicable": [],
 "notes": "All checks: ./check <id> [--tier quick|thorough]; env VERIF_SEED, VERIF_TIER, VERIF_REPO. Known findings: known_findings.json. Design: DESIGN.md."
}
for p in props:
    i = p['id']
    if i in CLAIMS:
        c = CLAIMS[i]
        m['checks'].append({
            "property_id": i, "quick_cmd": "./check %s --tier quick" % i, "thorough_cmd": "./check %s --tier thorough" % i,
            "evidence_file": "evidence/%s.json" % i, "replay_cmd_template": "./check %s --replay {path}" % i, "engine": "coq",
            "level_claimed": {"category": "proof", "text": c['text'], "design_ref": c.get('design_ref', 'DESIGN.md section 7 ' + i)},
            "level_note": c['note'], "technique": c['technique']})
    else:
        m['not_applicable'].append({"property_id": i, "reason": "check not built yet in this commit (build in progress, DESIGN.md section 11); the technique applies"})
json.dump(m, open(os.path.join(V, 'MANIFEST.json'), 'w'), indent=1)
print('claimed:', len(m['checks']), 'unclaimed:', len(m['not_applicable']))
