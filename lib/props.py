"""Per-property check procedures."""
import json, os, re
import driver as D

CHECKS = {}


def check(name):
    def deco(f):
        CHECKS[name] = f
        return f
    return deco


def coq_print_blocks(out):
    """Split coqc output of `Print X.` commands into {X: text}."""
    res = {}
    cur = None
    for line in out.split('\n'):
        m = re.match(r'^([A-Z][A-Z0-9_]*) =\s*(.*)$', line)
        if m:
            cur = m.group(1)
            res[cur] = m.group(2)
        elif cur is not None:
            res[cur] += ' ' + line.strip()
    return res


# ------------------------------------------------------------------ C20

ENTRY = r'\("([A-Za-z0-9_]+)",\s*\("([^"]+)",\s*(CInt \(-\d+\)|CInt \d+|Unrecognized "[^"]*")\)'


@check('C20')
def c20(run):
    run.trusted += ['IANA snapshot coq/Spec/IanaSnapshot.v: hand transcription of the registries (no network), reviewed entry by entry']
    run.assumptions += ['the snapshot is the IANA assignment; constant names are matched by Go identifier']
    D.prove(run, extra_targets=['Model/IanaCheck.vo'])
    if run.tier == 'thorough' and not run.broken:
        D.coqchk(run, 'Cose.Props.C20')
    rc, out, dt = D.coqc_file(os.path.join(D.COQ, 'Diag', 'C20Diag.v'))
    if rc != 0:
        run.broke('diagnostics Diag/C20Diag.v do not evaluate', out[-1500:])
    else:
        b = coq_print_blocks(out)
        cnt = int(re.search(r'(\d+)', b.get('COUNT', '0')).group(1))
        run.cov['evaluations'] = cnt
        run.cov['distinct_nontrivial'] = cnt
        run.cov['rule'] = ('every exported constant of package iana, regenerated from the source by the translator, compared with the '
                           'snapshot value and pairwise inside its registry; each constant is one distinct case (finite domain, enumerated completely)')
        run.cov['exhaustive'] = True
        run.cov['samples'] = [{'constant': m[0], 'where': m[1], 'value': m[2], 'assigned': m[3]} for m in re.findall(ENTRY + r',\s*(Some \(-\d+\)|Some \d+|None)\)', b.get('SAMPLE', ''))]
        for m in re.finditer(ENTRY + r',\s*(Some \(-\d+\)|Some \d+|None)\)', b.get('BAD', '')):
            name, where, val, asg = m.groups()
            if asg == 'None':
                run.broke('constant %s (%s = %s) is not in the snapshot: the property is not shown for it' % (name, where, val))
            else:
                run.fail(op='iana-constant', what=name, input={'constant': name, 'where': where}, observed=val, expected=asg,
                         theorem='C20_iana_constants_assigned_and_distinct')
        # the same constants under every build tag of the sources
        for m in re.finditer(r'\("([^"]+)",\s*\("([^"]+)",\s*\("([^"]*(?:""[^"]*)*)",\s*"([^"]*(?:""[^"]*)*)"\)\)\)', b.get('TAGVAR', '')):
            tag, name, dv, tv = m.groups()
            run.fail(op='iana-constant-build-tag', what=name, input={'constant': name, 'build': 'go build -tags ' + tag + ' ./iana'}, observed='%s (default build: %s)' % (tv, dv),
                     expected='the assigned value under every build configuration', theorem='C20_same_constants_under_every_build_tag')
        # a constant the snapshot does not know, whose name puts it into a registry (it starts with the common prefix of
        # that registry's known constants in the same file): its value must not be taken inside that registry
        allc = [(m.group(1), m.group(2), m.group(3), m.group(4)) for m in re.finditer(ENTRY + r',\s*(Some "[^"]+"|None)\)', b.get('ALL', ''))]
        fam = {}
        for name, where, val, reg in allc:
            if reg != 'None':
                k = (where.split('#')[0], reg)
                fam[k] = name if k not in fam else os.path.commonprefix([fam[k], name])
        def reg_of(name, where, reg):
            if reg != 'None':
                return reg
            best = None
            for (f, r), pre in fam.items():
                if f == where.split('#')[0] and len(pre) >= 4 and name.startswith(pre) and (best is None or len(pre) > len(best[1])):
                    best = (r, pre)
            return 'Some ' + best[0][5:] if best else None
        seen_pairs = set()
        for n1, w1, v1, r1 in allc:
            if r1 != 'None':
                continue
            g1 = reg_of(n1, w1, r1)
            if g1 is None:
                continue
            for n2, w2, v2, r2 in allc:
                if n2 != n1 and v2 == v1 and reg_of(n2, w2, r2) == g1 and (n2, n1) not in seen_pairs:
                    seen_pairs.add((n1, n2))
                    run.fail(op='iana-collision', what=n1 + '/' + n2, input={'constants': [n1, n2], 'where': [w1, w2], 'registry': g1}, observed='both ' + v1,
                             expected='distinct values inside one registry', theorem='C20_iana_constants_assigned_and_distinct')
        for blk in ('COLL', 'BLOCKCOLL'):
            for m in re.finditer(ENTRY + r',\s*' + ENTRY + r'\)\)', b.get(blk, '')):
                g = m.groups()
                if g[0] < g[3]:
                    run.fail(op='iana-collision', what=g[0] + '/' + g[3], input={'constants': [g[0], g[3]], 'where': [g[1], g[4]]},
                             observed='both ' + g[2], expected='distinct values inside one registry',
                             theorem='C20_iana_constants_assigned_and_distinct')
    return D.finish(run, 'proof')


# ------------------------------------------------------------------ replay

def replay(prop, path):
    r = json.load(open(path))
    print(json.dumps(r, indent=1))
    f = r.get('failure') or {}
    if f.get('case'):
        rc, o, dt = D.run_harness(['replay', '-case', f['case']])
        print(o)
        return rc
    print('re-running the check for', prop)
    run = D.Run(prop, 'quick', r.get('seed', 1))
    return CHECKS[prop](run)


# ------------------------------------------------------------------ C18

@check('C18')
def c18(run):
    run.assumptions += ['now_ok: 1e10 <= seconds since year 1 <= 2^62 and normalised nanoseconds (every instant a real clock reports)',
                        'float64 Duration.Minutes() compared with 10 is modelled on the exact value (validated at the boundary by the correspondence)',
                        'FixedNow is set (time.Now() is not modelled)']
    run.trusted += ['Go time.Time arithmetic (Add with truncated division and saturation, After, IsZero, Unix) is modelled in coq/Model/Cwt.v and validated by the cwt correspondence',
                    'specification coq/Spec/RFC8392.v']
    D.prove(run, extra_targets=['Model/CwtCorr.vo'])
    rc, o = D.harness_build()
    if rc != 0:
        run.broke('harness build', o[-1500:])
    else:
        D.correspond(run, 'cwt', [])
    run.cov['rule'] = ('boundary lattice (0, now +/- skew +/- 2, 2^31, 2^32, 2^62, 2^63-62135596800 +/- 1, 2^63-1, 2^64-1) x option flags x skews incl. negative, '
                       'sub-second and MinInt64 x issuer/audience combinations x struct/map path with Go integer kinds, negatives, floats, text, null; '
                       'distinct_nontrivial = distinct (path, decision, flags, claim classes) keys')
    return D.finish(run, 'proof')


def dev(run, stream, targets):
    """development helper: build targets, run one correspondence stream, print mismatches"""
    ok, o = D.regenerate()
    rc, mlog = D.coq_make(targets)
    if rc != 0:
        print(mlog[-3000:])
        return 1
    rc, o = D.harness_build()
    if rc != 0:
        print(o[-3000:])
        return 1
    D.correspond(run, stream, [])
    for b in run.broken[:15]:
        print('BROKEN', b['what'], b['detail'][:600])
    for f in run.failures[:15]:
        print('FAIL', json.dumps(f)[:700])
    print('evaluations', run.cov['evaluations'], 'broken', len(run.broken), 'failures', len(run.failures))
    return 0


# ------------------------------------------------------------------ C16

@check('C16')
def c16(run):
    run.assumptions += ['crypto primitives (ed25519 public derivation, EC scalar multiplication, on-curve test) are universally quantified in the theorems; '
                        'in the correspondence they are instantiated with the values observed from Go crypto for each case',
                        'PARTIAL for the history clause: lists holding an operation foreign to the family that are installed after construction are finding F15']
    run.trusted += ['model of reflect kinds / key.Ops representations in coq/Model/GoVal.v and Model/Key.v (validated by the ops correspondence)']
    D.prove(run, extra_targets=['Model/KeyCorr.vo'])
    rc, o = D.harness_build()
    if rc != 0:
        run.broke('harness build', o[-1500:])
    else:
        D.correspond(run, 'ops', [])
    run.cov['rule'] = ('8 families x roles (create/verify, encrypt/decrypt, sign, verify with public or private key, ECDH) x key_ops lists (subsets of 1..10, foreign values, repeats; '
                       'thorough: all 1023 subsets) x 14 representations incl. malformed x histories of SetOps/operations after construction; '
                       'distinct_nontrivial = distinct (family, representation, built, list length) keys')
    return D.finish(run, 'proof')


# ------------------------------------------------------------------ C05

@check('C05')
def c05(run):
    run.assumptions += ['labels of header maps are Go `int` or string (the documented CoseMap contract; Set and the decoder normalise them)',
                        'the message layer is exercised with deterministic fake primitives that accept everything, so the algorithm check is the only gate']
    run.trusted += ['model of the header logic in coq/Model/MsgLogic.v (statement-by-statement transcription of WithSign/Compute/Encrypt/Verify/Decrypt, validated by the alg correspondence)']
    D.prove(run, extra_targets=['Model/MsgCorr.vo'])
    rc, o = D.harness_build()
    if rc != 0:
        run.broke('harness build', o[-1500:])
    else:
        D.correspond(run, 'alg', [])
        D.correspond(run, 'objhist', [], reference_theorem='C05_history_* (model of one message object over a history of calls and field edits)')
        D.oracle(run, 'reuse', [])
    run.cov['rule'] = ('5 single-key kinds x produce/consume x (header alg, key alg) over the 24 registered algorithms incl. pairs sharing key material x 11 header representations '
                       '(int, int64, uint64, key.Alg, int32, text, null, float, bytes, out-of-range, bool) x headers present/absent/nil; COSE_Sign with 1-3 signers and verifiers by kid; '
                       'thorough: all 24x24 ordered pairs x 5 kinds x 3 representations; stream reuse: a decoded message produced again by its owner with a key of a sibling algorithm (incl. the pairs sharing key bytes), before and after the protected header is edited in place: refused, resp. leaves the library naming the new key\'s algorithm and is accepted under that key only; stream objhist: random histories (3-11 steps) on ONE message object of the five single-key kinds: UnmarshalCBOR (own output, other histories\' output, mutated, empty-bucket messages), WithSign / Compute / Encrypt and Verify / Decrypt with two keys that often share their secret, MarshalCBOR, AddRecipient, in-place and replacing edits of Protected / Unprotected / Payload; the outcome of every call and the exported fields after every step compared with Model/MsgObj.v; after every history a fresh object must see empty maps for empty buckets')
    return D.finish(run, 'proof')


# ------------------------------------------------------------------ C06

@check('C06')
def c06(run):
    run.assumptions += ['H-rng: successive draws of crypto/rand are distinct (hypothesis NoDup draws of C06_fresh_nonces_distinct); the harness substitutes crypto/rand.Reader to observe that the draw is used verbatim',
                        'Decrypt = Encrypt nonce is proved on the header maps; its passage through CBOR is observed by the correspondence (and proved in C09)']
    run.trusted += ['model of Encrypt/Decrypt nonce selection and xorIV in coq/Model/Nonce.v (validated by the nonce correspondence with a recording fake encryptor)']
    D.prove(run, extra_targets=['Model/NonceCorr.vo'])
    rc, o = D.harness_build()
    if rc != 0:
        run.broke('harness build', o[-1500:])
    else:
        D.correspond(run, 'nonce', [], reference_theorem='C06_iv_verbatim / C06_partial_iv_rfc / C06_refusals / C06_random_published / C06_*_nonce_source_is_model (model of the nonce selection of Encrypt / Decrypt, proved = RFC 9052)')
        D.correspond(run, 'objhist', [], reference_theorem='C01_object_produce_is_functional / C06_* (one message object over a history: the IV chosen by Encrypt is the one published)')
        D.oracle(run, 'reuse', [])
    run.cov['rule'] = ('Encrypt0/Encrypt x nonce sizes 7/12/13 x IV, Partial IV, Base IV presences, lengths 0..20 and wrong types, with a known entropy stream and a recording encryptor (Encrypt and Decrypt); '
                       '12 real AEADs x nonce lengths 0..17; library-chosen nonces of fresh messages under real entropy (quick 3x4000, thorough 3x200000); stream reuse: an object encrypted once (library-chosen IV) given an IV by the caller and encrypted again, twice: the caller\'s IV is published and the message decrypts')
    return D.finish(run, 'proof')


# ------------------------------------------------------------------ C17

@check('C17')
def c17(run):
    run.assumptions += ['crypto primitives are universally quantified in the theorems and instantiated per case with values observed from Go crypto in the correspondence',
                        'behavioural interchangeability of round-tripped keys (signatures verify across forms, identical tags / AEAD outputs) is checked on the implementation by the dispatch stream; the theorem covers the decision logic (factories and gates) for values equal up to Go integer type',
                        'that a CBOR/JSON/text round trip yields a map equal up to integer type is C09 (and observed here)']
    run.trusted += ['registry specification coq/Spec/RFC9053.v (hand transcription of RFC 9053 tables and of the 28 registrations)']
    D.prove(run, extra_targets=['Model/DispatchCorr.vo', 'Model/TextCorr.vo'])
    rc, o = D.harness_build()
    if rc != 0:
        run.broke('harness build', o[-1500:])
    else:
        D.correspond(run, 'dispatch', [], reference_theorem='C17_triple_depends_only_on / C17_dispatch_registered_only / C17_obtain_meq (model of the four factories: the registration found by kty, alg, crv and that family\'s CheckKey)')
        D.correspond(run, 'text', [], reference_theorem='C17_key_roundtrip_interchangeable / C09_bytestr_*_roundtrip (model of the text and JSON forms of ByteStr, CoseMap, Key)')
        D.run_minlink(run, 'C17_impl_realises_alg')
    run.cov['rule'] = ('real keys of the 24 registered algorithms x {original, CBOR, JSON, text round trip} x alg present/absent x optional kid/key_ops, all four factories; '
                       'grid of (kty, alg, crv) triples incl. unregistered values and non-integer members; nil key; KeySet/Signers/Verifiers lookups incl. case-variant and non-UTF-8 ids')
    return D.finish(run, 'proof')


# ------------------------------------------------------------------ C11

@check('C11')
def c11(run):
    run.assumptions += ['Go crypto/hmac, crypto/sha256, crypto/sha512, crypto/aes and cipher.NewCBCEncrypter are modelled by the Gallina references; the mac correspondence compares them byte for byte (not verified)',
                        'unforgeability (a tag for other data or another key) is the usual MAC assumption; exactness of the comparison is proved']
    run.trusted += ['Gallina SHA-2/HMAC/AES/CBC-MAC in coq/Lib (constants computed from their definitions; validated against FIPS 180-4, RFC 4231, FIPS 197 vectors in Spec/Vectors.v)']
    D.prove(run, extra_targets=['Model/CryptoCorr.vo', 'Spec/Vectors.vo'])
    rc, o = D.harness_build()
    if rc != 0:
        run.broke('harness build', o[-1500:])
    else:
        D.correspond(run, 'mac', [], reference_theorem='C11_hmac_tag_is_rfc / C11_aesmac_is_cbcmac')
        D.run_minlink(run, 'C11_hmac_tag_is_rfc')
    run.cov['rule'] = ('8 MAC algorithms x random keys x message lengths 0..40 (every residue mod 16), neighbourhoods of 64/128, 4095..5000 (thorough: 0..400, 16384, 65535, 65536) '
                       'with tags compared to the Gallina reference; per message: truncated/extended/bit-flipped/empty tags, other data, other key; key sizes 0..65; SHA-2 digests vs Go')
    return D.finish(run, 'proof')


# ------------------------------------------------------------------ C13

@check('C13')
def c13(run):
    run.assumptions += ['golang.org/x/crypto/hkdf and Go AES/CBC are modelled by the Gallina references and compared byte for byte (not verified)',
                        'HKDF-SHA: the library delegates to x/crypto; the theorems are RFC 5869 properties of the specification it is compared with']
    run.trusted += ['Gallina HMAC-SHA-2, AES, CBC-MAC, HKDF in coq/Lib (validated on published vectors)']
    D.prove(run, extra_targets=['Model/CryptoCorr.vo'])
    rc, o = D.harness_build()
    if rc != 0:
        run.broke('harness build', o[-1500:])
    else:
        D.correspond(run, 'hkdf', [], reference_theorem='C13_reads_is_expand / C13_hkdf_sha (RFC 5869 reference)')
    run.cov['rule'] = ('HKDF-AES-128/256: info lengths covering every residue mod 16 (thorough: 0..200) x random chunkings of one reader x the 255-block limit in one read and across reads x bad secret sizes, '
                       "compared with the Gallina reference and (in Go) with RFC 5869 expand over the library's own AES-MAC; HKDF-SHA-256/512: random secret/salt/info (incl. empty), lengths 0..255*HashLen+1")
    return D.finish(run, 'proof')


# ------------------------------------------------------------------ C12

@check('C12')
def c12(run):
    run.assumptions += ['Go cipher.NewGCM / cipher.NewCTR / crypto/aes and x/crypto chacha20poly1305 are modelled by the Gallina references and compared byte for byte (not verified)',
                        'that a change of nonce, additional data or key makes decryption fail is the AEAD integrity assumption; what is proved is exactness: decryption succeeds only on the output of encryption for the same nonce/aad/key']
    run.trusted += ['Gallina AES, GCM (SP 800-38D), ChaCha20-Poly1305 (RFC 8439) references in coq/Lib, RFC 3610 specification in coq/Spec/RFC3610.v (validated on published vectors in Spec/Vectors.v)']
    D.prove(run, extra_targets=['Model/CryptoCorr.vo', 'Spec/Vectors.vo'])
    rc, o = D.harness_build()
    if rc != 0:
        run.broke('harness build', o[-1500:])
    else:
        D.correspond(run, 'aead', [], reference_theorem='C12_ccm_encrypt_is_reference (CCM) / Gallina GCM and ChaCha20-Poly1305 references')
    run.cov['rule'] = ('12 AEAD algorithms x random keys/nonces x plaintext lengths around block boundaries x AAD lengths 0..100 (CCM: 65279/65280 crossing the length encodings; thorough: 65278..70000, plaintext 65535/70000), '
                       'ciphertexts compared with the Gallina references; per message: bit flips of ciphertext/tag/nonce/aad/key, truncation, extension; nonce lengths 0..17; key sizes 0..40; plaintexts beyond the CCM limit')
    return D.finish(run, 'proof')


# ------------------------------------------------------------------ message layer: C08, C04, C02, C03

MSG_TRUST = ['Gallina CBOR codec coq/Lib/Cbor.v (encode / dec), Go-value decoding coq/Model/CborGo.v and wire-struct decoding coq/Model/Wire.v model fxamacker/cbor v2.7.0 as configured by key/cbor.go; compared with the implementation by the cbor / msg / msgparts streams, not verified',
             'transparent fake primitives of the msg stream (signature = secret || data; ciphertext = secret || nonce || aad || plaintext) are computed on both sides',
             'context strings, element lists, prefixes and arities of the structures are read from the source by the translator (Gen/StructsGen.v, Gen/ShapesGen.v)']


@check('C08')
def c08(run):
    run.trusted += MSG_TRUST
    run.assumptions += ['byte strings, arrays and maps are within the decoder limits (length < 2^63, at most 131072 elements, nesting at most 32): hypotheses `encodable` / `fits`',
                        'maps have pairwise distinct encoded keys (hypothesis `kd`): a Go map cannot hold a key twice; the same label under two Go integer types is refused by CoseMap.MarshalCBOR since 75d9c93 (nested map values: known finding F17)',
                        'time.Time values (tags 0 / 1) and maps keyed by something other than text or integers are kept opaque by the model']
    D.prove(run, extra_targets=['Model/CborCorr.vo', 'Model/MsgWireCorr.vo', 'Model/CwtCodecCorr.vo'])
    rc, o = D.harness_build()
    if rc != 0:
        run.broke('harness build', o[-1500:])
    else:
        D.correspond(run, 'claims', [], reference_theorem='C08_claims_strict (model of the CBOR form of cwt.Claims; duplicate keys at any depth refused also under unknown claims)')
        D.correspond(run, 'cbor', [], reference_theorem='C08_decode_encode / C08_duplicate_key_refused / C08_indefinite_refused (model of the CBOR library)')
        D.correspond(run, 'msgparts', [], reference_theorem='C08_labels / C08_wrong_arity_refused (header maps, recipients, KDF contexts)')
        D.correspond(run, 'c08probe', [], reference_theorem='C08_malformed_refused / C08_duplicate_key_refused_at_any_depth (typed payloads and members)')
    run.cov['rule'] = ('generated CBOR items (all head widths, any map order, depth to 3) decoded and re-encoded; per item one malformation: trailing bytes, truncation, indefinite length at a random position, reserved head, duplicate keys (also after integer normalisation, nested up to 2 levels), invalid UTF-8, nesting 30..34, counts beyond the limits, random bytes; '
                       'claim sets in struct form: produced, mutated and hand-made maps (member / foreign keys of every CBOR type, values of every type, repeated keys at depth) decoded, accepted ones scanned for duplicate keys by an independent walker; header maps with labels of several Go integer types, insertion orders and nested values encoded 3 ways and compared; one label under every pair of Go integer types; recipients (one nesting level, two refused), KDF contexts with nil/empty/non-empty members, label range probes; wrong-typed payload members of COSE_Mac0')
    return D.finish(run, 'proof')


@check('C04')
def c04(run):
    run.trusted += MSG_TRUST + ['stream msgreal: recording wrappers around the real Signer / Verifier / MACer / Encryptor of all 24 algorithms; the expected structure is written by the harness\'s own CBOR writer']
    run.assumptions += ['payload present (Some): a nil payload is written as CBOR null in the structure, as it is on the wire']
    D.prove(run, extra_targets=['Model/MsgWireCorr.vo'])
    rc, o = D.harness_build()
    if rc != 0:
        run.broke('harness build', o[-1500:])
    else:
        D.correspond(run, 'msg', [], reference_theorem='C04_*_structure (the model computes the structure; the fake signature embeds the bytes the implementation signed)')
        D.oracle(run, 'msgreal', [])
        D.oracle(run, 'realseq', [])
    run.cov['rule'] = ('6 message kinds x fake keys x header maps (int/text labels, nested values) x payload kinds (nil, empty, bytes up to 70000, RawMessage, typed) x external data (nil, empty, up to 256 bytes) produced and consumed; '
                       'foreign encodings with non-shortest heads / unsorted protected maps / explicit empty map, consumed and re-encoded; 24 real algorithms with recording wrappers: signed / MACed / AAD bytes compared with an independently written RFC 9052 structure on both directions')
    return D.finish(run, 'proof')


@check('C02')
def c02(run):
    run.trusted += MSG_TRUST
    run.assumptions += ['valid_only_for: a signature / tag is accepted only for the bytes it was computed over (unforgeability of the algorithm; exactness of HMAC / AES-MAC verification is C11)',
                        'byte strings shorter than 2^63 (hypotheses `small`)']
    D.prove(run, extra_targets=['Model/MsgWireCorr.vo'])
    rc, o = D.harness_build()
    if rc != 0:
        run.broke('harness build', o[-1500:])
    else:
        D.correspond(run, 'msg', [], reference_theorem='C02_*_binds (model of Verify for the 4 authenticated kinds)')
        D.oracle(run, 'msgreal', [])
        D.oracle(run, 'realseq', [])
    run.cov['rule'] = ('fake-primitive messages of the 4 authenticated kinds: wrong key, wrong external data, other-algorithm key, consumed as another kind, 12 mutation classes (bit flip, truncation, trailing, indefinite, arity, splice, tags, null, byte, drop), COSE_Sign with missing / reordered / no verifiers, empty and null signature lists; '
                       'real algorithms (ES256/384/512, EdDSA, 4 HMAC, 4 AES-MAC): 24..200 bit flips per message (thorough: every bit of short messages), truncation, extension, external data, other key, other kind, field splices between independently produced messages')
    return D.finish(run, 'proof')


@check('C03')
def c03(run):
    run.trusted += MSG_TRUST
    run.assumptions += ['opens_only_with: a ciphertext opens only under the nonce and additional data it was sealed with (AEAD integrity; exactness of CCM / GCM / ChaCha20-Poly1305 is C12)',
                        'that no plaintext is placed in the message object after a failed Decrypt is observed on the implementation by the msg stream (the model returns no view on failure)']
    D.prove(run, extra_targets=['Model/MsgWireCorr.vo'])
    rc, o = D.harness_build()
    if rc != 0:
        run.broke('harness build', o[-1500:])
    else:
        D.correspond(run, 'msg', [], reference_theorem='C03_*_binds (model of Decrypt)')
        D.correspond(run, 'objhist', [], reference_theorem='C01_object_consume_is_functional / C03_*_binds (one message object over a history: Decrypt reads the nonce material of its own object only)')
        D.oracle(run, 'msgreal', [])
        D.oracle(run, 'realseq', [])
    run.cov['rule'] = ('fake-primitive Encrypt0 / Encrypt messages: IV, Partial IV + Base IV, generated IV; wrong key, wrong external data, mutated encodings (12 classes), Payload inspected after every failed Decrypt; '
                       '12 real AEAD algorithms: bit flips over ciphertext / IV / protected bytes / tag prefix / array shape, truncation, extension, other key, other kind, splices; stream objhist: random histories (3-11 steps) on ONE message object of the five single-key kinds: UnmarshalCBOR (own output, other histories\' output, mutated, empty-bucket messages), WithSign / Compute / Encrypt and Verify / Decrypt with two keys that often share their secret, MarshalCBOR, AddRecipient, in-place and replacing edits of Protected / Unprotected / Payload; the outcome of every call and the exported fields after every step compared with Model/MsgObj.v; after every history a fresh object must see empty maps for empty buckets')
    return D.finish(run, 'proof')


@check('C09')
def c09(run):
    run.trusted += MSG_TRUST + ['stream values: encode / decode / compare on the implementation for keys, key sets, header maps, claim sets (struct and map forms), recipients, KDF contexts, ByteStr (CBOR, JSON, text)']
    run.assumptions += ['the bytes written for the unprotected header map decode (hypothesis of the still-verifies theorems; compared with the implementation by msgparts)',
                        'members within the decoder limits (`encodable`)']
    D.prove(run, extra_targets=['Model/MsgWireCorr.vo', 'Model/TextCorr.vo', 'Model/CwtCodecCorr.vo', 'Model/KeySetCorr.vo'])
    rc, o = D.harness_build()
    if rc != 0:
        run.broke('harness build', o[-1500:])
    else:
        D.correspond(run, 'claims', [], reference_theorem='C09_claims_roundtrip (model of the CBOR form of cwt.Claims)')
        D.correspond(run, 'keyset', [], reference_theorem='C09_keyset_roundtrip (model of the CBOR form of key.KeySet)')
        D.correspond(run, 'text', [], reference_theorem='C09_bytestr_text_roundtrip / C09_bytestr_json_roundtrip / C09_cosemap_*_as_cbor (model of the text and JSON forms)')
        D.correspond(run, 'msg', [], reference_theorem='C09_reencode_* (model of MarshalCBOR after UnmarshalCBOR)')
        D.correspond(run, 'objhist', [], reference_theorem='C09_consume_keeps_the_encoding (model of one message object over a history)')
        D.correspond(run, 'msgparts', [], reference_theorem='C09_decode_encode / C09_struct_members_roundtrip (header maps, recipients, KDF contexts)')
        D.oracle(run, 'values', [])
        D.oracle(run, 'realseq', [])
    run.cov['rule'] = ('every produced message of the 6 kinds decoded and re-encoded (bytes must be identical), in the three tagging forms; mutated and foreign (non-canonical, verifying) encodings re-encoded and consumed again; '
                       'recipients with one nesting level, KDF contexts with nil / empty / non-empty members, header maps; keys of all 24 algorithms and random key maps, key sets, claim sets in struct and map form, ByteStr in 3 forms: encode, decode, compare, encode again; stream objhist: random histories (3-11 steps) on ONE message object of the five single-key kinds: UnmarshalCBOR (own output, other histories\' output, mutated, empty-bucket messages), WithSign / Compute / Encrypt and Verify / Decrypt with two keys that often share their secret, MarshalCBOR, AddRecipient, in-place and replacing edits of Protected / Unprotected / Payload; the outcome of every call and the exported fields after every step compared with Model/MsgObj.v; after every history a fresh object must see empty maps for empty buckets')
    return D.finish(run, 'proof')


@check('C01')
def c01(run):
    run.trusted += MSG_TRUST + ['stream msgreal: the 24 real algorithms with generated keys, produced and consumed through the registry (Key.Signer / Verifier / MACer / Encryptor)']
    run.assumptions += ['functional correctness of the primitive pair (verify accepts what sign produced; decrypt opens what encrypt sealed): hypothesis of the theorems, observed for the 24 algorithms by msgreal',
                        'the two header maps decode from the bytes written for them (hypothesis; the CoseMap codec is compared with the implementation by msgparts)',
                        'multi-layer kinds (COSE_Sign, COSE_Mac, COSE_Encrypt): round trip by correspondence and oracle; theorems cover the tagging forms and dependence on the wire struct only']
    D.prove(run, extra_targets=['Model/MsgWireCorr.vo'])
    rc, o = D.harness_build()
    if rc != 0:
        run.broke('harness build', o[-1500:])
    else:
        D.correspond(run, 'msg', [], reference_theorem='C01_*_roundtrip (model of produce and consume)')
        D.correspond(run, 'objhist', [], reference_theorem='C01_object_*_is_functional (model of one message object over a history)')
        D.oracle(run, 'msgreal', [])
        D.oracle(run, 'realseq', [])
    run.cov['rule'] = ('6 kinds x fake keys (alg / kid / Base IV variants) x header maps (int / text labels of several Go integer types; int, bstr, tstr, bool, array, nested-map values) x payload kinds (nil, empty, bytes 1..70000 crossing every length-head class, RawMessage, typed) x external data (nil, empty, up to 256 bytes) x 0..3 recipients with one nesting level / 0..4 signers, consumed tagged, untagged and CWT-tagged; '
                       '24 real algorithms x 2 kinds each x payload lengths 0..1000 (thorough: 65535..70000) x headers x external data, consumed in the three forms with content compared; stream objhist: random histories (3-11 steps) on ONE message object of the five single-key kinds: UnmarshalCBOR (own output, other histories\' output, mutated, empty-bucket messages), WithSign / Compute / Encrypt and Verify / Decrypt with two keys that often share their secret, MarshalCBOR, AddRecipient, in-place and replacing edits of Protected / Unprotected / Payload; the outcome of every call and the exported fields after every step compared with Model/MsgObj.v; after every history a fresh object must see empty maps for empty buckets')
    return D.finish(run, 'proof')


@check('C10')
def c10(run):
    run.trusted += ['crypto/ecdsa, crypto/ed25519, crypto/elliptic (Go standard library): the elliptic-curve arithmetic is not modelled; it enters the theorems as arbitrary functions under the hypothesis prim_correct, and the sig oracle uses it as the independent implementation',
                    'Gallina SHA-2 (Lib/Sha2.v, FIPS 180-4 vectors) for the digest cases']
    run.assumptions += ['prim_correct: ECDSA signatures have r, s in [0, 256^size) and verify under the public point of the signing key',
                        'rejection of a changed signature is ECDSA\'s / EdDSA\'s own property (the pair (r, n - s) is a second valid ECDSA signature, not reachable by one bit flip except by accident); observed by the sig oracle over every bit (thorough) or 40 bits per signature (quick)']
    D.prove(run, extra_targets=['Model/Ecdsa.vo'])
    rc, o = D.harness_build()
    if rc != 0:
        run.broke('harness build', o[-1500:])
    else:
        D.correspond(run, 'sig', [], reference_theorem='C10_decode_encode / C10_encode_decode / C10_tables_are_rfc9053 (EncodeSignature, DecodeSignature, ComputeHash)')
    run.cov['rule'] = ('EncodeSignature / DecodeSignature on r, s in {0, 1, 255, 256, 2^k, n-1, n, n+1, 2^(8 size)-1, 2^(8 size), -1, random} for the 3 curves, signatures of 7 lengths; signatures with chosen r and s (1, 2, 3, size-1 leading zero octets in r and/or s: a point with chosen x, the public key computed as r^-1(sR - eG)) verified by the library under the uncompressed and compressed key; ComputeHash on block-boundary lengths; '
                       '3 ECDSA algorithms x keys from small scalars, scalars with leading zero bytes, coordinates with leading zero bytes x messages 0..1000 (thorough: 64 KiB) bytes: library signature verified by crypto/ecdsa with the prescribed hash, crypto/ecdsa signature verified by the library, under the derived / exported / compressed / private / Go-converted key; other data, other key, 6 other lengths, bit flips; Ed25519 compared byte for byte with crypto/ed25519')
    return D.finish(run, 'proof')


@check('C14')
def c14(run):
    run.trusted += ['crypto/ecdh (Go standard library): the Diffie-Hellman function is a parameter of the theorems; its symmetry is a hypothesis',
                    'Gallina curve arithmetic Lib/Curves.v (curve equation, decompression, Jacobian scalar multiplication, RFC 7748 ladder) validated on published vectors (Spec/CurveVectors.v) and against crypto/elliptic case by case',
                    'harness math/big implementation of affine Weierstrass arithmetic and the X25519 ladder: the independent computation of the shared secrets']
    run.assumptions += ['decompression returns the point that was compressed: hypothesis of C14_compressed_form_same_point, evaluated on concrete points by the ecdh stream',
                        'low-order X25519 points are refused by crypto/ecdh (all-zero shared secret): observed by the oracle']
    targets = ['Model/Ecdh.vo'] + (['Spec/CurveVectors.vo'] if run.tier == 'thorough' else [])
    D.prove(run, extra_targets=targets)
    rc, o = D.harness_build()
    if rc != 0:
        run.broke('harness build', o[-1500:])
    else:
        D.correspond(run, 'ecdh', [], reference_theorem='C14_* (model of KeyToPublic on the remote key: curve and encoded point, or refusal)')
    run.cov['rule'] = ('4 curves x key pairs (every third searched for a coordinate with a leading zero byte) x public-key encodings {uncompressed, compressed, compressed with stripped x, stripped coordinates, CBOR round trip} on both sides: both secrets equal and equal to the math/big computation; '
                       'invalid remote keys: private, other curve, off-curve y, compressed x that is no abscissa, x too long, x >= p, missing / text y, X25519 low-order and short points: an error, never a secret or a panic; KeyToPublic compared with the model on all of them; curve equation and decompression compared with crypto/elliptic')
    return D.finish(run, 'proof')


@check('C15')
def c15(run):
    run.trusted += ['crypto/ed25519, crypto/ecdsa, crypto/elliptic, crypto/ecdh (Go standard library): seed -> public key, d -> d*G, curve membership and decompression enter the theorems as the record C and the correspondence as observed values',
                    'stream keys: oracles on the implementation for generated keys of every type, conversions to and from Go key types, verifiers and key sets']
    run.assumptions += ['decompression returns the point with the given abscissa and parity when it is on the curve: hypothesis of C15_compressed_equivalent (observed case by case)',
                        'X25519 / P-curve ECDH key conversions (ecdh.ToPublicKey) are checked by oracle only; their model is part of C14']
    D.prove(run, extra_targets=['Model/KeyEnc.vo'])
    rc, o = D.harness_build()
    if rc != 0:
        run.broke('harness build', o[-1500:])
    else:
        D.correspond(run, 'keys', [], reference_theorem='C15_*_public_contents / C15_*_mismatch_refused / C15_coordinates_as_integers (models of ToPublicKey, NewSigner, NewVerifier)')
    run.cov['rule'] = ('ECDSA keys from chosen scalars (small, and with leading zero bytes) on the 3 curves x {as built, with fixed-length x,y, with zero-stripped x,y, wrong x, wrong y, CBOR round trip}: ToPublicKey, NewSigner compared with the model; public keys {fixed, stripped, compressed, compressed+stripped, other sign bit}: NewVerifier compared, signature verified; '
                       'Ed25519 {as built, with x, wrong x, with key_ops}; generated ECDH keys on 4 curves, symmetric keys of the 24 algorithms through the registry; derived keys, Verifier.Key() and Verifiers.KeySet() inspected for private or unexpected parameters; KeyToPrivate / KeyFromPrivate / KeyToPublic / KeyFromPublic inverses; emitted coordinate lengths')
    return D.finish(run, 'proof')


@check('C07')
def c07(run):
    run.trusted += MSG_TRUST + ['translator inventories Gen/ApiGen.v (exported API with the documented-to-panic naming rule; every index / slice / assertion / dereference / explicit panic / Must- call site)',
                                'stream nopanic: panics are caught per call; memory by runtime.MemStats.TotalAlloc, time by wall clock, with generous constants (64 MiB + 4 KiB per input byte, 5 s)']
    run.assumptions += ['the AEAD primitive itself does not panic (hypothesis of C07_decrypt_never_panics; proved for the library\'s CCM in C12, Go\'s GCM / ChaCha20-Poly1305 observed)',
                        'time and memory proportional to the input: observed by the nopanic stream only (the models are total by construction, which says nothing about running time)',
                        'nil receivers, nil maps and conversions from Go\'s own key objects are outside the property']
    D.prove(run, extra_targets=['Model/NoPanic.vo'])
    rc, o = D.harness_build()
    if rc != 0:
        run.broke('harness build', o[-1500:])
    else:
        D.correspond(run, 'nopanic', [], reference_theorem='C07_* (coverage of the API inventory by the driven entry points)')
        D.correspond(run, 'cbor', [], reference_theorem='C07_decode_never_panics (model of the CBOR library on malformed input)')
    run.cov['rule'] = ('57 byte-input entry points x {valid encodings of the 6 message kinds, keys of all 24 algorithms + 4 ECDH curves, key set, claims, KDF context, recipient; 6 (thorough 120) mutations of each; 90 odd-shaped well-formed items with null / wrong-typed members at every position; generated items; random bytes; JSON / text inputs; 1 MiB inputs}; '
                       'every key-to-implementation, conversion and accessor entry point x valid keys with each member replaced by 40 odd values or dropped; all 24 algorithms x argument lengths 0..4096 (thorough 70000) x wrong-size nonces, tags, signatures; coverage of the translator\'s API inventory checked in Coq')
    return D.finish(run, 'proof')


@check('C19')
def c19(run):
    run.trusted += ['translator T10: SSA store / map-update / copy effects per function, rooted at receiver fields, parameters and package-level variables (golang.org/x/tools/go/ssa); T3: Register call sites and their enclosing functions',
                    'Go race detector (go build -race) and the Go scheduler: the conc stream samples interleavings, it does not enumerate them',
                    'Go standard library objects held by the implementations (cipher.Block, cipher.AEAD, *ecdh.PrivateKey, hash constructors) are documented safe for concurrent use; not analysed']
    run.assumptions += ['partial: data-race freedom and schedule independence of the running code are observed (16 goroutines x thousands of operations under the race detector), not proved; the theorems cover write-freedom of the shared methods over the regenerated effect inventory and the interleaving argument for state-preserving operations',
                        'key.Key maps are not to be mutated (SetOps / SetKid / Set) while shared: those are writers by design and outside the property']
    D.prove(run, extra_targets=['Model/Conc.vo'])
    D.race_oracle(run, 'conc')
    run.cov['rule'] = ('one shared instance of each of the 24 algorithm implementations (obtained through the registry), of an ECDH object per curve, of the Key factories on a shared key, of one Validator and of shared Verifiers, each used by 16 goroutines x 120 (thorough 2500) operations over 32 inputs; deterministic results compared byte for byte with the sequential ones, randomised signatures verified; built and run with the Go race detector')
    return D.finish(run, 'proof', 'PARTIAL: write-freedom of the shared methods (over the regenerated SSA effect inventory) and the interleaving argument are theorems; data-race freedom and schedule independence of the running code are sampled by the conc stream under the Go race detector, not proved')
