"""check driver: regenerate -> prove -> correspond -> property-directed run -> decide -> evidence.

usage: check --setup
       check Cxx [--tier quick|thorough] [--replay FILE]
env:   VERIF_SEED (int), VERIF_TIER, VERIF_REPO (default /repo)
"""
import fcntl, glob, hashlib, json, os, re, shutil, subprocess, sys, time

VERIF = os.path.dirname(os.path.dirname(os.path.abspath(__file__)))
REPO = os.environ.get('VERIF_REPO', '/repo')
BUILD = os.path.join(VERIF, 'build')
COQ = os.path.join(VERIF, 'coq')
BIN = os.path.join(BUILD, 'bin')
GOENV = dict(os.environ, GOFLAGS='-mod=mod', GOPROXY='off', GOSUMDB='off', GOTOOLCHAIN='local',
             GONOSUMDB='*', GONOSUMCHECK='1', GOFLAGS_EXTRA='')
NCPU = 16

TRUSTED_BASE_COMMON = [
    'Coq 8.16.1 kernel (coqc; vm_compute used for finite facts; native_compute not used)',
    'translator /verif/tools/gen (go/packages + go/types + go/ssa v0.29.0) reading the working tree of ' + REPO,
    'correspondence: Go harness /verif/harness driving the real API; model evaluated inside Coq by vm_compute on harness-written case files (no extraction)',
]


def log(*a):
    print(*a, flush=True)


def sh(cmd, timeout=1800, cwd=None, env=None, shell=False):
    t0 = time.time()
    try:
        p = subprocess.run(cmd, cwd=cwd, env=env, shell=shell, stdout=subprocess.PIPE, stderr=subprocess.STDOUT,
                           timeout=timeout, text=True, errors='replace')
        return p.returncode, p.stdout, time.time() - t0
    except subprocess.TimeoutExpired as e:
        out = e.stdout or ''
        if isinstance(out, bytes):
            out = out.decode(errors='replace')
        return 124, out + '\n[timeout after %ds]' % timeout, time.time() - t0


class Lock:
    def __init__(self, name):
        os.makedirs(BUILD, exist_ok=True)
        self.path = os.path.join(BUILD, name + '.lock')

    def __enter__(self):
        self.f = open(self.path, 'w')
        fcntl.flock(self.f, fcntl.LOCK_EX)
        return self

    def __exit__(self, *a):
        fcntl.flock(self.f, fcntl.LOCK_UN)
        self.f.close()


def newest_mtime(paths):
    m = 0
    for p in paths:
        for root, _, files in os.walk(p):
            for f in files:
                m = max(m, os.path.getmtime(os.path.join(root, f)))
    return m


# ------------------------------------------------------------------ build steps

def build_gen_tool():
    src = os.path.join(VERIF, 'tools', 'gen')
    out = os.path.join(BIN, 'gen')
    if os.path.exists(out) and os.path.getmtime(out) >= newest_mtime([src]):
        return
    os.makedirs(BIN, exist_ok=True)
    rc, o, _ = sh(['go', 'build', '-o', out, '.'], cwd=src, env=GOENV, timeout=600)
    if rc != 0:
        raise SystemExit('FATAL: cannot build translator:\n' + o)


def regenerate():
    """Run the translator on the working tree. Returns (ok, output)."""
    with Lock('gen'):
        build_gen_tool()
        rc, o, dt = sh([os.path.join(BIN, 'gen'), '-repo', REPO, '-out', os.path.join(COQ, 'Gen')], timeout=600, env=GOENV)
    return rc == 0, o


def gen_diff_vs_baseline():
    """Names of Gen files that differ from the committed baseline (informational)."""
    base = os.path.join(VERIF, 'gen_baseline')
    out = []
    for f in sorted(glob.glob(os.path.join(COQ, 'Gen', '*.v'))):
        b = os.path.join(base, os.path.basename(f))
        if not os.path.exists(b) or open(b).read() != open(f).read():
            out.append(os.path.basename(f))
    return out


def coq_makefile():
    mk = os.path.join(COQ, 'Makefile.coq')
    cp = os.path.join(COQ, '_CoqProject')
    if not os.path.exists(mk) or os.path.getmtime(mk) < os.path.getmtime(cp):
        rc, o, _ = sh(['coq_makefile', '-f', '_CoqProject', '-o', 'Makefile.coq'], cwd=COQ)
        if rc != 0:
            raise SystemExit('FATAL: coq_makefile failed:\n' + o)


def coq_make(targets, timeout=3000):
    """Full .vo build of the targets (never -vos/-vok). Returns (rc, log)."""
    with Lock('coq'):
        coq_makefile()
        for c in glob.glob(os.path.join(COQ, '**', '.lia.cache'), recursive=True):
            try:
                os.remove(c)
            except OSError:
                pass
        rc, o, dt = sh(['make', '-f', 'Makefile.coq', '-j%d' % NCPU, '-k'] + targets, cwd=COQ, timeout=timeout)
    return rc, o


def coqc_file(path, timeout=1200, root=None):
    """Compile a stand-alone file (case file / diagnostics) against the built model (or the reference build)."""
    rc, o, dt = sh(['coqc', '-Q', root or COQ, 'Cose', '-w', '-notation-overridden,-deprecated-hint-without-locality', path],
                   cwd=os.path.dirname(path), timeout=timeout)
    return rc, o, dt


COQ_REF = os.path.join(BUILD, 'coq_ref')


def ensure_coq_ref():
    """The reference build: the Coq development with Gen/ taken from gen_baseline/ (the facts and function bodies
    regenerated from the pinned source, for which every proof checks). When the working tree no longer passes the
    proofs, a correspondence mismatch is judged against this build: the implementation disagreeing with the model that
    IS proved to satisfy the property is a concrete failing input; agreeing with it (a refactoring the translator does
    not follow) is not. Rebuilt only when the hand-written sources or gen_baseline change. Returns True when usable."""
    import hashlib
    h = hashlib.sha256()
    files = [f for f in sorted(glob.glob(os.path.join(COQ, '**', '*.v'), recursive=True))
             if os.sep + 'Gen' + os.sep not in f and os.sep + 'Diag' + os.sep not in f]
    files += sorted(glob.glob(os.path.join(VERIF, 'gen_baseline', '*.v'))) + [os.path.join(COQ, '_CoqProject')]
    for f in files:
        h.update(os.path.relpath(f, VERIF).encode())
        h.update(open(f, 'rb').read())
    stamp = h.hexdigest()
    sp = os.path.join(COQ_REF, '.stamp')
    with Lock('coqref'):
        if os.path.exists(sp) and open(sp).read() == stamp:
            return True
        os.makedirs(COQ_REF, exist_ok=True)
        sh(['rsync', '-a', '--delete', '--exclude', '*.vo', '--exclude', '*.vos', '--exclude', '*.vok', '--exclude', '*.glob', '--exclude', '*.aux',
            '--exclude', 'Makefile.coq*', '--exclude', '.stamp', '--exclude', '.lia.cache', COQ + '/', COQ_REF + '/'])
        for f in glob.glob(os.path.join(VERIF, 'gen_baseline', '*.v')):
            shutil.copy(f, os.path.join(COQ_REF, 'Gen', os.path.basename(f)))
        rc, o, _ = sh(['coq_makefile', '-f', '_CoqProject', '-o', 'Makefile.coq'], cwd=COQ_REF)
        if rc == 0:
            rc, o, _ = sh(['make', '-f', 'Makefile.coq', '-j%d' % NCPU], cwd=COQ_REF, timeout=7200)
        if rc != 0:
            log('reference build failed:\n' + o[-1500:])
            return False
        open(sp, 'w').write(stamp)
    return True


def harness_build():
    src = os.path.join(VERIF, 'harness')
    out = os.path.join(BIN, 'harness')
    os.makedirs(BIN, exist_ok=True)
    with Lock('harness'):
        # the module file is rewritten so that the replace directive points at the tree under test
        mod = open(os.path.join(src, 'go.mod.in')).read().replace('@REPO@', REPO)
        modpath = os.path.join(src, 'go.mod')
        if not os.path.exists(modpath) or open(modpath).read() != mod:
            open(modpath, 'w').write(mod)
        sums = ''
        for s in (os.path.join(REPO, 'go.sum'), os.path.join(src, 'go.sum.extra')):
            if os.path.exists(s):
                sums += open(s).read()
        open(os.path.join(src, 'go.sum'), 'w').write(sums)
        rc, o, dt = sh(['go', 'build', '-o', out, '.'], cwd=src, env=GOENV, timeout=900)
    return rc, o


def coqchk(run, module, timeout=3600):
    """Independent re-check of a compiled module and everything it depends on; records the axiom summary."""
    rc, o, dt = sh(['coqchk', '-silent', '-o', '-Q', '.', 'Cose', module], cwd=COQ, timeout=timeout)
    summary = o[o.find('CONTEXT SUMMARY'):] if 'CONTEXT SUMMARY' in o else o[-800:]
    run.notes['coqchk'] = {'module': module, 'rc': rc, 'wall_s': round(dt, 1), 'summary': ' '.join(summary.split())[:600]}
    if rc != 0:
        run.broke('coqchk rejects %s' % module, o[-1500:])
    elif 'Axioms: <none>' not in ' '.join(summary.split()):
        run.broke('coqchk reports axioms under %s' % module, summary[-1500:])
    return rc


def race_oracle(run, stream, timeout=3000):
    """Build the harness with the Go race detector and run one stream under it: oracle failures as usual, and every
    data race the detector reports becomes a failure with the report as the observation."""
    src = os.path.join(VERIF, 'harness')
    out = os.path.join(BIN, 'harness_race')
    rc, o = harness_build()
    if rc != 0:
        run.broke('harness build', o[-1500:])
        return None
    with Lock('harness'):
        rc, o, dt = sh(['go', 'build', '-race', '-o', out, '.'], cwd=src, env=GOENV, timeout=1800)
    if rc != 0:
        run.broke('harness build with the race detector', o[-1500:])
        return None
    env = dict(GOENV)
    env['GORACE'] = 'halt_on_error=0 exitcode=0'
    rc, o, dt = sh([out, stream, '-seed', str(run.seed), '-tier', run.tier, '-out', run.outdir], cwd=BUILD, env=env, timeout=timeout)
    meta_p = os.path.join(run.outdir, stream + '.json')
    if rc != 0 or not os.path.exists(meta_p):
        # the Go runtime stops the process on unsynchronised map access ("fatal error: concurrent map ..."): that, and any
        # race report printed before it, is the observation
        m = re.search(r'fatal error: (concurrent map[^\n]*)', o)
        if m or 'WARNING: DATA RACE' in o:
            what = m.group(1) if m else 'data race'
            body = o[o.find('WARNING: DATA RACE'):] if 'WARNING: DATA RACE' in o else o[o.find('fatal error:'):]
            frames = [l.strip() for l in body.split('\n') if 'github.com/ldclabs/cose' in l or 'main.' in l]
            run.fail(source='race:' + stream, op='data-race', what='the Go runtime / race detector stopped the stream: ' + what,
                     input=' | '.join(frames[:6])[:800], observed=body.strip()[:1500], expected='no unsynchronised access', case=' | '.join(frames[:4])[:300])
            run.notes['race_detector'] = {'stream': stream, 'crashed': True, 'wall_s': round(dt, 1)}
            return None
        run.broke('harness stream %s failed under the race detector (rc=%d)' % (stream, rc), o[-1500:])
        return None
    meta = json.load(open(meta_p))
    run.cov['evaluations'] += meta.get('evaluations', 0)
    run.cov['distinct_nontrivial'] += meta.get('distinct_nontrivial', 0)
    run.notes.setdefault('input_distribution', {})[stream] = meta.get('distribution', {})
    for f in meta.get('failures', []):
        run.fail(source='oracle:' + stream, **f)
    reports = o.split('WARNING: DATA RACE')[1:]
    seen = set()
    for r in reports:
        body = r.split('==================')[0]
        frames = [l.strip() for l in body.split('\n') if 'github.com/ldclabs/cose' in l or 'main.' in l]
        keyf = ' | '.join(frames[:4])
        if keyf in seen:
            continue
        seen.add(keyf)
        run.fail(source='race:' + stream, op='data-race', what='the race detector reports an unsynchronised access', input=keyf[:600],
                 observed=body.strip()[:1500], expected='no data race', case=keyf[:300])
    run.notes['race_detector'] = {'stream': stream, 'reports': len(reports), 'wall_s': round(dt, 1)}
    return meta


def run_minlink(run, theorem):
    """Minimal-link probes: programs importing a single algorithm package (configuration dimension of C07/C11/C17)."""
    src = os.path.join(VERIF, 'harness')
    for name in ('hmaconly', 'ecdsaonly'):
        with Lock('harness'):
            rc, o, dt = sh(['go', 'run', './minlink/' + name], cwd=src, env=GOENV, timeout=600)
        run.cov['evaluations'] += 1
        lines = [l for l in o.split('\n') if l.startswith('FAIL')]
        if rc != 0 and not lines:
            run.broke('minimal-link probe %s does not build/run' % name, o[-800:])
        for l in lines[:4]:
            run.fail(source='oracle:minlink', op='minimal-link', what='binary importing only one algorithm package: ' + name,
                     input='go run ./minlink/%s (in /verif/harness)' % name, observed=l, expected='OK', theorem=theorem)


def run_harness(args, timeout=1800):
    env = dict(GOENV)
    rc, o, dt = sh([os.path.join(BIN, 'harness')] + args, cwd=BUILD, env=env, timeout=timeout)
    return rc, o, dt


# ------------------------------------------------------------------ proof log parsing

def theorems_in(props_file):
    src = open(props_file).read()
    return re.findall(r'^\s*Theorem\s+([A-Za-z0-9_\']+)', src, re.M)


def parse_assumptions(output, names):
    """Map theorem name -> 'closed' | [axioms] from the coqc output of a Props file.
    Print Assumptions results appear in file order."""
    blocks = []
    lines = output.split('\n')
    i = 0
    while i < len(lines):
        l = lines[i]
        if l.startswith('Closed under the global context'):
            blocks.append('closed')
        elif l.startswith('Axioms:'):
            ax = []
            i += 1
            while i < len(lines) and (lines[i].startswith(' ') or lines[i].strip() == '' or ':' in lines[i]) and not lines[i].startswith('Closed') and not lines[i].startswith('Axioms:'):
                if lines[i].strip():
                    m = re.match(r'^([A-Za-z0-9_.\']+)\s*:', lines[i])
                    if m:
                        ax.append(m.group(1))
                i += 1
            blocks.append(ax)
            continue
        i += 1
    res = {}
    for n, b in zip(names, blocks):
        res[n] = b
    return res, len(blocks)


def enclosing_lemma(path, line):
    try:
        src = open(path).read().split('\n')
    except OSError:
        return None
    for i in range(min(line, len(src)) - 1, -1, -1):
        m = re.match(r'^\s*(?:Local\s+|Global\s+)?(Theorem|Lemma|Corollary|Example|Fact|Definition|Fixpoint|Instance)\s+([A-Za-z0-9_\']+)', src[i])
        if m:
            return m.group(2)
    return None


def broken_obligations(makelog):
    out = []
    for m in re.finditer(r'File "\./([^"]+)", line (\d+), characters [\d-]+:\s*\nError:\s*((?:.|\n)*?)(?:\n\n|\nmake|$)', makelog):
        f, ln, msg = m.group(1), int(m.group(2)), m.group(3)
        out.append({'file': 'coq/' + f, 'line': ln, 'lemma': enclosing_lemma(os.path.join(COQ, f), ln),
                    'error': ' '.join(msg.split())[:400]})
    return out


FORBIDDEN = re.compile(r'\b(Admitted|admit|Axiom|Axioms|Parameter|Parameters|Conjecture|Conjectures|Hypothesis|Variable|Variables|Hypotheses)\b|Unset\s+Guard|bypass_check|Admit\s+Obligations|type-in-type|impredicative-set')


def strip_comments(src):
    out = []
    depth = 0
    i = 0
    instr = False
    while i < len(src):
        if not instr and src.startswith('(*', i):
            depth += 1
            i += 2
            continue
        if not instr and depth > 0 and src.startswith('*)', i):
            depth -= 1
            i += 2
            continue
        if depth == 0:
            if src[i] == '"':
                instr = not instr
            out.append(src[i])
        elif src[i] == '\n':
            out.append('\n')
        i += 1
    return ''.join(out)


def hygiene():
    """No Admitted/admit/Axiom/Parameter/Conjecture anywhere; Variable/Hypothesis only inside a Section."""
    bad = []
    for f in sorted(glob.glob(os.path.join(COQ, '**', '*.v'), recursive=True)):
        src = strip_comments(open(f).read())
        depth = 0
        for n, line in enumerate(src.split('\n'), 1):
            code = re.sub(r'"[^"]*"', '""', line)
            if re.match(r'^\s*Section\s', code):
                depth += 1
            if re.match(r'^\s*End\s', code) and depth > 0:
                depth -= 1
            for m in FORBIDDEN.finditer(code):
                w = m.group(0)
                if w in ('Hypothesis', 'Variable', 'Variables', 'Hypotheses') and depth > 0:
                    continue
                bad.append('%s:%d: %s' % (os.path.relpath(f, VERIF), n, w))
    return bad


# ------------------------------------------------------------------ evidence / decision

def load_known():
    p = os.path.join(VERIF, 'known_findings.json')
    if os.path.exists(p):
        return json.load(open(p))
    return {'findings': [], 'fixed': []}


def finding_matches(finding, prop, failure):
    if finding.get('property') != prop:
        return False
    pat = finding.get('match', {})
    for k, v in pat.items():
        if not re.search(v, str(failure.get(k, ''))):
            return False
    return True


def write_replay(prop, n, obj):
    d = os.path.join(BUILD, 'replay')
    os.makedirs(d, exist_ok=True)
    p = os.path.join(d, '%s-%d.json' % (prop, n))
    json.dump(obj, open(p, 'w'), indent=1)
    return p


def repo_commit():
    rc, o, _ = sh(['git', '-C', REPO, 'rev-parse', 'HEAD'])
    rc2, o2, _ = sh(['git', '-C', REPO, 'status', '--porcelain'])
    return o.strip() + ('+dirty' if o2.strip() else '')


class Run:
    """State of one check run."""

    def __init__(self, prop, tier, seed):
        self.prop, self.tier, self.seed = prop, tier, seed
        self.t0 = time.time()
        self.failures = []      # concrete failing inputs on the implementation
        self.broken = []        # broken proof obligations / correspondences (names)
        self.cov = {'evaluations': 0, 'distinct_nontrivial': 0, 'samples': [], 'rule': ''}
        self.notes = {}
        self.assumptions = []
        self.obligations = 0
        self.discharged = 0
        self.checker_cmd = ''
        self.trusted = list(TRUSTED_BASE_COMMON)
        self.theorem_status = {}
        self.outdir = os.path.join(BUILD, 'runs', '%s-%s-%d' % (prop, tier, os.getpid()))
        os.makedirs(self.outdir, exist_ok=True)

    def fail(self, **kw):
        self.failures.append(kw)

    def broke(self, what, detail=''):
        self.broken.append({'what': what, 'detail': detail})


def prove(run, extra_targets=()):
    """Steps 1+2: regenerate, then build Props/<prop>.vo (full .vo) and read Print Assumptions."""
    ok, o = regenerate()
    if not ok:
        run.broke('translator', o[-2000:])
        return False
    props = os.path.join(COQ, 'Props', run.prop + '.v')
    names = theorems_in(props)
    run.obligations = len(names)
    vo = props + 'o'
    if os.path.exists(vo):
        os.remove(vo)   # force Print Assumptions output into this run's log
    targets = ['Props/%s.vo' % run.prop] + list(extra_targets)
    run.checker_cmd = 'cd /verif/coq && coq_makefile -f _CoqProject -o Makefile.coq && make -f Makefile.coq -j16 ' + ' '.join(targets)
    rc, mlog = coq_make(targets)
    open(os.path.join(run.outdir, 'make.log'), 'w').write(mlog)
    bad = hygiene()
    if bad:
        run.broke('hygiene', '; '.join(bad[:20]))
    if rc != 0:
        for b in broken_obligations(mlog):
            run.broke('proof %s (%s:%d)' % (b['lemma'], b['file'], b['line']), b['error'])
        if not run.broken:
            run.broke('coq build', mlog[-1500:])
        return False
    status, nblocks = parse_assumptions(mlog, names)
    run.theorem_status = status
    allowed = set(AXIOMS_ALLOWED)
    disc = 0
    for n in names:
        st = status.get(n)
        if st == 'closed':
            disc += 1
        elif isinstance(st, list) and all(a in allowed for a in st):
            disc += 1
        else:
            run.broke('theorem %s: Print Assumptions = %r' % (n, st))
    run.discharged = disc
    return not run.broken


# standard-library axioms that may appear (each is named in DESIGN.md section 9 when it does)
AXIOMS_ALLOWED = []


def correspond(run, stream, hargs, timeout=1800, reference_theorem=None):
    """Step 3: harness writes <stream>_cases.v (observed outcomes); Coq evaluates the model on the
    same inputs and prints the mismatching case indices."""
    proofs_broken = any(str(b.get('what', '')).startswith(('proof ', 'translator', 'coq build', 'theorem ', 'hygiene')) for b in run.broken)
    os.makedirs(run.outdir, exist_ok=True)
    rc, o, dt = run_harness([stream, '-seed', str(run.seed), '-tier', run.tier, '-out', run.outdir] + hargs, timeout=timeout)
    meta_p = os.path.join(run.outdir, stream + '.json')
    if rc != 0 or not os.path.exists(meta_p):
        run.broke('harness stream %s failed (rc=%d)' % (stream, rc), o[-1500:])
        return None
    meta = json.load(open(meta_p))
    run.cov['evaluations'] += meta.get('evaluations', 0)
    run.cov['distinct_nontrivial'] += meta.get('distinct_nontrivial', 0)
    run.cov['samples'] += (meta.get('samples') or [])[:4]
    run.notes.setdefault('input_distribution', {})[stream] = meta.get('distribution', {})
    for f in meta.get('failures', []):
        run.fail(source='oracle:' + stream, **f)
    mism = []
    from concurrent.futures import ThreadPoolExecutor
    cfs = meta.get('case_files', [])

    def one(cf):
        return cf, coqc_file(os.path.join(run.outdir, cf), timeout=timeout)
    with ThreadPoolExecutor(max_workers=min(12, max(1, len(cfs)))) as ex:
        results = list(ex.map(one, cfs))
    unevaluated = []
    for cf, (rc, out, dt) in results:
        if rc != 0:
            run.broke('correspondence %s: case file %s does not evaluate' % (stream, cf), out[-1500:])
            unevaluated.append(cf)
            continue
        m = re.search(r'MISMATCHES\s*=\s*(\[[^\]]*\])', out.replace('\n', ' '))
        if not m:
            run.broke('correspondence %s: no result in coqc output' % stream, out[-800:])
            continue
        idx = [int(x) for x in re.findall(r'\d+', m.group(1))]
        for i in idx:
            mism.append((cf, i))
    # when the proofs of this run do not hold (or the regenerated model does not even evaluate), the mismatches are judged
    # against the reference build (ensure_coq_ref): only a disagreement with THAT model is a claim about the implementation
    ref_mism = None
    if reference_theorem and (proofs_broken or unevaluated) and (mism or unevaluated) and ensure_coq_ref():
        ref_mism = set()
        rd = os.path.join(run.outdir, 'ref_' + stream)
        os.makedirs(rd, exist_ok=True)
        todo = sorted(set([cf for cf, _ in mism] + unevaluated))

        def one_ref(cf):
            shutil.copy(os.path.join(run.outdir, cf), os.path.join(rd, cf))
            return cf, coqc_file(os.path.join(rd, cf), timeout=timeout, root=COQ_REF)
        with ThreadPoolExecutor(max_workers=min(12, max(1, len(todo)))) as ex:
            for cf, (rc, out, dt) in ex.map(one_ref, todo):
                m = re.search(r'MISMATCHES\s*=\s*(\[[^\]]*\])', out.replace('\n', ' ')) if rc == 0 else None
                if m:
                    for i in re.findall(r'\d+', m.group(1)):
                        ref_mism.add((cf, int(i)))
        for cf, i in sorted(ref_mism):
            if (cf, i) not in mism:
                mism.append((cf, i))
    cases = meta.get('cases', {})
    for cf, i in mism:
        c = cases.get(cf, [])
        line = c[i] if i < len(c) else '?'
        run.broke('correspondence %s: model and implementation differ' % stream, 'case %s#%d: %s' % (cf, i, line))
        if reference_theorem and (ref_mism is not None and (cf, i) in ref_mism or ref_mism is None and not proofs_broken):
            # the model side of this stream is the proved reference value: a disagreement is a concrete input on
            # which the implementation's output is not the reference (only while every proof of this run holds: a model
            # regenerated from source the translator no longer understands is not a reference, and a disagreement with
            # it is reported as the broken correspondence it is, without a claim about the implementation)
            run.fail(source='correspondence:' + stream, op=stream + '-reference', what='implementation output differs from the proved reference',
                     input=line, observed='see the case line (observed outcome recorded by the harness)', expected='the value of the Coq reference model on the same input' + (' (reference build: the model instantiated from the pinned source, for which every proof checks)' if ref_mism is not None else ''),
                     case=line, theorem=reference_theorem)
        run.notes.setdefault('mismatches', []).append({'stream': stream, 'file': cf, 'index': i, 'case': line})
    run.notes.setdefault('correspondence', {})[stream] = {'cases': meta.get('evaluations', 0), 'mismatches': len(mism)}
    return meta


def oracle(run, stream, hargs, timeout=1800):
    """Step 4: property-directed run on the implementation only (no Coq involved)."""
    rc, o, dt = run_harness([stream, '-seed', str(run.seed), '-tier', run.tier, '-out', run.outdir] + hargs, timeout=timeout)
    meta_p = os.path.join(run.outdir, stream + '.json')
    if rc != 0 or not os.path.exists(meta_p):
        run.broke('harness stream %s failed (rc=%d)' % (stream, rc), o[-1500:])
        return None
    meta = json.load(open(meta_p))
    run.cov['evaluations'] += meta.get('evaluations', 0)
    run.cov['distinct_nontrivial'] += meta.get('distinct_nontrivial', 0)
    run.cov['samples'] += (meta.get('samples') or [])[:4]
    run.notes.setdefault('input_distribution', {})[stream] = meta.get('distribution', {})
    for f in meta.get('failures', []):
        run.fail(source='oracle:' + stream, **f)
    return meta


def finish(run, level='proof', level_note=''):
    """Step 5+6: classify, print, write evidence, return exit code."""
    known = load_known()
    printed_known = []
    violations = []
    for f in run.failures:
        hit = None
        for k in known.get('findings', []):
            if finding_matches(k, run.prop, f):
                hit = k
                break
        if hit:
            if hit['id'] not in printed_known:
                printed_known.append(hit['id'])
                log('KNOWN-FINDING: property=%s %s' % (run.prop, hit['description']))
        else:
            violations.append(f)
    rc = 0
    n = 0
    if violations:
        # one replay per distinct failing operation (cap the noise)
        seen = set()
        for f in violations:
            key = (f.get('op'), f.get('what'))
            if key in seen:
                continue
            seen.add(key)
            n += 1
            if n > 5:
                break
            p = write_replay(run.prop, n, {'property': run.prop, 'kind': 'failing-input', 'repo': REPO, 'repo_commit': repo_commit(),
                                           'seed': run.seed, 'tier': run.tier, 'failure': f, 'broken': run.broken,
                                           'how_to_replay': './check %s --replay <this file>' % run.prop})
            log('VIOLATION property=%s replay=%s' % (run.prop, p))
        rc = 1
    elif run.broken:
        p = write_replay(run.prop, 1, {'property': run.prop, 'kind': 'no-failing-input-found', 'repo': REPO, 'repo_commit': repo_commit(),
                                       'seed': run.seed, 'tier': run.tier, 'broken': run.broken,
                                       'note': 'the named theorem / correspondence no longer checks; the search found no input on which the implementation violates the property'})
        log('VIOLATION property=%s replay=%s no-failing-input-found' % (run.prop, p))
        rc = 1
    cov = dict(run.cov)
    cov['samples'] = (cov['samples'] or [])[:12]
    cov.update({'obligations': run.obligations, 'discharged': run.discharged, 'checker_cmd': run.checker_cmd,
                'trusted_base': run.trusted})
    th = [{'theorem': k, 'assumptions': ('Closed under the global context' if v == 'closed' else v)} for k, v in run.theorem_status.items()]
    cov['theorems'] = th
    if th and not cov['samples']:
        cov['samples'] = th[:6]
    else:
        cov['samples'] = cov['samples'] + th[:3]
    cov['gen_diff_vs_baseline'] = gen_diff_vs_baseline()
    cov['known_findings_printed'] = printed_known
    cov['broken'] = run.broken[:20]
    cov.update(run.notes)
    ev = {'property_id': run.prop, 'tier': run.tier, 'seed': run.seed, 'level': level, 'coverage': cov,
          'assumptions': run.assumptions, 'wall_s': round(time.time() - run.t0, 2), 'violations': len(violations) + (1 if (run.broken and not violations) else 0),
          'repo': REPO, 'repo_commit': repo_commit()}
    os.makedirs(os.path.join(VERIF, 'evidence'), exist_ok=True)
    json.dump(ev, open(os.path.join(VERIF, 'evidence', run.prop + '.json'), 'w'), indent=1)
    log('%s: %s obligations=%d discharged=%d evaluations=%d failures=%d broken=%d wall=%.1fs' % (
        run.prop, 'OK' if rc == 0 else 'FAIL', run.obligations, run.discharged, cov['evaluations'], len(violations), len(run.broken), time.time() - run.t0))
    shutil.rmtree(run.outdir, ignore_errors=True)
    return rc


# ------------------------------------------------------------------ entry points

def setup():
    t0 = time.time()
    ok, o = regenerate()
    if not ok:
        log(o)
        return 1
    rc, o = harness_build()
    if rc != 0:
        log(o)
        return 1
    rc, o = coq_make(['all'], timeout=7200)
    tail = '\n'.join([l for l in o.split('\n') if not l.startswith('COQC') and not l.startswith('COQDEP')][-30:])
    log(tail)
    if rc != 0:
        log('setup: coq build FAILED')
        return 1
    bad = hygiene()
    if bad:
        log('setup: hygiene: ' + '; '.join(bad))
        return 1
    if not gen_diff_vs_baseline() and not ensure_coq_ref():
        return 1
    log('setup ok in %.0fs' % (time.time() - t0))
    return 0


def main(argv):
    import props
    if not argv or argv[0] in ('-h', '--help'):
        print(__doc__)
        return 2
    if argv[0] == '--setup':
        return setup()
    prop = argv[0]
    tier = os.environ.get('VERIF_TIER', 'quick')
    replay = None
    i = 1
    while i < len(argv):
        if argv[i] == '--tier':
            tier = argv[i + 1]
            i += 2
        elif argv[i] == '--replay':
            replay = argv[i + 1]
            i += 2
        else:
            i += 1
    if tier not in ('quick', 'thorough'):
        tier = 'quick'
    try:
        seed = int(os.environ.get('VERIF_SEED', '1'))
    except ValueError:
        seed = 1
    if prop not in props.CHECKS:
        log('unknown property ' + prop)
        return 2
    if replay:
        return props.replay(prop, replay)
    run = Run(prop, tier, seed)
    return props.CHECKS[prop](run)
