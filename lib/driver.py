import sys
def main(argv):
    print("setup: nothing to build yet"); return 0
