(* Design-phase feasibility probe for C11/C12/C13 (not part of the framework):
   executable AES-128/192/256 encryption in Gallina. The S-box is computed from
   its definition (inverse in GF(2^8) followed by the affine map), not
   transcribed; the cipher is validated against the FIPS-197 appendix C vectors
   by vm_compute. *)
From Coq Require Import NArith List.
Import ListNotations.
Open Scope N_scope.

Definition xtime (a : N) : N :=
  let b := N.shiftl a 1 in if N.testbit b 8 then N.lxor (N.land b 255) 27 else b.
Fixpoint gmul_aux (fuel : nat) (a b acc : N) : N :=
  match fuel with
  | O => acc
  | S f => gmul_aux f (xtime a) (N.shiftr b 1) (if N.testbit b 0 then N.lxor acc a else acc)
  end.
Definition gmul (a b : N) : N := gmul_aux 8 a b 0.
Fixpoint gpow (a : N) (e : nat) : N := match e with O => 1 | S e' => gmul a (gpow a e') end.
Definition ginv (a : N) : N := gpow a 254.
Definition rotl8 (x k : N) : N := N.land (N.lor (N.shiftl x k) (N.shiftr x (8 - k))) 255.
Definition sbox_def (a : N) : N :=
  let b := ginv a in
  N.lxor (N.lxor (N.lxor (N.lxor (N.lxor b (rotl8 b 1)) (rotl8 b 2)) (rotl8 b 3)) (rotl8 b 4)) 99.
Definition sbox_table : list N := Eval vm_compute in map (fun i => sbox_def (N.of_nat i)) (seq 0 256).
Definition sbox (a : N) : N := nth (N.to_nat a) sbox_table 0.

(* state: 16 bytes, column-major as in FIPS-197 (byte i = row i mod 4, column i / 4) *)
Definition sub_bytes (s : list N) := map sbox s.
Definition shift_rows (s : list N) : list N :=
  map (fun i : nat => nth (Nat.modulo (Nat.add i (Nat.mul 4 (Nat.modulo i 4))) 16) s 0) (seq 0 16).
Definition mix_col (c : list N) : list N :=
  match c with
  | [a0; a1; a2; a3] =>
    [ N.lxor (N.lxor (N.lxor (gmul 2 a0) (gmul 3 a1)) a2) a3;
      N.lxor (N.lxor (N.lxor a0 (gmul 2 a1)) (gmul 3 a2)) a3;
      N.lxor (N.lxor (N.lxor a0 a1) (gmul 2 a2)) (gmul 3 a3);
      N.lxor (N.lxor (N.lxor (gmul 3 a0) a1) a2) (gmul 2 a3) ]
  | _ => c
  end.
Definition mix_columns (s : list N) : list N :=
  flat_map (fun j : nat => mix_col (firstn 4 (skipn (Nat.mul 4 j) s))) (seq 0 4).
Definition xor_l (a b : list N) := map (fun p => N.lxor (fst p) (snd p)) (combine a b).

(* key expansion: words as 4-byte lists *)
Definition sub_word := map sbox.
Definition rot_word (w : list N) := match w with a :: t => t ++ [a] | [] => [] end.
Fixpoint rcon (i : nat) : N := match i with O => 1 | S i' => xtime (rcon i') end.
(* ws: words so far, newest LAST *)
Fixpoint expand (fuel i nk : nat) (ws : list (list N)) : list (list N) :=
  match fuel with
  | O => ws
  | S f =>
    let prev := nth (Nat.sub i 1) ws [] in
    let back := nth (Nat.sub i nk) ws [] in
    let t := if Nat.eqb (Nat.modulo i nk) 0 then xor_l (sub_word (rot_word prev)) [rcon (Nat.sub (Nat.div i nk) 1); 0; 0; 0]
             else if andb (Nat.ltb 6 nk) (Nat.eqb (Nat.modulo i nk) 4) then sub_word prev else prev in
    expand f (S i) nk (ws ++ [xor_l back t])
  end.
Definition words4 (k : list N) : list (list N) :=
  map (fun j : nat => firstn 4 (skipn (Nat.mul 4 j) k)) (seq 0 (Nat.div (length k) 4)).
Definition round_keys (key : list N) : list (list N) :=
  let nk := Nat.div (length key) 4 in let nr := Nat.add nk 6 in
  let ws := expand (Nat.sub (Nat.mul 4 (S nr)) nk) nk nk (words4 key) in
  map (fun r : nat => concat (firstn 4 (skipn (Nat.mul 4 r) ws))) (seq 0 (S nr)).

Definition aes_encrypt_block (key blk : list N) : list N :=
  match round_keys key with
  | [] => blk
  | k0 :: ks =>
    let s0 := xor_l blk k0 in
    let nr := length ks in
    let mid := firstn (Nat.sub nr 1) ks in
    let s1 := fold_left (fun s k => xor_l (mix_columns (shift_rows (sub_bytes s))) k) mid s0 in
    xor_l (shift_rows (sub_bytes s1)) (last ks [])
  end.

Definition hexl (l : list N) := l.
Definition pt := map N.of_nat (map (fun i : nat => Nat.mul 17 i) (seq 0 16)).        (* 00 11 22 ... ff *)
Definition k128 := map N.of_nat (seq 0 16).
Definition k192 := map N.of_nat (seq 0 24).
Definition k256 := map N.of_nat (seq 0 32).

Example sbox_00 : sbox 0 = 99 /\ sbox 83 = 237 /\ sbox 255 = 22. Proof. vm_compute. auto. Qed.
Example fips197_c1 : aes_encrypt_block k128 pt =
  [0x69;0xc4;0xe0;0xd8;0x6a;0x7b;0x04;0x30;0xd8;0xcd;0xb7;0x80;0x70;0xb4;0xc5;0x5a].
Proof. vm_compute. reflexivity. Qed.
Example fips197_c2 : aes_encrypt_block k192 pt =
  [0xdd;0xa9;0x7c;0xa4;0x86;0x4c;0xdf;0xe0;0x6e;0xaf;0x70;0xa0;0xec;0x0d;0x71;0x91].
Proof. vm_compute. reflexivity. Qed.
Example fips197_c3 : aes_encrypt_block k256 pt =
  [0x8e;0xa2;0xb7;0xca;0x51;0x67;0x45;0xbf;0xea;0xfc;0x49;0x90;0x4b;0x49;0x60;0x89].
Proof. vm_compute. reflexivity. Qed.

(* CBC-MAC with zero IV and zero padding, as in CbcMacProbe, instantiated *)
Fixpoint blocks (n : nat) (l : list N) : list (list N) :=
  match n with O => [] | S n' => firstn 16 l :: blocks n' (skipn 16 l) end.
Definition zero_pad (m : list N) : list N :=
  let x := Nat.modulo (length m) 16 in m ++ repeat 0 (if Nat.eqb x 0 then O else Nat.sub 16 x).
Definition cbc_mac (key m : list N) : list N :=
  let p := zero_pad m in
  fold_left (fun mac b => aes_encrypt_block key (xor_l mac b)) (blocks (Nat.div (length p) 16) p) (repeat 0 16%nat).
(* AES-MAC-128/64 of "x" under the all-zero key, to be compared with the library *)
Eval vm_compute in firstn 8 (cbc_mac (repeat 0 16%nat) [120]).
Eval vm_compute in cbc_mac (repeat 0 16%nat) (repeat 7 33%nat).
Time Eval vm_compute in length (cbc_mac (repeat 0 16%nat) (repeat 7 4096%nat)).
