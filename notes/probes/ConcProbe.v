(* Design-phase feasibility probe for C19 (not part of the framework):
   threads are resumptions over a shared heap; under ANY schedule, if every
   thread is write-free then the heap never changes, every thread computes the
   result it computes when run alone, and the event trace contains no write,
   hence no data race. *)
From Coq Require Import List Arith Lia.
Import ListNotations.

Section Conc.
  Variables loc val res : Type.
  Variable loc_eqb : loc -> loc -> bool.

  Inductive prog :=
  | Ret (r : res)
  | Rd (l : loc) (k : val -> prog)
  | Wr (l : loc) (v : val) (k : prog).

  Definition heap := loc -> val.
  Definition upd (h : heap) (l : loc) (v : val) : heap := fun l' => if loc_eqb l l' then v else h l'.

  Inductive ev := ERd (i : nat) (l : loc) | EWr (i : nat) (l : loc).

  Fixpoint set_nth (i : nat) (p : prog) (ps : list prog) : list prog :=
    match ps, i with
    | [], _ => []
    | _ :: t, O => p :: t
    | q :: t, S i' => q :: set_nth i' p t
    end.

  (* one atomic step of thread i (a finished or non-existent thread does nothing) *)
  Definition step (h : heap) (ps : list prog) (i : nat) : heap * list prog * list ev :=
    match nth_error ps i with
    | Some (Rd l k) => (h, set_nth i (k (h l)) ps, [ERd i l])
    | Some (Wr l v k) => (upd h l v, set_nth i k ps, [EWr i l])
    | _ => (h, ps, [])
    end.

  Fixpoint run (sched : list nat) (h : heap) (ps : list prog) : heap * list prog * list ev :=
    match sched with
    | [] => (h, ps, [])
    | i :: t => let '(h1, ps1, e1) := step h ps i in
                let '(h2, ps2, e2) := run t h1 ps1 in (h2, ps2, e1 ++ e2)
    end.

  (* sequential meaning of a thread on a fixed heap *)
  Fixpoint eval (h : heap) (p : prog) : res :=
    match p with
    | Ret r => r
    | Rd l k => eval h (k (h l))
    | Wr l v k => eval (upd h l v) k
    end.

  Inductive write_free : prog -> Prop :=
  | wf_ret r : write_free (Ret r)
  | wf_rd l k : (forall v, write_free (k v)) -> write_free (Rd l k).

  Definition is_write (e : ev) := match e with EWr _ _ => true | _ => false end.
  Definition thread (e : ev) := match e with ERd i _ | EWr i _ => i end.
  Definition eloc (e : ev) := match e with ERd _ l | EWr _ l => l end.
  (* a race: two events of different threads on one location, at least one a write *)
  Definition race (tr : list ev) : Prop :=
    exists e1 e2, In e1 tr /\ In e2 tr /\ thread e1 <> thread e2 /\
                  loc_eqb (eloc e1) (eloc e2) = true /\ (is_write e1 = true \/ is_write e2 = true).

  Lemma nth_set_nth_same i p ps q : nth_error ps i = Some q -> nth_error (set_nth i p ps) i = Some p.
  Proof. revert i; induction ps as [|a t IH]; intros [|i] H; cbn in *; try discriminate; auto. Qed.
  Lemma nth_set_nth_other i j p ps : i <> j -> nth_error (set_nth i p ps) j = nth_error ps j.
  Proof. revert i j; induction ps as [|a t IH]; intros [|i] [|j] H; cbn; auto; try congruence. Qed.
  Lemma set_nth_length i p ps : length (set_nth i p ps) = length ps.
  Proof. revert i; induction ps as [|a t IH]; intros [|i]; cbn; auto. Qed.

  Lemma Forall_set_nth (P : prog -> Prop) i p ps : Forall P ps -> P p -> Forall P (set_nth i p ps).
  Proof. intros H; revert i; induction H; intros [|i] Hp; cbn; constructor; auto. Qed.

  Theorem write_free_schedule_independent sched : forall h ps,
    Forall write_free ps ->
    let '(h', ps', tr) := run sched h ps in
    (forall l, h' l = h l) /\
    Forall write_free ps' /\
    (forall j, option_map (eval h) (nth_error ps' j) = option_map (eval h) (nth_error ps j)) /\
    Forall (fun e => is_write e = false) tr.
  Proof.
    induction sched as [|i t IH]; intros h ps Hwf; cbn [run].
    - repeat split; auto.
    - unfold step. destruct (nth_error ps i) as [[r|l k|l v k]|] eqn:E.
      + specialize (IH h ps Hwf). destruct (run t h ps) as [[h2 ps2] e2]. cbn [app]. exact IH.
      + assert (Hk : forall v, write_free (k v)).
        { rewrite Forall_forall in Hwf. pose proof (Hwf _ (nth_error_In _ _ E)) as W. inversion W; assumption. }
        specialize (IH h (set_nth i (k (h l)) ps) (Forall_set_nth _ _ _ _ Hwf (Hk _))).
        destruct (run t h (set_nth i (k (h l)) ps)) as [[h2 ps2] e2].
        destruct IH as (H1 & H2 & H3 & H4). repeat split; auto.
        * intros j. rewrite H3. destruct (Nat.eq_dec i j) as [<-|Hne].
          -- rewrite (nth_set_nth_same _ _ _ _ E), E. reflexivity.
          -- rewrite nth_set_nth_other by assumption. reflexivity.
        * cbn [app]. constructor; [reflexivity|assumption].
      + exfalso. rewrite Forall_forall in Hwf. pose proof (Hwf _ (nth_error_In _ _ E)) as W. inversion W.
      + specialize (IH h ps Hwf). destruct (run t h ps) as [[h2 ps2] e2]. cbn [app]. exact IH.
  Qed.

  Corollary write_free_race_free sched h ps : Forall write_free ps ->
    let '(_, _, tr) := run sched h ps in ~ race tr.
  Proof.
    intros Hwf. pose proof (write_free_schedule_independent sched h ps Hwf) as T.
    destruct (run sched h ps) as [[h' ps'] tr]. destruct T as (_ & _ & _ & Hn).
    intros (e1 & e2 & I1 & I2 & _ & _ & [W|W]); rewrite Forall_forall in Hn;
      [rewrite (Hn _ I1) in W|rewrite (Hn _ I2) in W]; discriminate.
  Qed.

  (* a finished thread returned exactly what it returns when run alone on the initial heap *)
  Corollary finished_result_is_sequential sched h ps j r p : Forall write_free ps ->
    nth_error ps j = Some p ->
    (let '(_, ps', _) := run sched h ps in nth_error ps' j = Some (Ret r)) -> r = eval h p.
  Proof.
    intros Hwf Hp. pose proof (write_free_schedule_independent sched h ps Hwf) as T.
    destruct (run sched h ps) as [[h' ps'] tr]. destruct T as (_ & _ & H3 & _).
    intros Hr. specialize (H3 j). rewrite Hr, Hp in H3. cbn in H3. congruence.
  Qed.
End Conc.
Print Assumptions write_free_schedule_independent.
