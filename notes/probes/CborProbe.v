(* Design-phase feasibility probe for C08/C09/C01 (not part of the framework):
   CBOR head codec round trip and nested decode (encode v ++ r) = Some (v, r)
   for a uint / bstr / array / map subset, with Strings.Byte.byte as the byte type. *)
From Coq Require Import NArith ZArith List Lia ZifyN ZifyBool.
From Coq Require Import Strings.Byte.
Import ListNotations.
Open Scope N_scope.
Ltac Zify.zify_post_hook ::= Z.div_mod_to_equations.

(* total N -> byte *)
Definition b8 (n : N) : byte :=
  match Byte.of_N (n mod 256) with Some b => b | None => x00 end.
Lemma to_N_b8 n : Byte.to_N (b8 n) = n mod 256.
Proof.
  unfold b8. destruct (Byte.of_N (n mod 256)) eqn:E.
  - apply Byte.to_of_N in E. exact E.
  - apply Byte.of_N_None_iff in E. pose proof (N.mod_lt n 256). lia.
Qed.
Lemma to_N_lt b : Byte.to_N b < 256.
Proof. pose proof (Byte.to_N_bounded b). lia. Qed.

(* big-endian k bytes *)
Fixpoint be (k : nat) (n : N) : list byte :=
  match k with O => [] | S k' => b8 (n / 256 ^ N.of_nat k') :: be k' n end.
Definition of_be (l : list byte) : N := fold_left (fun a b => a * 256 + Byte.to_N b) l 0.

Lemma fold_acc l : forall a, fold_left (fun a b => a * 256 + Byte.to_N b) l a
   = a * 256 ^ N.of_nat (length l) + of_be l.
Proof.
  unfold of_be. induction l as [|b l IH]; intros a; cbn [fold_left length].
  - rewrite N.pow_0_r. lia.
  - rewrite IH. rewrite (IH (0 * 256 + Byte.to_N b)).
    rewrite Nat2N.inj_succ, N.pow_succ_r'. lia.
Qed.
Lemma be_length k n : length (be k n) = k.
Proof. induction k; cbn; auto. Qed.
Lemma of_be_be k : forall n, of_be (be k n) = n mod 256 ^ N.of_nat k.
Proof.
  induction k as [|k IH]; intros n.
  - cbn. rewrite N.mod_1_r. reflexivity.
  - cbn [be]. unfold of_be. cbn [fold_left]. rewrite fold_acc, be_length, IH, to_N_b8.
    rewrite Nat2N.inj_succ, N.pow_succ_r'.
    set (p := 256 ^ N.of_nat k). assert (0 < p) by (apply N.neq_0_lt_0, N.pow_nonzero; lia).
    (* (n/p) mod 256 * p + n mod p = n mod (256*p) *)
    rewrite (N.mul_comm 256 p), N.mod_mul_r by lia. lia.
Qed.

Definition head (mt n : N) : list byte :=
  if n <? 24 then [b8 (mt * 32 + n)]
  else if n <? 256 then b8 (mt * 32 + 24) :: be 1 n
  else if n <? 65536 then b8 (mt * 32 + 25) :: be 2 n
  else if n <? 4294967296 then b8 (mt * 32 + 26) :: be 4 n
  else b8 (mt * 32 + 27) :: be 8 n.

Definition take (k : nat) (l : list byte) : option (list byte * list byte) :=
  if Nat.leb k (length l) then Some (firstn k l, skipn k l) else None.

Definition dhead (l : list byte) : option (N * N * list byte) :=
  match l with
  | [] => None
  | b :: r =>
    let v := Byte.to_N b in let mt := v / 32 in let ai := v mod 32 in
    if ai <? 24 then Some (mt, ai, r)
    else let w := if ai =? 24 then Some 1%nat else if ai =? 25 then Some 2%nat
                  else if ai =? 26 then Some 4%nat else if ai =? 27 then Some 8%nat else None in
         match w with
         | None => None
         | Some k => match take k r with Some (a, r') => Some (mt, of_be a, r') | None => None end
         end
  end.

Lemma take_app k a r : length a = k -> take k (a ++ r) = Some (a, r).
Proof.
  intros H. unfold take. rewrite app_length, H.
  replace (Nat.leb k (k + length r)) with true by (symmetry; apply Nat.leb_le; lia).
  subst k. rewrite firstn_app, Nat.sub_diag, firstn_all, firstn_O, app_nil_r.
  rewrite skipn_app, Nat.sub_diag, skipn_all. reflexivity.
Qed.

Lemma head_roundtrip mt n r : mt < 8 -> n < 2^64 -> dhead (head mt n ++ r) = Some (mt, n, r).
Proof.
  intros Hm Hn. change (2^64) with 18446744073709551616 in Hn. unfold head.
  destruct (n <? 24) eqn:E1; [|destruct (n <? 256) eqn:E2; [|destruct (n <? 65536) eqn:E3;
    [|destruct (n <? 4294967296) eqn:E4]]];
  cbn [app dhead]; rewrite to_N_b8;
  repeat match goal with H : (_ <? _) = true |- _ => apply N.ltb_lt in H | H : (_ <? _) = false |- _ => apply N.ltb_ge in H end.
  - replace ((mt * 32 + n) mod 256 / 32) with mt by lia.
    replace ((mt * 32 + n) mod 256 mod 32) with n by lia.
    replace (n <? 24) with true by (symmetry; apply N.ltb_lt; lia). reflexivity.
  - replace ((mt * 32 + 24) mod 256 / 32) with mt by lia.
    replace ((mt * 32 + 24) mod 256 mod 32) with 24 by lia.
    cbn [N.ltb N.eqb N.compare Pos.compare Pos.compare_cont Pos.eqb].
    rewrite take_app by apply be_length. rewrite of_be_be.
    repeat f_equal. change (256 ^ N.of_nat 1) with 256. lia.
  - replace ((mt * 32 + 25) mod 256 / 32) with mt by lia.
    replace ((mt * 32 + 25) mod 256 mod 32) with 25 by lia.
    cbn [N.ltb N.eqb N.compare Pos.compare Pos.compare_cont Pos.eqb].
    rewrite take_app by apply be_length. rewrite of_be_be.
    repeat f_equal. change (256 ^ N.of_nat 2) with 65536. lia.
  - replace ((mt * 32 + 26) mod 256 / 32) with mt by lia.
    replace ((mt * 32 + 26) mod 256 mod 32) with 26 by lia.
    cbn [N.ltb N.eqb N.compare Pos.compare Pos.compare_cont Pos.eqb].
    rewrite take_app by apply be_length. rewrite of_be_be.
    repeat f_equal. change (256 ^ N.of_nat 4) with 4294967296. lia.
  - replace ((mt * 32 + 27) mod 256 / 32) with mt by lia.
    replace ((mt * 32 + 27) mod 256 mod 32) with 27 by lia.
    cbn [N.ltb N.eqb N.compare Pos.compare Pos.compare_cont Pos.eqb].
    rewrite take_app by apply be_length. rewrite of_be_be.
    repeat f_equal. change (256 ^ N.of_nat 8) with 18446744073709551616.
    lia.
Qed.

(* ---------- nested items ---------- *)
Inductive item :=
| IUint (n : N) | IBstr (b : list byte) | IArr (l : list item) | IMap (l : list (item * item)).

Fixpoint enc (v : item) : list byte :=
  match v with
  | IUint n => head 0 n
  | IBstr b => head 2 (N.of_nat (length b)) ++ b
  | IArr l => head 4 (N.of_nat (length l)) ++ flat_map enc l
  | IMap l => head 5 (N.of_nat (length l)) ++ flat_map (fun kv => enc (fst kv) ++ enc (snd kv)) l
  end.

Fixpoint isize (v : item) : nat :=
  match v with
  | IUint _ | IBstr _ => 1
  | IArr l => S (fold_right (fun x a => isize x + a)%nat 0%nat l)
  | IMap l => S (fold_right (fun kv a => isize (fst kv) + isize (snd kv) + a)%nat 0%nat l)
  end.


Fixpoint dec_seq (d : list byte -> option (item * list byte)) (k : nat) (bs : list byte)
  : option (list item * list byte) :=
  match k with
  | O => Some ([], bs)
  | S k' => match d bs with
            | None => None
            | Some (x, r1) => match dec_seq d k' r1 with
                              | None => None
                              | Some (xs, r2) => Some (x :: xs, r2) end
            end
  end.
Fixpoint pairs (l : list item) : option (list (item * item)) :=
  match l with
  | [] => Some []
  | a :: b :: t => match pairs t with Some p => Some ((a, b) :: p) | None => None end
  | _ => None
  end.
Definition unpairs (l : list (item * item)) : list item := flat_map (fun kv => [fst kv; snd kv]) l.

Fixpoint dec (fuel : nat) (bs : list byte) {struct fuel} : option (item * list byte) :=
  match fuel with
  | O => None
  | S f =>
    match dhead bs with
    | None => None
    | Some (mt, n, r) =>
      if mt =? 0 then Some (IUint n, r)
      else if N.of_nat (length r) <? n then None
      else if mt =? 2 then match take (N.to_nat n) r with Some (b, r') => Some (IBstr b, r') | None => None end
      else if mt =? 4 then match dec_seq (dec f) (N.to_nat n) r with Some (l, r') => Some (IArr l, r') | None => None end
      else if mt =? 5 then match dec_seq (dec f) (2 * N.to_nat n)%nat r with
                           | Some (l, r') => match pairs l with Some p => Some (IMap p, r') | None => None end
                           | None => None end
      else None
    end
  end.

Fixpoint depth (v : item) : nat :=
  match v with
  | IUint _ | IBstr _ => 1
  | IArr l => S (fold_right (fun x a => Nat.max (depth x) a) 0%nat l)
  | IMap l => S (fold_right (fun kv a => Nat.max (Nat.max (depth (fst kv)) (depth (snd kv))) a) 0%nat l)
  end.

Fixpoint wf (v : item) : Prop :=
  match v with
  | IUint n => n < 2^64
  | IBstr b => N.of_nat (length b) < 2^64
  | IArr l => N.of_nat (length l) < 2^64 /\ fold_right (fun x a => wf x /\ a) True l
  | IMap l => N.of_nat (length l) < 2^64 /\ fold_right (fun kv a => wf (fst kv) /\ wf (snd kv) /\ a) True l
  end.

Section item_ind2.
  Variable P : item -> Prop.
  Hypothesis HU : forall n, P (IUint n).
  Hypothesis HB : forall b, P (IBstr b).
  Hypothesis HA : forall l, Forall P l -> P (IArr l).
  Hypothesis HM : forall l, Forall (fun kv => P (fst kv) /\ P (snd kv)) l -> P (IMap l).
  Fixpoint item_ind2 (v : item) : P v :=
    match v with
    | IUint n => HU n
    | IBstr b => HB b
    | IArr l => HA l ((fix go (l : list item) : Forall P l :=
                         match l with [] => Forall_nil _ | x :: t => Forall_cons _ (item_ind2 x) (go t) end) l)
    | IMap l => HM l ((fix go (l : list (item*item)) : Forall (fun kv => P (fst kv) /\ P (snd kv)) l :=
                         match l with [] => Forall_nil _
                         | kv :: t => Forall_cons _ (conj (item_ind2 (fst kv)) (item_ind2 (snd kv))) (go t) end) l)
    end.
End item_ind2.


Lemma head_len mt n : (1 <= length (head mt n))%nat.
Proof. unfold head. repeat match goal with |- context [if ?c then _ else _] => destruct c end; cbn; lia. Qed.
Lemma enc_len v : (1 <= length (enc v))%nat.
Proof. destruct v; cbn [enc]; rewrite ?app_length;
  match goal with |- context [length (head ?a ?b)] => pose proof (head_len a b) end; lia. Qed.
Lemma flat_len (l : list item) : (length l <= length (flat_map enc l))%nat.
Proof. induction l as [|x l IH]; cbn; [lia|]. rewrite app_length. pose proof (enc_len x). lia. Qed.

Lemma dec_seq_ok f : forall l r,
  Forall (fun x => forall r, dec f (enc x ++ r) = Some (x, r)) l ->
  dec_seq (dec f) (length l) (flat_map enc l ++ r) = Some (l, r).
Proof.
  induction l as [|x l IH]; intros r H; cbn [length flat_map dec_seq app]; [reflexivity|].
  inversion H as [|? ? Hx Hl]; subst. rewrite <- app_assoc, Hx, IH by assumption. reflexivity.
Qed.

Lemma pairs_unpairs l : pairs (unpairs l) = Some l.
Proof. induction l as [|[k v] l IH]; cbn; [reflexivity|]. unfold unpairs in IH. rewrite IH. reflexivity. Qed.
Lemma unpairs_len l : length (unpairs l) = (2 * length l)%nat.
Proof. induction l as [|[k v] l IH]; cbn; [reflexivity|]. unfold unpairs in IH. rewrite IH. lia. Qed.
Lemma flat_unpairs l : flat_map enc (unpairs l) = flat_map (fun kv => enc (fst kv) ++ enc (snd kv)) l.
Proof. induction l as [|[k v] l IH]; cbn; [reflexivity|]. unfold unpairs in IH. rewrite IH, app_nil_r || rewrite IH.
  all: rewrite <- ?app_assoc; reflexivity. Qed.

Lemma max_le a b c : (Nat.max a b <= c -> a <= c /\ b <= c)%nat.
Proof. lia. Qed.

Theorem dec_enc : forall v, wf v -> forall fuel r, (depth v <= fuel)%nat -> dec fuel (enc v ++ r) = Some (v, r).
Proof.
  induction v as [n|b|l IH|l IH] using item_ind2; intros Hwf fuel r Hd;
  (destruct fuel as [|f]; [cbn in Hd; lia|]); cbn [enc dec]; cbn [wf] in Hwf.
  - rewrite head_roundtrip by (assumption || lia). reflexivity.
  - rewrite <- app_assoc, head_roundtrip by (assumption || lia).
    cbn [N.eqb].
    replace (N.of_nat (length (b ++ r)) <? N.of_nat (length b)) with false
      by (symmetry; apply N.ltb_ge; rewrite app_length; lia).
    rewrite Nat2N.id, take_app by reflexivity. reflexivity.
  - destruct Hwf as [Hlen Hall]. rewrite <- app_assoc, head_roundtrip by (assumption || lia).
    cbn [N.eqb].
    replace (N.of_nat (length (flat_map enc l ++ r)) <? N.of_nat (length l)) with false
      by (symmetry; apply N.ltb_ge; rewrite app_length; pose proof (flat_len l); lia).
    rewrite Nat2N.id, dec_seq_ok; [reflexivity|].
    cbn [depth] in Hd. apply le_S_n in Hd.
    clear Hlen. induction l as [|x l IHl]; constructor.
    + inversion IH; subst. cbn in Hall, Hd. destruct Hall. intros r0. apply H1; [assumption|lia].
    + inversion IH; subst. cbn in Hall, Hd. destruct Hall. apply IHl; [assumption|assumption|lia].
  - destruct Hwf as [Hlen Hall]. rewrite <- app_assoc, head_roundtrip by (assumption || lia).
    cbn [N.eqb]. rewrite <- flat_unpairs.
    replace (N.of_nat (length (flat_map enc (unpairs l) ++ r)) <? N.of_nat (length l)) with false
      by (symmetry; apply N.ltb_ge; rewrite app_length; pose proof (flat_len (unpairs l)); rewrite unpairs_len in *; lia).
    rewrite Nat2N.id, <- unpairs_len, dec_seq_ok; [rewrite pairs_unpairs; reflexivity|].
    cbn [depth] in Hd. apply le_S_n in Hd.
    clear Hlen. induction l as [|[k v] l IHl]; cbn [unpairs flat_map app]; [constructor|].
    inversion IH as [|? ? [Hk Hv] Hl]; subst. cbn in Hall, Hd. cbn [fst snd] in *. destruct Hall as (Wk & Wv & Wl).
    constructor; [intros r0; apply Hk; [assumption|lia]|].
    constructor; [intros r0; apply Hv; [assumption|lia]|].
    apply IHl; [assumption|assumption|lia].
Qed.
Print Assumptions dec_enc.
