// Design-phase probe of the translator (not the framework): shows that the
// facts DESIGN.md section 4.1 lists can be read off the source with go/packages,
// go/ast and go/types, and counts the panic-capable sites for C07.
package main

import (
	"fmt"
	"go/ast"
	"go/constant"
	"go/token"
	"go/types"
	"os"
	"sort"
	"strings"

	"golang.org/x/tools/go/packages"
)

func main() {
	cfg := &packages.Config{Mode: packages.LoadAllSyntax, Dir: "/repo", Tests: false}
	pkgs, err := packages.Load(cfg, "./...")
	if err != nil {
		fmt.Println(err)
		os.Exit(1)
	}
	sort.Slice(pkgs, func(i, j int) bool { return pkgs[i].PkgPath < pkgs[j].PkgPath })
	sites := map[string]int{}
	for _, p := range pkgs {
		short := strings.TrimPrefix(p.PkgPath, "github.com/ldclabs/cose/")
		// T1: iana constants
		if short == "iana" {
			n := 0
			for _, name := range p.Types.Scope().Names() {
				if c, ok := p.Types.Scope().Lookup(name).(*types.Const); ok && c.Exported() {
					n++
					if strings.Contains(name, "Countersignature") {
						v, _ := constant.Int64Val(c.Val())
						fmt.Printf("T1 %s = %d\n", name, v)
					}
				}
			}
			fmt.Println("T1 iana exported consts:", n)
		}
		for _, f := range p.Syntax {
			for _, d := range f.Decls {
				fd, ok := d.(*ast.FuncDecl)
				if !ok || fd.Body == nil {
					continue
				}
				name := fd.Name.Name
				if fd.Recv != nil && len(fd.Recv.List) > 0 {
					name = types.ExprString(fd.Recv.List[0].Type) + "." + name
				}
				// T2: single-switch table functions
				if len(fd.Body.List) == 1 {
					if sw, ok := fd.Body.List[0].(*ast.SwitchStmt); ok {
						var rows []string
						okTable := true
						for _, cc := range sw.Body.List {
							c := cc.(*ast.CaseClause)
							var keys []string
							for _, e := range c.List {
								tv := p.TypesInfo.Types[e]
								if tv.Value != nil {
									keys = append(keys, tv.Value.ExactString())
								} else {
									keys = append(keys, types.ExprString(e))
								}
							}
							if len(c.Body) != 1 {
								okTable = false
								break
							}
							ret, ok := c.Body[0].(*ast.ReturnStmt)
							if !ok {
								okTable = false
								break
							}
							var vals []string
							for _, r := range ret.Results {
								tv := p.TypesInfo.Types[r]
								if tv.Value != nil {
									vals = append(vals, tv.Value.ExactString())
								} else {
									vals = append(vals, types.ExprString(r))
								}
							}
							k := strings.Join(keys, ",")
							if c.List == nil {
								k = "default"
							}
							rows = append(rows, k+"=>("+strings.Join(vals, ",")+")")
						}
						if okTable {
							fmt.Printf("T2 %s.%s: %s\n", short, name, strings.Join(rows, "; "))
						}
					}
				}
				// T3: registrations in init
				if name == "init" {
					ast.Inspect(fd.Body, func(n ast.Node) bool {
						if call, ok := n.(*ast.CallExpr); ok {
							if sel, ok := call.Fun.(*ast.SelectorExpr); ok && strings.HasPrefix(sel.Sel.Name, "Register") {
								var args []string
								for _, a := range call.Args {
									tv := p.TypesInfo.Types[a]
									if tv.Value != nil {
										args = append(args, tv.Value.ExactString())
									} else {
										args = append(args, types.ExprString(a))
									}
								}
								fmt.Printf("T3 %s %s(%s)\n", short, sel.Sel.Name, strings.Join(args, ","))
							}
						}
						return true
					})
				}
				// T7: structure builders
				if strings.HasSuffix(name, ".toSign") || strings.HasSuffix(name, ".toMac") || strings.HasSuffix(name, ".toEnc") {
					ast.Inspect(fd.Body, func(n ast.Node) bool {
						if cl, ok := n.(*ast.CompositeLit); ok {
							if at, ok := cl.Type.(*ast.ArrayType); ok && types.ExprString(at.Elt) == "any" {
								var el []string
								for _, e := range cl.Elts {
									tv := p.TypesInfo.Types[e]
									if tv.Value != nil {
										el = append(el, tv.Value.ExactString())
									} else {
										el = append(el, types.ExprString(e))
									}
								}
								fmt.Printf("T7 %s %s: [%s]\n", short, name, strings.Join(el, "; "))
							}
						}
						return true
					})
				}
				// T9: panic-capable sites
				ast.Inspect(fd.Body, func(n ast.Node) bool {
					kind := ""
					switch x := n.(type) {
					case *ast.IndexExpr:
						if t := p.TypesInfo.TypeOf(x.X); t != nil {
							switch t.Underlying().(type) {
							case *types.Slice, *types.Array, *types.Basic:
								kind = "index"
							}
						}
					case *ast.SliceExpr:
						kind = "slice"
					case *ast.TypeAssertExpr:
						if x.Type != nil {
							kind = "assert?"
						}
					case *ast.CallExpr:
						if id, ok := x.Fun.(*ast.Ident); ok && id.Name == "panic" {
							kind = "panic"
						}
					}
					if kind != "" {
						sites[short+" "+kind]++
					}
					return true
				})
			}
			// T4: package-level byte slices
			for _, d := range f.Decls {
				gd, ok := d.(*ast.GenDecl)
				if !ok || gd.Tok != token.VAR {
					continue
				}
				for _, sp := range gd.Specs {
					vs := sp.(*ast.ValueSpec)
					for i, nm := range vs.Names {
						if i < len(vs.Values) {
							if cl, ok := vs.Values[i].(*ast.CompositeLit); ok && types.ExprString(cl.Type) == "[]byte" {
								var bs []string
								for _, e := range cl.Elts {
									bs = append(bs, p.TypesInfo.Types[e].Value.ExactString())
								}
								fmt.Printf("T4 %s %s = [%s]\n", short, nm.Name, strings.Join(bs, " "))
							}
						}
					}
				}
			}
		}
	}
	var ks []string
	for k := range sites {
		ks = append(ks, k)
	}
	sort.Strings(ks)
	for _, k := range ks {
		fmt.Printf("T9 %s: %d\n", k, sites[k])
	}
}
