(* Design-phase feasibility probe for C13 (not part of the framework):
   model of the stateful aesHKDF.Read loop over an arbitrary 16-byte block
   function T (prev, counter) and the theorem that reading in ANY chunking
   yields consecutive segments of one stream (prefix property and chunk
   independence), by induction over the history of reads. *)
From Coq Require Import List Arith Lia NArith.
From Coq Require Import Strings.Byte.
Import ListNotations.

Definition bytes := list byte.

Section Reader.
  Variable T : bytes -> N -> bytes.              (* T(i) = PRF(T(i-1) | info | i), info and key fixed *)
  Hypothesis T_len : forall p c, length (T p c) = 16.

  Record st := mk { ctr : N; prev : bytes; left : bytes }.
  Definition init : st := mk 1 [] [].

  (* blocks still available: int(255 - counter + 1) evaluated in byte arithmetic *)
  Definition blocks_left (c : N) : nat := N.to_nat ((256 - c) mod 256).

  (* the "for len(p) > 0" loop; fuel = number of bytes still wanted *)
  Fixpoint fill (fuel : nat) (c : N) (pv : bytes) (need : nat) : bytes * st :=
    match fuel with
    | O => ([], mk c pv [])
    | S f =>
      if need =? 0 then ([], mk c pv [])
      else
        let t := T pv c in
        let c' := ((c + 1) mod 256)%N in
        if need <=? 16 then (firstn need t, mk c' t (skipn need t))
        else let '(o, s) := fill f c' t (need - 16) in (t ++ o, s)
    end.

  Definition read (s : st) (need : nat) : option (bytes * st) :=
    if length (left s) + blocks_left (ctr s) * 16 <? need then None
    else if need <=? length (left s)
         then Some (firstn need (left s), mk (ctr s) (prev s) (skipn need (left s)))
         else let '(o, s') := fill (need - length (left s)) (ctr s) (prev s) (need - length (left s)) in
              Some (left s ++ o, s').

  (* the stream as a function of a state: what is still to come *)
  Fixpoint future (k : nat) (c : N) (pv : bytes) : bytes :=
    match k with O => [] | S k' => let t := T pv c in t ++ future k' ((c + 1) mod 256)%N t end.
  Definition rest (s : st) : bytes := left s ++ future (blocks_left (ctr s)) (ctr s) (prev s).

  Lemma future_len k : forall c pv, length (future k c pv) = 16 * k.
  Proof. induction k; intros; cbn [future]; [reflexivity|]. rewrite app_length, T_len, IHk. lia. Qed.

  Lemma blocks_left_succ c : (1 <= c < 256)%N -> blocks_left c = S (blocks_left ((c + 1) mod 256)).
  Proof.
    intros H. unfold blocks_left.
    destruct (N.eq_dec c 255) as [->|Hne]; [reflexivity|].
    rewrite (N.mod_small (c + 1)) by lia. rewrite !N.mod_small by lia. lia.
  Qed.
  Lemma ctr_range_step c : (1 <= c < 256)%N -> blocks_left c <> 0 -> (1 <= (c + 1) mod 256 < 256)%N \/ blocks_left ((c+1) mod 256) = 0.
  Proof.
    intros H _. destruct (N.eq_dec c 255) as [->|Hne]; [right; reflexivity|].
    left. rewrite N.mod_small by lia. lia.
  Qed.

  (* invariant: counter in 1..255, or exhausted (counter wrapped to 0) *)
  Definition inv (s : st) : Prop := ((1 <= ctr s < 256)%N \/ ctr s = 0%N) /\ length (left s) <= 16.

  Lemma fill_spec fuel : forall c pv need, need <= fuel ->
    ((1 <= c < 256)%N \/ c = 0%N) -> need <= blocks_left c * 16 ->
    let '(o, s) := fill fuel c pv need in
    o = firstn need (future (blocks_left c) c pv) /\
    rest s = skipn need (future (blocks_left c) c pv) /\ inv s.
  Proof.
    induction fuel as [|f IH]; intros c pv need Hf Hc Hn.
    - assert (need = 0) by lia. subst. cbn [fill firstn skipn]. split; [reflexivity|]. split; [reflexivity|].
      unfold inv; cbn [ctr left length]; split; [assumption|lia].
    - cbn [fill]. destruct (need =? 0) eqn:E0.
      + apply Nat.eqb_eq in E0. subst. cbn [firstn skipn]. split; [reflexivity|]. split; [reflexivity|].
        unfold inv; cbn [ctr left length]; split; [assumption|lia].
      + apply Nat.eqb_neq in E0.
        assert (Hc1 : (1 <= c < 256)%N).
        { destruct Hc as [Hc0|Hc0]; [assumption|]. subst c. unfold blocks_left in Hn. cbn in Hn. lia. }
        rewrite (blocks_left_succ c Hc1) in *. cbn [future].
        set (t := T pv c). set (c' := ((c + 1) mod 256)%N) in *.
        assert (Hc' : (1 <= c' < 256)%N \/ c' = 0%N).
        { subst c'. destruct (N.eq_dec c 255) as [->|Hne]; [right; reflexivity|]. left. rewrite N.mod_small by lia. lia. }
        assert (Lt : length t = 16) by apply T_len.
        destruct (need <=? 16) eqn:E1.
        * apply Nat.leb_le in E1. cbv beta iota. split; [|split].
          -- rewrite firstn_app. replace (need - length t) with 0 by lia. rewrite firstn_O, app_nil_r. reflexivity.
          -- unfold rest. cbn [left ctr prev]. rewrite skipn_app. replace (need - length t) with 0 by lia. reflexivity.
          -- unfold inv. cbn [ctr left]. split; [assumption|]. rewrite skipn_length. lia.
        * apply Nat.leb_gt in E1.
          specialize (IH c' t (need - 16) ltac:(lia) Hc' ltac:(lia)).
          destruct (fill f c' t (need - 16)) as [o s]. destruct IH as (Ho & Hr & Hi). split; [|split].
          -- rewrite firstn_app, Lt, firstn_all2 by lia. rewrite Ho. reflexivity.
          -- rewrite skipn_app, Lt, skipn_all2 by lia. cbn [app]. exact Hr.
          -- exact Hi.
  Qed.

  (* one read returns the next `need` bytes of the remaining stream and leaves the rest *)
  Lemma read_spec s need : inv s ->
    match read s need with
    | None => length (rest s) < need
    | Some (o, s') => o = firstn need (rest s) /\ rest s' = skipn need (rest s) /\ inv s'
    end.
  Proof.
    intros [Hc Hl]. unfold read, rest.
    destruct (length (left s) + blocks_left (ctr s) * 16 <? need) eqn:E.
    - apply Nat.ltb_lt in E. rewrite app_length, future_len. lia.
    - apply Nat.ltb_ge in E. destruct (need <=? length (left s)) eqn:E1.
      + apply Nat.leb_le in E1. cbn [left ctr prev]. split; [|split].
        * rewrite firstn_app. replace (need - length (left s)) with 0 by lia. rewrite firstn_O, app_nil_r. reflexivity.
        * rewrite skipn_app. replace (need - length (left s)) with 0 by lia. reflexivity.
        * unfold inv. cbn [ctr left]. split; [assumption|]. rewrite skipn_length. lia.
      + apply Nat.leb_gt in E1.
        pose proof (fill_spec (need - length (left s)) (ctr s) (prev s) (need - length (left s)) ltac:(lia) Hc ltac:(lia)) as F.
        destruct (fill (need - length (left s)) (ctr s) (prev s) (need - length (left s))) as [o s'].
        destruct F as (Ho & Hr & Hi). split; [|split].
        * rewrite firstn_app, firstn_all2 by lia. rewrite Ho. reflexivity.
        * rewrite skipn_app, skipn_all2 by lia. cbn [app]. exact Hr.
        * exact Hi.
  Qed.

  (* a history of reads *)
  Fixpoint reads (s : st) (ns : list nat) : option bytes :=
    match ns with
    | [] => Some []
    | n :: t => match read s n with
                | None => None
                | Some (o, s') => match reads s' t with None => None | Some o' => Some (o ++ o') end
                end
    end.

  Theorem reads_any_chunking ns : forall s, inv s -> list_sum ns <= length (rest s) ->
    reads s ns = Some (firstn (list_sum ns) (rest s)).
  Proof.
    induction ns as [|n t IH]; intros s Hi Hs; cbn [reads]; [reflexivity|].
    change (list_sum (n :: t)) with (n + list_sum t) in *.
    pose proof (read_spec s n Hi) as R.
    destruct (read s n) as [[o s']|]; [|lia].
    destruct R as (Ho & Hr & Hi'). rewrite (IH s' Hi') by (rewrite Hr, skipn_length; lia).
    rewrite Ho, Hr. f_equal.
    rewrite <- (firstn_skipn n (firstn (n + list_sum t) (rest s))) at 1.
    rewrite firstn_firstn, Nat.min_l by lia. f_equal.
    (* skipn n (firstn (n+m) l) = firstn m (skipn n l) *)
    generalize (rest s) as l. clear. intros l. revert l. induction n; intros l; cbn; [reflexivity|].
    destruct l; cbn; [rewrite firstn_nil; reflexivity|apply IHn].
  Qed.

  (* prefix property and the 255-block limit as corollaries *)
  Corollary stream_total : length (rest init) = 255 * 16.
  Proof. unfold rest, init. cbn [left ctr prev app]. rewrite future_len. reflexivity. Qed.

  Lemma inv_init : inv init.
  Proof. unfold inv, init; cbn; split; [left; lia|lia]. Qed.

  Corollary read_prefix n m : n <= m -> m <= 255 * 16 ->
    forall a b, reads init [n] = Some a -> reads init [m] = Some b -> a = firstn n b.
  Proof.
    intros Hnm Hm a b Ha Hb. pose proof stream_total as L.
    assert (Sn : list_sum [n] = n) by (cbn; lia). assert (Sm : list_sum [m] = m) by (cbn; lia).
    rewrite reads_any_chunking in Ha by (try exact inv_init; rewrite Sn, L; lia).
    rewrite reads_any_chunking in Hb by (try exact inv_init; rewrite Sm, L; lia).
    rewrite Sn in Ha. rewrite Sm in Hb. inversion Ha; inversion Hb; subst.
    rewrite firstn_firstn, Nat.min_l by lia. reflexivity.
  Qed.

  Corollary limit_exceeded n : 255 * 16 < n -> reads init [n] = None.
  Proof.
    intros H. cbn [reads]. unfold read, init. cbn [left ctr prev length].
    replace (0 + blocks_left 1 * 16 <? n) with true; [reflexivity|].
    symmetry. apply Nat.ltb_lt. unfold blocks_left. cbn. lia.
  Qed.
End Reader.
Print Assumptions reads_any_chunking.
