(* Design-phase feasibility probe for C10/C14 (not part of the framework):
   ECDSA correctness and ECDH symmetry over an ABSTRACT group given as a
   Z-module of order n (the curve is a Section hypothesis, never an Axiom),
   with the modular inverse specified, not implemented. *)
From Coq Require Import ZArith Lia Zdiv Setoid Morphisms Bool.
Open Scope Z_scope.

Section Abstract.
  Variable n : Z.
  Hypothesis n_pos : 1 < n.
  Variable Pt : Type.
  Variable padd : Pt -> Pt -> Pt.
  Variable smul : Z -> Pt -> Pt.
  Variable B : Pt.                        (* base point *)
  Variable xof : Pt -> Z.                 (* affine x coordinate as an integer *)
  Variable inv : Z -> Z.                  (* modular inverse mod n (Go: ModInverse / Fermat) *)

  Hypothesis smul_add : forall a b P, smul (a + b) P = padd (smul a P) (smul b P).
  Hypothesis smul_smul : forall a b P, smul a (smul b P) = smul (a * b) P.
  Hypothesis smul_order : forall a, smul (a mod n) B = smul a B.       (* B has order dividing n *)
  Hypothesis inv_spec : forall a, a mod n <> 0 -> (a * inv a) mod n = 1.

  Definition sign (d k z : Z) : Z * Z :=
    let r := xof (smul k B) mod n in
    let s := (inv k * (z + r * d)) mod n in (r, s).

  Definition verify (Q : Pt) (z : Z) (sig : Z * Z) : bool :=
    let '(r, s) := sig in
    if ((0 <? r) && (r <? n) && (0 <? s) && (s <? n))%bool then
      let w := inv s in
      let u1 := (z * w) mod n in
      let u2 := (r * w) mod n in
      xof (padd (smul u1 B) (smul u2 Q)) mod n =? r
    else false.

  Lemma smul_cong a b : a mod n = b mod n -> smul a B = smul b B.
  Proof. intros H. rewrite <- (smul_order a), <- (smul_order b), H. reflexivity. Qed.

  Theorem ecdsa_correct d k z :
    k mod n <> 0 ->
    let '(r, s) := sign d k z in
    r <> 0 -> s <> 0 -> verify (smul d B) z (r, s) = true.
  Proof.
    intros Hk. unfold sign. set (r := xof (smul k B) mod n). set (s := (inv k * (z + r * d)) mod n).
    intros Hr Hs. unfold verify.
    assert (Rr : 0 <= r < n) by (apply Z.mod_pos_bound; lia).
    assert (Rs : 0 <= s < n) by (apply Z.mod_pos_bound; lia).
    replace ((0 <? r) && (r <? n) && (0 <? s) && (s <? n))%bool with true
      by (symmetry; repeat (apply andb_true_intro; split); try apply Z.ltb_lt; lia).
    rewrite smul_smul, <- smul_add.
    (* exponent: (z*w) mod n + (r*w) mod n * d  ==  k  (mod n) *)
    assert (E : ((z * inv s) mod n + (r * inv s) mod n * d) mod n = k mod n).
    { assert (Hs' : s mod n <> 0) by (rewrite Z.mod_small by lia; lia).
      pose proof (inv_spec s Hs') as Is. pose proof (inv_spec k Hk) as Ik.
      (* work in the ring Z/n via eqm *)
      assert (A1 : eqm n ((z * inv s) mod n + (r * inv s) mod n * d) ((z + r * d) * inv s)).
      { unfold eqm. rewrite Zplus_mod, (Zmult_mod ((r * inv s) mod n) d), !Zmod_mod, <- Zmult_mod, <- Zplus_mod.
        f_equal. ring. }
      unfold eqm in A1. rewrite A1.
      (* k*s == z + r d, and s * inv s == 1 *)
      assert (A2 : eqm n (k * s) (z + r * d)).
      { unfold eqm, s. rewrite Zmult_mod_idemp_r. replace (k * (inv k * (z + r * d))) with ((k * inv k) * (z + r * d)) by ring.
        rewrite <- Zmult_mod_idemp_l, Ik. f_equal. ring. }
      unfold eqm in A2. rewrite <- Zmult_mod_idemp_l, <- A2, Zmult_mod_idemp_l.
      replace (k * s * inv s) with (k * (s * inv s)) by ring.
      rewrite <- Zmult_mod_idemp_r, Is. f_equal. ring. }
    rewrite (smul_cong _ _ E). fold r. apply Z.eqb_refl.
  Qed.

  (* ECDH: both sides derive the same point *)
  Theorem ecdh_symmetric d1 d2 : smul d1 (smul d2 B) = smul d2 (smul d1 B).
  Proof. rewrite !smul_smul. f_equal. ring. Qed.
End Abstract.
Print Assumptions ecdsa_correct.
