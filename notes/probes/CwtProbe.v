(* Design-phase feasibility probe for C18 (not part of the framework):
   model of cwt.Validator.Validate time logic with Go's int64 wrap in time.Unix,
   an RFC 8392 style spec in exact integers, the refutation on the code as it is
   today and the equivalence theorem for the repaired bound. *)
From Coq Require Import ZArith Lia Bool ZifyBool.
Open Scope Z_scope.
Ltac Zify.zify_post_hook ::= Z.div_mod_to_equations.

Definition MaxI64 : Z := 9223372036854775807.
Definition K : Z := 62135596800.            (* unixToInternal *)
Definition G : Z := 1000000000.             (* ns per s *)
Definition wrap64 (z : Z) : Z := (z + 9223372036854775808) mod 18446744073709551616 - 9223372036854775808.

(* Go time.Time without monotonic reading: (seconds since year 1, nsec) *)
Definition gtime := (Z * Z)%type.
Definition is_zero (t : gtime) := (fst t =? 0) && (snd t =? 0).
Definition after (a b : gtime) := (fst a >? fst b) || ((fst a =? fst b) && (snd a >? snd b)).
Definition add (t : gtime) (d : Z) : gtime :=
  let total := fst t * G + snd t + d in (total / G, total mod G).
Definition neg64 (d : Z) : Z := wrap64 (- d).

(* toTime as in the source (fixed=false) and with the repaired bound (fixed=true) *)
Definition to_time (fixed : bool) (u : Z) : gtime :=
  if (if fixed then u >? MaxI64 - K else u >=? MaxI64) then (0, 0)
  else (wrap64 (u + K), 0).

Record opts := { allow_missing : bool; iat_past : bool; skew : Z }.

(* Validate, time part, struct path (0 = absent) *)
Definition validate (fx : bool) (o : opts) (now : gtime) (exp nbf iat : Z) : bool :=
  negb ((exp =? 0) && negb (allow_missing o))
  && (if exp >? 0 then after (to_time fx exp) (add now (neg64 (skew o))) else true)
  && (if nbf >? 0 then negb (is_zero (to_time fx nbf) || after (to_time fx nbf) (add now (skew o))) else true)
  && (if (iat >? 0) && iat_past o
      then negb (is_zero (to_time fx iat) || after (to_time fx iat) (add now (skew o))) else true).

(* Spec: exact integers, unix nanoseconds, representable bound stated outright *)
Definition Bmax := MaxI64 - K.
Definition unix_ns (now : gtime) := (fst now - K) * G + snd now.
Definition spec (o : opts) (now : gtime) (exp nbf iat : Z) : bool :=
  (if exp =? 0 then allow_missing o else (exp <=? Bmax) && (exp * G >? unix_ns now - skew o))
  && (if nbf =? 0 then true else (nbf <=? Bmax) && (nbf * G <=? unix_ns now + skew o))
  && (if (iat =? 0) || negb (iat_past o) then true else (iat <=? Bmax) && (iat * G <=? unix_ns now + skew o)).

Definition u64 (u : Z) := 0 <= u < 18446744073709551616.
(* now between year ~318 and 2^62 s: excludes instants so early that now - skew precedes Go's zero Time *)
Definition now_ok (now : gtime) := 10000000000 <= fst now <= 4611686018427387904 /\ 0 <= snd now < G.
Definition skew_ok (d : Z) := - MaxI64 <= d <= MaxI64.   (* int64 except MinInt64, whose negation wraps *)

Lemma wrap64_small z : - 9223372036854775808 <= z < 9223372036854775808 -> wrap64 z = z.
Proof. unfold wrap64. intros. lia. Qed.

Lemma term_nbf o now u : u64 u -> now_ok now -> skew_ok (skew o) -> 0 < u ->
  negb (is_zero (to_time true u) || after (to_time true u) (add now (skew o)))
  = (u <=? Bmax) && (u * G <=? unix_ns now + skew o).
Proof.
  unfold u64, now_ok, skew_ok, to_time, Bmax, unix_ns, is_zero, after, add, MaxI64, K, G.
  intros Hu [Hn1 Hn2] Hs Hp. cbn [fst snd].
  destruct (u >? 9223372036854775807 - 62135596800) eqn:E.
  - cbn. symmetry. apply andb_false_iff. left. lia.
  - rewrite wrap64_small by lia. cbn [fst snd].
    set (t := fst now * 1000000000 + snd now + skew o).
    assert (Hq : t = 1000000000 * (t / 1000000000) + t mod 1000000000) by (apply Z.div_mod; lia).
    assert (Hr : 0 <= t mod 1000000000 < 1000000000) by (apply Z.mod_pos_bound; lia).
    remember (t / 1000000000) as q. remember (t mod 1000000000) as r. subst t.
    destruct ((u + 62135596800 =? 0)) eqn:E0; [lia|]. cbn [andb orb].
    replace (u <=? 9223372036854775807 - 62135596800) with true by lia.
    cbn [andb].
    destruct (u + 62135596800 >? q) eqn:E1; cbn [orb negb].
    + symmetry. apply Z.leb_gt. lia.
    + destruct (u + 62135596800 =? q) eqn:E2; cbn [andb orb].
      * replace (0 >? r) with false by lia. cbn. symmetry. apply Z.leb_le. lia.
      * cbn. symmetry. apply Z.leb_le. lia.
Qed.

Lemma term_exp o now u : u64 u -> now_ok now -> skew_ok (skew o) -> 0 < u ->
  after (to_time true u) (add now (neg64 (skew o)))
  = (u <=? Bmax) && (u * G >? unix_ns now - skew o).
Proof.
  unfold u64, now_ok, skew_ok, to_time, Bmax, unix_ns, after, add, neg64, MaxI64, K, G.
  intros Hu [Hn1 Hn2] Hs Hp. rewrite (wrap64_small (- skew o)) by lia. cbn [fst snd].
  destruct (u >? 9223372036854775807 - 62135596800) eqn:E.
  - cbn [fst snd].
    set (t := fst now * 1000000000 + snd now + - skew o).
    assert (Hq : t = 1000000000 * (t / 1000000000) + t mod 1000000000) by (apply Z.div_mod; lia).
    assert (Hr : 0 <= t mod 1000000000 < 1000000000) by (apply Z.mod_pos_bound; lia).
    remember (t / 1000000000) as q. remember (t mod 1000000000) as r. subst t.
    replace (u <=? 9223372036854775807 - 62135596800) with false by lia. cbn [andb].
    replace (0 >? q) with false by lia. replace (0 =? q) with false by lia. reflexivity.
  - rewrite wrap64_small by lia. cbn [fst snd].
    set (t := fst now * 1000000000 + snd now + - skew o).
    assert (Hq : t = 1000000000 * (t / 1000000000) + t mod 1000000000) by (apply Z.div_mod; lia).
    assert (Hr : 0 <= t mod 1000000000 < 1000000000) by (apply Z.mod_pos_bound; lia).
    remember (t / 1000000000) as q. remember (t mod 1000000000) as r. subst t.
    replace (u <=? 9223372036854775807 - 62135596800) with true by lia. cbn [andb].
    destruct (u + 62135596800 >? q) eqn:E1; cbn [orb].
    + lia.
    + destruct (u + 62135596800 =? q) eqn:E2; cbn [andb].
      * replace (0 >? r) with false by lia. lia.
      * lia.
Qed.

Theorem validate_fixed_is_spec o now exp nbf iat :
  u64 exp -> u64 nbf -> u64 iat -> now_ok now -> skew_ok (skew o) ->
  validate true o now exp nbf iat = spec o now exp nbf iat.
Proof.
  intros He Hn Hi Hnow Hs. unfold validate, spec.
  assert (E1 : (exp >? 0) = negb (exp =? 0)) by (unfold u64 in He; destruct (exp =? 0) eqn:E; cbn; lia).
  assert (E2 : (nbf >? 0) = negb (nbf =? 0)) by (unfold u64 in Hn; destruct (nbf =? 0) eqn:E; cbn; lia).
  assert (E3 : (iat >? 0) = negb (iat =? 0)) by (unfold u64 in Hi; destruct (iat =? 0) eqn:E; cbn; lia).
  rewrite E1, E2, E3.
  destruct (exp =? 0) eqn:X1; cbn [negb andb].
  - destruct (nbf =? 0) eqn:X2; destruct (iat =? 0) eqn:X3; destruct (iat_past o); destruct (allow_missing o); cbn [negb andb orb];
    rewrite ?term_nbf by (assumption || unfold u64 in *; lia); reflexivity.
  - rewrite term_exp by (assumption || unfold u64 in *; lia).
    destruct (nbf =? 0) eqn:X2; destruct (iat =? 0) eqn:X3; destruct (iat_past o); cbn [negb andb orb];
    rewrite ?term_nbf by (assumption || unfold u64 in *; lia); rewrite ?andb_true_r; reflexivity.
Qed.

(* The code as it is today accepts a far-future not-before: F9 *)
Theorem validate_today_refuted :
  exists o now exp nbf iat, u64 exp /\ u64 nbf /\ u64 iat /\ now_ok now /\ skew_ok (skew o) /\
    validate false o now exp nbf iat = true /\ spec o now exp nbf iat = false.
Proof.
  exists {| allow_missing := false; iat_past := false; skew := 0 |},
         (1700000000 + K, 0), 1800000000, 9223371974719179008, 0.
  repeat split; try (unfold u64, skew_ok, MaxI64, K, G; cbn; lia); vm_compute; reflexivity.
Qed.

(* acceptance in time is an interval: once expired stays expired, once usable stays usable *)
Theorem accept_monotone o n1 n2 n3 exp nbf iat :
  unix_ns n1 <= unix_ns n2 <= unix_ns n3 ->
  spec o n1 exp nbf iat = true -> spec o n3 exp nbf iat = true -> spec o n2 exp nbf iat = true.
Proof.
  unfold spec. intros H A B.
  repeat match goal with |- context [if ?c then _ else _] => destruct c eqn:? end;
  repeat match goal with H : _ && _ = true |- _ => apply andb_true_iff in H; destruct H end;
  repeat (apply andb_true_iff; split); try assumption; try reflexivity; try lia;
  repeat match goal with H : (_ >? _) = true |- _ => apply Z.gtb_lt in H | H : (_ <=? _) = true |- _ => apply Z.leb_le in H end;
  try (apply Z.gtb_lt; lia); try (apply Z.leb_le; lia).
Qed.
Print Assumptions validate_fixed_is_spec.
Print Assumptions validate_today_refuted.
