(* Design-phase feasibility probe for C08 (not part of the framework):
   deterministic map encoding = insertion sort of the entries by the bytewise
   lexicographic order of their encoded keys (RFC 8949 4.2.1); the result is
   strictly sorted, is a permutation of the input, and is the SAME list for any
   permutation of the input (independence of Go's map iteration order). *)
From Coq Require Import List Arith Lia Permutation Sorted Bool NArith.
From Coq Require Import Strings.Byte.
Import ListNotations.

(* ---- bytewise lexicographic order on byte strings ---- *)
Fixpoint blex (a b : list byte) : bool :=
  match a, b with
  | [], [] => false
  | [], _ :: _ => true
  | _ :: _, [] => false
  | x :: a', y :: b' =>
      if N.ltb (Byte.to_N x) (Byte.to_N y) then true
      else if N.ltb (Byte.to_N y) (Byte.to_N x) then false
      else blex a' b'
  end.

Lemma to_N_inj x y : Byte.to_N x = Byte.to_N y -> x = y.
Proof. intros H. pose proof (Byte.of_to_N x) as Hx. pose proof (Byte.of_to_N y) as Hy.
  rewrite H in Hx. rewrite Hx in Hy. congruence. Qed.

Lemma blex_irrefl a : blex a a = false.
Proof. induction a as [|x a IH]; cbn; [reflexivity|]. rewrite N.ltb_irrefl. exact IH. Qed.

Lemma blex_trans a : forall b c, blex a b = true -> blex b c = true -> blex a c = true.
Proof.
  induction a as [|x a IH]; intros [|y b] [|z c]; cbn; try congruence; try reflexivity.
  destruct (N.ltb_spec (Byte.to_N x) (Byte.to_N y)), (N.ltb_spec (Byte.to_N y) (Byte.to_N x)),
           (N.ltb_spec (Byte.to_N y) (Byte.to_N z)), (N.ltb_spec (Byte.to_N z) (Byte.to_N y)),
           (N.ltb_spec (Byte.to_N x) (Byte.to_N z)), (N.ltb_spec (Byte.to_N z) (Byte.to_N x));
    try congruence; try lia; try reflexivity; intros; try (eapply IH; eassumption).
Qed.

Lemma blex_total a : forall b, blex a b = false -> blex b a = false -> a = b.
Proof.
  induction a as [|x a IH]; intros [|y b]; cbn; try congruence.
  destruct (N.ltb_spec (Byte.to_N x) (Byte.to_N y)), (N.ltb_spec (Byte.to_N y) (Byte.to_N x));
    try congruence; try lia.
  intros. assert (x = y) by (apply to_N_inj; lia). subst. f_equal. apply IH; assumption.
Qed.

(* ---- generic: sorting entries by a key with a strict total order ---- *)
Section Sort.
  Variable A : Type.
  Variable key : A -> list byte.
  Definition lt (x y : A) : Prop := blex (key x) (key y) = true.

  Fixpoint insert (x : A) (l : list A) : list A :=
    match l with
    | [] => [x]
    | y :: t => if blex (key x) (key y) then x :: l else y :: insert x t
    end.
  Definition isort (l : list A) : list A := fold_right insert [] l.

  Lemma insert_perm x l : Permutation (x :: l) (insert x l).
  Proof. induction l as [|y t IH]; cbn; [reflexivity|]. destruct (blex (key x) (key y)); [reflexivity|].
    rewrite perm_swap. constructor. exact IH. Qed.
  Lemma isort_perm l : Permutation l (isort l).
  Proof. induction l as [|x t IH]; cbn; [constructor|]. rewrite <- insert_perm. constructor. exact IH. Qed.

  Lemma insert_sorted x l : StronglySorted lt l -> ~ In (key x) (map key l) -> StronglySorted lt (insert x l).
  Proof.
    induction 1 as [|y t Ht IH Hy]; intros Hn; cbn; [repeat constructor|].
    destruct (blex (key x) (key y)) eqn:E.
    - constructor; [constructor; assumption|]. constructor; [exact E|].
      rewrite Forall_forall in *. intros z Hz. unfold lt. eapply blex_trans; [exact E|]. apply Hy, Hz.
    - assert (Hyx : blex (key y) (key x) = true).
      { destruct (blex (key y) (key x)) eqn:E2; [reflexivity|]. exfalso. apply Hn. left.
        symmetry. apply blex_total; assumption. }
      constructor; [apply IH; intro; apply Hn; right; assumption|].
      rewrite Forall_forall in *. intros z Hz.
      apply (Permutation_in _ (Permutation_sym (insert_perm x t))) in Hz. destruct Hz as [<-|Hz]; [exact Hyx|apply Hy, Hz].
  Qed.

  Lemma isort_sorted l : NoDup (map key l) -> StronglySorted lt (isort l).
  Proof.
    induction l as [|x t IH]; cbn; intros Hnd; [constructor|]. inversion Hnd; subst.
    apply insert_sorted; [apply IH; assumption|].
    intro Hin. apply H1. apply (Permutation_in _ (Permutation_map key (Permutation_sym (isort_perm t)))). exact Hin.
  Qed.

  Lemma sorted_perm_unique l : forall l', StronglySorted lt l -> StronglySorted lt l' -> Permutation l l' -> l = l'.
  Proof.
    induction l as [|x t IH]; intros l' Hs Hs' Hp.
    - apply Permutation_nil in Hp. congruence.
    - destruct l' as [|y t']; [apply Permutation_sym, Permutation_nil in Hp; discriminate|].
      inversion Hs as [|? ? Ht Hx]; inversion Hs' as [|? ? Ht' Hy]; subst.
      assert (x = y).
      { assert (I1 : In x (y :: t')) by (eapply Permutation_in; [exact Hp|left; reflexivity]).
        assert (I2 : In y (x :: t)) by (eapply Permutation_in; [apply Permutation_sym; exact Hp|left; reflexivity]).
        destruct I1 as [->|I1]; [reflexivity|]. destruct I2 as [->|I2]; [reflexivity|].
        rewrite Forall_forall in Hx, Hy. pose proof (Hx _ I2) as A1. pose proof (Hy _ I1) as A2. unfold lt in *.
        pose proof (blex_trans _ _ _ A1 A2) as C. rewrite blex_irrefl in C. discriminate. }
      subst y. f_equal. apply IH; try assumption. eapply Permutation_cons_inv. exact Hp.
  Qed.

  (* independence of the enumeration order of the map *)
  Theorem isort_perm_invariant l l' : Permutation l l' -> NoDup (map key l) -> isort l = isort l'.
  Proof.
    intros Hp Hnd. apply sorted_perm_unique.
    - apply isort_sorted, Hnd.
    - apply isort_sorted. eapply Permutation_NoDup; [apply Permutation_map; exact Hp|exact Hnd].
    - rewrite <- (isort_perm l), <- (isort_perm l'). exact Hp.
  Qed.

  (* strictly increasing keys: in particular no duplicate key is ever emitted *)
  Theorem isort_keys_strict l : NoDup (map key l) -> StronglySorted (fun a b => blex a b = true) (map key (isort l)).
  Proof.
    intros Hnd. pose proof (isort_sorted l Hnd) as S. induction S as [|x t St IH Hx]; cbn; constructor; [exact IH|].
    rewrite Forall_forall in *. intros k Hk. apply in_map_iff in Hk. destruct Hk as (z & <- & Hz). apply Hx, Hz.
  Qed.
End Sort.

(* RFC 8949 bytewise order differs from the RFC 7049 length-first order: 10, 100, -1, "a", 1000 *)
Example rfc8949_not_length_first :
  isort (list byte) (fun k => k) [[x19;x03;xe8]; [x61;x61]; [x20]; [x18;x64]; [x0a]]
  = [[x0a]; [x18;x64]; [x19;x03;xe8]; [x20]; [x61;x61]].
Proof. vm_compute. reflexivity. Qed.
Print Assumptions isort_perm_invariant.
